#!/usr/bin/env python3
"""./selftest/run.py [--thorough] [--no-clean] [PATTERN...] [-jN]  -- test the checkers both ways.

1. every check must exit 0 on the unchanged tree (unless --no-clean);
2. for every mutant patch selftest/mutants/<PID>-<RULE>-<desc>.diff: copy /repo's sources to a scratch
   directory outside /repo and /verif, apply the patch, run `VERIF_REPO=<copy> ./check <PID>`, and require
   exit 1 + a VIOLATION line + the rule id in the report (the mutant must still parse: extraction runs
   clang on it).  The scratch copy is deleted afterwards.
3. for every behaviour-preserving variant selftest/benign/<PID>-<desc>.diff the named check must stay silent (exit 0, no VIOLATION) on the
   patched copy; variants named ALL-<desc>.diff ("maintainer refactorings" written by sub-agents that were told to change nothing observable) are
   run against all 20 checks, only with --all-variants or when selected by PATTERN (they take about an hour in total).
Mutants run in parallel (-j N, default 8).
"""
import concurrent.futures
import glob
import os
import re
import shutil
import subprocess
import sys
import tempfile

VERIF = os.path.dirname(os.path.dirname(os.path.abspath(__file__)))
REPO = "/repo"
DIRS = ["include", "src", "static_libs", "unittests", "samples"]


def run_mutant(path):
    name = os.path.basename(path)[:-5]
    m = re.match(r"^(C\d+)-(R[\d.]+[a-z]?)-", name)
    if not m:
        return name, False, "bad mutant file name"
    pid, rule = m.group(1), m.group(2).rstrip("abcdefghijklmnopqrstuvwxyz")
    tmp = tempfile.mkdtemp(prefix="verif-selftest-")
    try:
        for d in DIRS:
            if os.path.isdir(os.path.join(REPO, d)):
                shutil.copytree(os.path.join(REPO, d), os.path.join(tmp, d))
        r = subprocess.run(["patch", "-p1", "-s", "--no-backup-if-mismatch", "-d", tmp, "-i", path], stdout=subprocess.PIPE,
                           stderr=subprocess.STDOUT, text=True)
        if r.returncode != 0:
            return name, False, "patch does not apply: " + r.stdout[-300:]
        env = dict(os.environ, VERIF_REPO=tmp, VERIF_EVID_DIR=os.path.join(tmp, "_evidence"))
        r = subprocess.run([os.path.join(VERIF, "check"), pid], cwd=VERIF, env=env, stdout=subprocess.PIPE, stderr=subprocess.STDOUT,
                           text=True, timeout=1800)
        out = r.stdout
        if r.returncode == 2:
            return name, False, "analysis broken (mutant does not compile, or anchor lost): " + out[-400:]
        if r.returncode != 1 or "VIOLATION property=%s" % pid not in out:
            return name, False, "not detected (exit %d): %s" % (r.returncode, out[-300:])
        if ("%s %s]" % (pid, rule)) not in out:
            return name, False, "detected, but not by rule %s: %s" % (rule, out[-400:])
        first = [l for l in out.splitlines() if ("%s %s]" % (pid, rule)) in l][0]
        return name, True, first[:220].replace(tmp + "/", "")
    finally:
        shutil.rmtree(tmp, ignore_errors=True)


def run_benign(path):
    """a behaviour-preserving variant of /repo: the named check must stay silent (exit 0, no VIOLATION)"""
    name = os.path.basename(path)[:-5]
    m = re.match(r"^(C\d+|ALL)-", name)
    if not m:
        return name, False, "bad file name"
    pids = [m.group(1)] if m.group(1) != "ALL" else ["C%02d" % i for i in range(1, 21)]
    tmp = tempfile.mkdtemp(prefix="verif-selftest-")
    try:
        for d in DIRS:
            if os.path.isdir(os.path.join(REPO, d)):
                shutil.copytree(os.path.join(REPO, d), os.path.join(tmp, d))
        r = subprocess.run(["patch", "-p1", "-s", "--no-backup-if-mismatch", "-d", tmp, "-i", path], stdout=subprocess.PIPE, stderr=subprocess.STDOUT, text=True)
        if r.returncode != 0:
            return name, False, "patch does not apply: " + r.stdout[-300:]
        env = dict(os.environ, VERIF_REPO=tmp, VERIF_EVID_DIR=os.path.join(tmp, "_evidence"))
        last = ""
        for pid in pids:
            r = subprocess.run([os.path.join(VERIF, "check"), pid], cwd=VERIF, env=env, stdout=subprocess.PIPE, stderr=subprocess.STDOUT, text=True, timeout=1800)
            if not (r.returncode == 0 and "VIOLATION" not in r.stdout):
                return name, False, "%s exit %d: %s" % (pid, r.returncode, r.stdout[-400:].replace(tmp + "/", ""))
            last = r.stdout.strip().splitlines()[-1][:160]
        return name, True, last if len(pids) == 1 else "all 20 checks silent"
    finally:
        shutil.rmtree(tmp, ignore_errors=True)


def main():
    args = [a for a in sys.argv[1:] if not a.startswith("-")]
    jobs = 8
    for a in sys.argv[1:]:
        if a.startswith("-j"):
            jobs = int(a[2:])
    ok = True
    if "--no-clean" not in sys.argv:
        import json
        man = json.load(open(os.path.join(VERIF, "MANIFEST.json")))
        for c in man["checks"]:
            pid = c["property_id"]
            if args and not any(a in pid for a in args):
                continue
            r = subprocess.run([os.path.join(VERIF, "check"), pid], cwd=VERIF, stdout=subprocess.PIPE, stderr=subprocess.STDOUT, text=True)
            good = r.returncode == 0 and "VIOLATION" not in r.stdout
            print("%s unchanged tree: %s" % (pid, "silent (exit 0)" if good else "FAILED exit %d\n%s" % (r.returncode, r.stdout[-600:])))
            ok = ok and good
            if "--thorough" in sys.argv:
                r = subprocess.run([os.path.join(VERIF, "check"), pid, "--tier", "thorough"], cwd=VERIF, stdout=subprocess.PIPE, stderr=subprocess.STDOUT, text=True)
                good = r.returncode == 0 and "VIOLATION" not in r.stdout
                print("%s unchanged tree, thorough tier: %s" % (pid, "silent (exit 0)" if good else "FAILED exit %d\n%s" % (r.returncode, r.stdout[-600:])))
                ok = ok and good
    muts = sorted(glob.glob(os.path.join(VERIF, "selftest", "mutants", "*.diff")))
    if args:
        muts = [m for m in muts if any(a in os.path.basename(m) for a in args)]
    with concurrent.futures.ThreadPoolExecutor(max_workers=jobs) as ex:
        for name, good, msg in ex.map(run_mutant, muts):
            print("%s %s: %s" % ("DETECTED" if good else "MISSED  ", name, msg))
            ok = ok and good
    bens = sorted(glob.glob(os.path.join(VERIF, "selftest", "benign", "*.diff")))
    if "--all-variants" not in sys.argv and not args:
        # the ALL-* variants run all 20 checks each (about an hour in total): opt-in
        bens = [b for b in bens if not os.path.basename(b).startswith("ALL-")]
    if args:
        bens = [b for b in bens if any(a in os.path.basename(b) for a in args)]
    with concurrent.futures.ThreadPoolExecutor(max_workers=jobs) as ex:
        for name, good, msg in ex.map(run_benign, bens):
            print("%s %s: %s" % ("SILENT  " if good else "ALARM   ", name, msg))
            ok = ok and good
    print("selftest: %s (%d mutants, %d behaviour-preserving variants)" % ("all good" if ok else "FAILURES", len(muts), len(bens)))
    return 0 if ok else 1


if __name__ == "__main__":
    sys.exit(main())
