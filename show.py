import sys,json
sys.path.insert(0,'/verif'); sys.setrecursionlimit(20000)
from verif import ir
p=ir.load_program()
def show(n,ind=0,maxd=12,f=None):
    if not isinstance(n,dict): return
    keys={k:v for k,v in n.items() if not isinstance(v,(dict,list)) and k not in ('l',)}
    for tk in ('t','tt','bt','from','of','cls'):
        if tk in keys and f is not None and isinstance(keys[tk],int): keys[tk]=p.T(f,keys[tk])[:60]
    print(' '*ind+str(n.get('l',''))+' '+json.dumps(keys))
    if ind>=maxd: return
    for c in ir.children(n): show(c,ind+1,maxd,f)
rx=sys.argv[1]
lim=int(sys.argv[2]) if len(sys.argv)>2 else 1
for f in p.find(rx)[:lim]:
    print('#',f['q'][:200],f['tk'],f['kind'],f.where, 'noexcept' if f.get('noexcept') else '')
    for i in f.get('inits',[]):
        print(' init', i.get('field') or i.get('base')); show(i.get('init'),2,12,f)
    show(f.body,0,14,f)
