#!/bin/sh
# Build the fact extractor from files on disk only (offline).
set -e
cd "$(dirname "$0")"
mkdir -p bin evidence
clang++ $(llvm-config-14 --cxxflags) -O1 -fno-rtti extractor/chaifacts.cc -o bin/chaifacts \
  /usr/lib/llvm-14/lib/libclang-cpp.so.14 /usr/lib/llvm-14/lib/libLLVM-14.so
echo "built bin/chaifacts"
