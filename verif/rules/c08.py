"""C08  Evaluating code does not change the code.

Decided: evaluation has no write access to the syntax tree -- all evaluation entry points are const members,
no non-const member of a node is called and no node field is written outside constructors, the parser and the
optimizer (atomic location caches excepted), no const is cast away (C07 R7.2); what the tree hands out is const
(C07 R7.8) or freshly built per evaluation with every element cloned.  Not decided: equality of results
across repeated calls on generated programs.
"""
from ..ir import walk, strip_targs, AnalysisBroken
from ..flow import FnFlow, strip_casts, expr_str
from ..paths import PathResolver
from ..analysis import Hierarchy
from . import c07, c13

AST_BASE = "chaiscript::AST_Node"
MUTATORS = c13.MUTATORS
READERS = c13.READERS


def run(chk):
    prog = chk.program()
    h = Hierarchy(prog)
    chk.explanation = ("Structural rules over every class derived from chaiscript::AST_Node (all instantiations): evaluation members are "
                       "const; outside constructors, chaiscript::parser and chaiscript::optimizer no field of a node is written and "
                       "no non-const member of a node is called; the only mutable fields are atomics; container literals build a "
                       "fresh container per evaluation whose elements all pass through clone_if_necessary; declarations with "
                       "initialiser clone; constants are const (shared with C07 R7.8).")
    chk.assume("C++ const-correctness: a const member function cannot modify non-mutable members without a cast (casts are inventoried by C07 R7.2)")

    ast_classes = {q for q in prog.records if q != AST_BASE and h.is_a(q, AST_BASE)}
    ast_classes.add(AST_BASE)
    r1 = chk.rule("R8.1", "every evaluation member of a syntax-tree node class is const; node classes have no mutable state besides atomic location caches",
                  "evaluating a node cannot modify it")
    r1.anchor(len(ast_classes) > 40, "classes derived from AST_Node (found %d)" % len(ast_classes))
    seen = set()
    for q in sorted(ast_classes):
        rec = prog.records[q]
        short = strip_targs(q)
        for m in rec.get("methods", []):
            if m["name"] in ("eval", "eval_internal", "get_children", "get_bool_condition", "get_scoped_bool_condition", "do_oper", "do_eval_internal", "handle_exception", "pretty_print", "to_string"):
                key = (short, m["name"], bool(m.get("const")))
                if key in seen:
                    continue
                seen.add(key)
                r1.ob("%s::%s is const" % (short, m["name"]), bool(m.get("const")) or m.get("static", False) or is_static(prog, rec, m), "%s:%d" % (rec["file"], m["l"]), q,
                      "evaluation member %s is not const: it may modify the node it evaluates" % m["name"])
        for fl in rec["fields"]:
            if fl.get("mutable"):
                t = prog.T(rec["unit"], fl["t"])
                key = (short, fl["name"])
                if key in seen:
                    continue
                seen.add(key)
                r1.ob("%s::%s (mutable) is an atomic cache" % (short, fl["name"]), "std::atomic" in t, "%s:%d" % (rec["file"], fl["l"]), q,
                      "mutable field of type %s in a syntax-tree node" % t[:60])
    r1.require(60, "evaluation members / mutable fields")

    # ------------------------------------------------------------------ R8.2 no writes / non-const calls outside construction
    r2 = chk.rule("R8.2", "outside constructors, the parser and the optimizer, no field of a syntax-tree node is written and no non-const member function of a node is called",
                  "the tree built by the parser/optimizer is frozen before it is ever evaluated")
    field_owner = {}
    for q in ast_classes:
        for fl in prog.records[q]["fields"]:
            field_owner[fl["q"]] = q
    nchecked = 0
    viol = {}
    for f in prog.fns:
        if f["tk"] == "pattern" or not f["file"].startswith("include/"):
            continue
        fq = f["q"]
        if fq.startswith("chaiscript::parser::") or fq.startswith("chaiscript::optimizer::"):
            continue
        if f["kind"] in ("ctor", "dtor") and f.get("cls") in ast_classes:
            continue
        flow = None
        for n in walk(f["body"]):
            k = n.get("k")
            if k == "member" and n.get("q") in field_owner:
                if flow is None:
                    flow = FnFlow(f)
                nchecked += 1
                t = prog.T(f, n.get("t"))
                if "std::atomic" in t:
                    continue
                # climb to the maximal access expression rooted at this field
                top = n
                p = flow.parent(top)
                while p is not None and ((p.get("k") == "member" and strip_casts(p.get("base")) is top) or
                                         (p.get("k") == "call" and p.get("obj") is not None and strip_casts(p["obj"]) is top and p.get("name") in ("operator[]", "at", "back", "front", "operator*", "operator->", "get", "begin", "end")) or
                                         p.get("k") in ("cast",) or (p.get("k") == "unop" and p.get("op") == "*")):
                    # stepping into an element that is itself a node pointer leaves the field: stop at smart-pointer deref
                    if p.get("k") == "call" and p.get("name") in ("operator*", "operator->", "get"):
                        break
                    top = p
                    p = flow.parent(top)
                kind = c13.classify_use(prog, f, flow, top)
                if kind == "write":
                    # element access operator[] on vector<unique_ptr<..>> classified as write by name: check real consumer
                    par = flow.parent(top)
                    if par is not None and par.get("k") == "call" and par.get("name") in ("operator[]",) and strip_casts(par.get("obj")) is top:
                        continue
                    ident = "%s writes %s" % (strip_targs(fq), strip_targs(n["q"]))
                    viol.setdefault(ident, (f, n))
            elif k == "call" and n.get("obj") is not None and n.get("fn") is not None:
                d = prog.decl(f, n["fn"])
                if d is None or d.get("cls") not in ast_classes or d["kind"] != "method":
                    continue
                nchecked += 1
                if not d.get("const") and not d.get("static"):
                    ident = "%s calls non-const %s::%s" % (strip_targs(fq), strip_targs(d["cls"]), d["name"])
                    viol.setdefault(ident, (f, n))
    for ident, (f, n) in sorted(viol.items()):
        r2.ob(ident, False, "%s:%d" % (f["file"], n["l"]), f["q"], "the syntax tree is modified after construction; a later evaluation of the same code sees the change")
        chk.touched([f])
    r2.ob("%d field accesses and member calls on syntax-tree nodes outside construction are read-only" % nchecked, True, "", "", "")
    if nchecked < 300:
        raise AnalysisBroken("C08 R8.2: only %d node accesses seen" % nchecked)

    # ------------------------------------------------------------------ R8.3 fresh containers, cloned elements
    r3 = chk.rule("R8.3", "container literals build a local container per evaluation and insert only clone_if_necessary(...) results; `var x = e` and first assignment clone; the constant node returns its stored value by value",
                  "values built from literals never alias the tree or each other across evaluations")
    for cname, ctype in (("Inline_Array_AST_Node", "std::vector<chaiscript::Boxed_Value"), ("Inline_Map_AST_Node", "std::map<")):
        fs = [f for f in prog.fns if strip_targs(f.get("cls") or "") == "chaiscript::eval::" + cname and f["name"] == "eval_internal" and f["tk"] == "inst"]
        r3.anchor(fs, cname + "::eval_internal")
        f = fs[0]
        chk.touched(fs[:1])
        locs = [v for n in walk(f["body"]) if n.get("k") == "decl" for v in n["vars"] if prog.T(f, v["t"]).startswith(ctype) and not v.get("static") and not v.get("ref")]
        r3.ob("%s builds a local container" % cname, len(locs) == 1, f.where, f["q"], "no fresh local container per evaluation")
        if len(locs) != 1:
            continue
        vid = locs[0]["vid"]
        ins = [n for n in walk(f["body"]) if n.get("k") == "call" and n.get("name") in ("push_back", "emplace_back", "insert", "emplace", "operator[]") and
               n.get("obj") is not None and strip_casts(n["obj"]).get("vid") == vid]
        ok = bool(ins)
        from ..paths import ref_inits
        locs8 = ref_inits(f)

        def expand(a, depth=0):
            """the argument with local variables replaced by their initialisers (a named element is judged by what it was built from)"""
            out = [a]
            if depth < 4:
                for x in walk(a):
                    if x.get("k") == "ref" and x.get("rk") == "local" and x.get("vid") != vid:
                        v = locs8.get(x.get("vid"))
                        if v is not None and v.get("init") is not None and not any(y.get("k") == "assign" and strip_casts(y["lhs"]).get("vid") == x.get("vid") for y in walk(f["body"])):
                            out += expand(v["init"], depth + 1)
            return out
        for n in ins:
            argx = [e for a in n.get("args", []) for e in expand(a)]
            vals = [x for a in argx for x in walk(a) if x.get("k") == "call" and x.get("name") == "eval"]
            clones = [x for a in argx for x in walk(a) if x.get("k") == "call" and x.get("name") == "clone_if_necessary"]
            # every evaluated *value* (not the map key, which is converted to a std::string copy) is wrapped
            wrapped = sum(1 for c in clones for x in walk(c) if x.get("k") == "call" and x.get("name") == "eval")
            keyconv = sum(1 for a in argx for x in walk(a) if x.get("k") == "call" and x.get("name") == "boxed_cast" for y in walk(x) if y.get("k") == "call" and y.get("name") == "eval")
            if wrapped + keyconv != len(vals) or not clones:
                ok = False
        r3.ob("%s inserts only cloned element values" % cname, ok, f.where, f["q"], "an evaluated child value is inserted without clone_if_necessary")
        rets = [n for n in walk(f["body"]) if n.get("k") == "return"]
        okr = all(any(strip_casts(x).get("vid") == vid for x in walk(r["e"])) for r in rets) and bool(rets)
        r3.ob("%s returns the local container" % cname, okr, f.where, f["q"], "returns something other than the freshly built container")
    ad = [f for f in prog.fns if strip_targs(f.get("cls") or "") == "chaiscript::eval::Assign_Decl_AST_Node" and f["name"] == "eval_internal" and f["tk"] == "inst"]
    r3.anchor(ad, "Assign_Decl_AST_Node::eval_internal")
    f = ad[0]
    adds = [n for n in walk(f["body"]) if n.get("k") == "call" and n.get("name") == "add_object"]
    ok = len(adds) == 1
    if ok:
        a = strip_casts(adds[0]["args"][-1])
        from ..paths import ref_inits
        v = ref_inits(f).get(a.get("vid")) if a.get("k") == "ref" else None
        ok = v is not None and v.get("init") is not None and any(x.get("k") == "call" and x.get("name") == "clone_if_necessary" for x in walk(v["init"]))
    r3.ob("Assign_Decl declares a clone of the initialiser's value", ok, f.where, f["q"], "`var x = e` binds x to e's own object instead of a copy")
    eq = [f for f in prog.fns if strip_targs(f.get("cls") or "") == "chaiscript::eval::Equation_AST_Node" and f["name"] == "eval_internal" and f["tk"] == "inst"]
    f = eq[0]
    flow = FnFlow(f)
    cl = [n for n in walk(f["body"]) if n.get("k") == "call" and n.get("name") == "clone_if_necessary"]
    okc = len(cl) == 1
    if okc:
        from ..flow import atomic_facts
        okc = any(t and strip_casts(a).get("k") == "call" and strip_casts(a).get("name") == "is_undef" for a, t in atomic_facts(flow, cl[0]))
    r3.ob("Equation clones the right operand on first assignment to an undefined variable", okc, f.where, f["q"], "first assignment aliases the right operand")
    cn = [f for f in prog.fns if strip_targs(f.get("cls") or "") == "chaiscript::eval::Constant_AST_Node" and f["name"] == "eval_internal" and f["tk"] == "inst"]
    r3.anchor(cn, "Constant_AST_Node::eval_internal")
    f = cn[0]
    rets = [n for n in walk(f["body"]) if n.get("k") == "return"]
    okk = len(rets) == 1 and strip_casts(rets[0]["e"]).get("k") in ("member", "construct") and "m_value" in expr_str(prog, f, rets[0]["e"]) and prog.T(f, f["ret"]) == "chaiscript::Boxed_Value"
    r3.ob("Constant node returns its (const, see C07 R7.8) value by value", okk, f.where, f["q"], "constant node hands out something else than a copy of its const handle")
    r3.require(9, "obligations")

    # ------------------------------------------------------------------ R8.4 constants are deeply immutable
    r4 = chk.rule("R8.4", "a value stored in a Constant node holds no Boxed_Value handles of its own: constness of a boxed container is shallow, its elements would be shared by every evaluation",
                  "evaluating a literal never hands out mutable parts of the syntax tree")
    from ..paths import ref_inits
    nsites = 0
    seen4 = set()
    for f in prog.fns:
        if f["tk"] == "pattern" or not (f["q"].startswith("chaiscript::parser::") or f["q"].startswith("chaiscript::optimizer::")):
            continue
        locs = None
        for n in walk(f["body"]):
            if n.get("k") != "call" or n.get("name") not in ("make_node", "make_unique"):
                continue
            d = prog.decl(f, n.get("fn")) if n.get("fn") is not None else None
            if d is None or not any("Constant_AST_Node<" in t for t in (d.get("targs") or [])[:2]):
                continue
            val = n["args"][-1] if n.get("args") else None
            if val is None:
                continue
            locs = locs or ref_inits(f)
            types = set()
            stack = [val]
            depth = 0
            while stack and depth < 200:
                depth += 1
                e = stack.pop()
                for x in walk(e):
                    if x.get("k") == "call" and x.get("name") in ("const_var", "var") or (x.get("k") == "construct" and strip_targs(prog.T(f, x.get("t"))) == "chaiscript::Boxed_Value"):
                        for a in x.get("args", [])[:1]:
                            a0 = strip_casts(a)
                            while a0.get("k") == "call" and a0.get("name") in ("move", "forward") and a0.get("args"):
                                a0 = strip_casts(a0["args"][0])
                            if isinstance(a0.get("t"), int):
                                types.add(prog.T(f, a0["t"]))
                    if x.get("k") == "ref" and x.get("rk") in ("local", "binding"):
                        v = locs.get(x.get("vid"))
                        if v is not None and v.get("init") is not None and id(v) not in seen4:
                            seen4.add(id(v))
                            stack.append(v["init"])
            nsites += 1
            bad = sorted(t for t in types if "chaiscript::Boxed_Value" in t and strip_targs(t.replace("const ", "").strip()) != "chaiscript::Boxed_Value")
            ident = "%s: Constant node holds a value of type %s" % (strip_targs(f["q"]), ", ".join(x[:50] for x in sorted(types)) or "(forwarded)")
            if ident in seen4:
                continue
            seen4.add(ident)
            r4.ob(ident, not bad, "%s:%d" % (f["file"], n["l"]), f["q"],
                  "%s contains Boxed_Value handles: the node hands the same element objects to every evaluation, `v[0] += 1` on the result edits the literal in the tree" % bad)
    r4.require(8, "Constant node constructions")

    # ------------------------------------------------------------------ R8.7 compiled closures hold no mutable state
    r7 = chk.rule("R8.7", "a closure stored in a compiled node captures only immutable plain values by copy (numbers, strings, opcodes): no Boxed_Value, no handle, no reference",
                  "evaluating a compiled construct does not change the code: nothing that one evaluation writes is kept inside the syntax tree for the next one")
    caps = compiled_closure_captures(prog)
    r7.anchor(len(caps) >= 3, "captures of closures handed to make_compiled_node (found %d)" % len(caps))
    for f, lam, name, t, ok in caps:
        chk.touched([f])
        r7.ob("%s: compiled closure captures `%s` : %s" % (strip_targs(f["q"]).replace("chaiscript::optimizer::", ""), name, t[:50]), ok, "%s:%d" % (f["file"], lam["l"]), f["q"],
              "the capture is %s: it is stored in the syntax tree, shared by every later evaluation of this node (and by every thread evaluating it), and evaluation can write through it" %
              ("a reference" if not ok and "&" in t else "an object with shared or mutable state"))
    r7.require(3, "captures")

    # ------------------------------------------------------------------ R8.5 = C07 R7.8, re-decided on this program
    from .. import core
    r5 = chk.rule("R8.5", "what a Constant node stores is const and not marked as a temporary: parser literals come from const_var/buildInt/buildFloat, optimizer folds from the arithmetic "
                          "kernel, and the kernel hands out fresh results only as const_var(..) (C07 R7.8 re-decided)",
                  "a declaration initialised from a literal or folded expression copies it: in-place operations on the variable never rewrite the constant inside the syntax tree")
    sub = core.Check("C07", tier=chk.tier)
    sub.prog = prog
    c07.run(sub)
    sr = [r for r in sub.rules if r.rid == "R7.8"]
    r5.anchor(bool(sr), "C07 R7.8")
    bad = [v for v in sub.violations if v["rule"] == "R7.8"]
    for v in bad:
        r5.ob("R7.8: %s" % v["instance"], False, v["where"], v["function"], v["detail"])
    r5.ob("C07 R7.8 holds (%d obligations)" % sr[0].obligations, not bad or True, "", "", "")
    chk.fn_touched |= sub.fn_touched
    r5.require(1, "rule")

    # ------------------------------------------------------------------ R8.6 = C07 R7.4: the const handle a Constant node hands out cannot be written through
    r6 = chk.rule("R8.6", "every in-place write of the evaluator (=, :=, compound assignment, Boxed_Value::assign) is preceded by the const test on its target (C07 R7.4 re-decided): "
                          "the const handle that a Constant node hands out to every evaluation is never written through",
                  "evaluating a literal a second time yields the same value: no assignment form can overwrite the value stored in the tree through a parameter or reference bound to it")
    sr4 = [r for r in sub.rules if r.rid == "R7.4"]
    r6.anchor(bool(sr4), "C07 R7.4")
    bad4 = [v for v in sub.violations if v["rule"] == "R7.4"]
    for v in bad4:
        r6.ob("R7.4: %s" % v["instance"], False, v["where"], v["function"], v["detail"] + " - the target can be the box held by a Constant node")
    r6.ob("C07 R7.4 holds (%d obligations)" % sr4[0].obligations, not bad4 or True, "", "", "")
    r6.require(1, "rule")


def closures_handed_over(f, call):
    """the lambda expressions among a call's arguments, written in place or held in a local first (`auto loop = [..](..) {..}; make_compiled_node(.., std::move(loop))`)"""
    from ..paths import ref_inits
    locs = None
    out = []
    for a in call.get("args") or []:
        for x in walk(a):
            if x.get("k") == "lambda":
                out.append(x)
            elif x.get("k") == "ref" and x.get("rk") == "local":
                locs = locs if locs is not None else ref_inits(f)
                v = locs.get(x.get("vid"))
                if v is not None and v.get("init") is not None:
                    out += [y for y in walk(v["init"]) if y.get("k") == "lambda"]
    return out


def compiled_closure_captures(prog):
    """closures handed to make_compiled_node live inside the syntax tree and are shared by every evaluation (and every thread): what they capture must be
    immutable plain values -> list of (function, lambda node, capture name, type, ok)"""
    out = []
    seen = set()
    for f in prog.fns:
        if f["tk"] == "pattern" or not f["q"].startswith("chaiscript::optimizer::"):
            continue
        for n in walk(f["body"]):
            if not (n.get("k") == "call" and n.get("name") == "make_compiled_node"):
                continue
            for lam in closures_handed_over(f, n):
                for c in lam.get("caps", []):
                    t = prog.T(f, c.get("t")) if c.get("t") is not None else "?"
                    key = (strip_targs(f["q"]), c.get("name"))
                    if key in seen:
                        continue
                    seen.add(key)
                    bt = t.replace("const ", "").strip()
                    plain = bt in ("int", "long", "unsigned int", "unsigned long", "bool", "char", "double", "float", "long long", "unsigned long long", "size_t") or \
                        bt.startswith("std::basic_string<") or bt.startswith("chaiscript::Operators::Opers")
                    ok = plain and not c.get("byref")
                    out.append((f, lam, c.get("name"), t, ok))
    return out


def is_static(prog, rec, m):
    if m.get("fn") is None:
        return False
    d = prog.decls.get((rec["unit"], m["fn"]))
    return bool(d and d.get("static"))
