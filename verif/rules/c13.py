"""C13  One engine may be used from many threads at once.

Decided: lock discipline -- every access to a shared, non-atomic field of the engine classes happens with its
guarding mutex held (unique for writes), established by a lock-set analysis over RAII lock objects with
requirement propagation through private helpers and lambdas; every field of the shared classes is
classified; every `mutable` field anywhere is atomic / mutex / per-thread storage; no non-recursive mutex is
held across a call that can re-acquire it or reach user code; the shared parser instance is re-entrant.
Not decided: that each thread's results equal a single-threaded run; visibility timing.
"""
import re

from ..ir import walk, strip_targs, AnalysisBroken
from ..flow import FnFlow, strip_casts, expr_str
from ..paths import PathResolver, path_str
from ..analysis import callgraph, fkey

DE = "chaiscript::detail::Dispatch_Engine"
TC = "chaiscript::Type_Conversions"
CB = "chaiscript::ChaiScript_Basic"

# guarded-by table, confirmed by reading every access (DESIGN.md C13)
GUARDED = {
    DE + "::m_state": (DE + "::m_mutex", "engine registry: functions, function objects, globals, type names"),
    TC + "::m_conversions": (TC + "::m_mutex", "registered conversions"),
    TC + "::m_convertableTypes": (TC + "::m_mutex", "set of convertible types"),
    CB + "::m_used_files": (CB + "::m_use_mutex", "files already evaluated by use()"),
    CB + "::m_loaded_modules": (CB + "::m_use_mutex", "loaded binary modules"),
    CB + "::m_active_loaded_modules": (CB + "::m_use_mutex", "active binary modules"),
    CB + "::m_namespace_generators": (CB + "::m_use_mutex", "registered namespace generators"),
}
OTHER = {
    DE + "::m_mutex": "mutex", DE + "::m_conversions": "own synchronisation (Type_Conversions)", DE + "::m_stack_holder": "per-thread storage",
    DE + "::m_parser": "immutable after construction", DE + "::m_method_missing_loc": "atomic",
    TC + "::m_mutex": "mutex", TC + "::m_num_types": "atomic", TC + "::m_thread_cache": "per-thread storage",
    TC + "::m_conversion_saves": "per-thread storage",
    CB + "::m_mutex": "mutex", CB + "::m_use_mutex": "mutex", CB + "::m_module_paths": "immutable after construction",
    CB + "::m_use_paths": "immutable after construction", CB + "::m_parser": "immutable after construction",
    CB + "::m_engine": "own synchronisation (Dispatch_Engine)",
}
LOCK_TYPES = ("std::unique_lock<", "std::shared_lock<", "std::lock_guard<", "std::scoped_lock<")
READERS = {"find", "begin", "end", "cbegin", "cend", "rbegin", "rend", "at", "count", "size", "empty", "lower_bound", "upper_bound",
           "equal_range", "contains", "front", "back", "data", "key_comp", "at_index", "get", "operator*", "operator->", "operator bool",
           "max_size", "capacity", "c_str", "length", "compare", "load"}
MUTATORS = {"insert", "emplace", "erase", "clear", "push_back", "pop_back", "insert_or_assign", "assign", "operator=", "swap", "resize",
            "reserve", "merge", "emplace_back", "try_emplace", "emplace_hint", "operator[]", "push_front", "pop_front", "reset", "store",
            "grow", "extract"}


def guard_of(path):
    """(field q, mutex q) if the access path goes through a guarded field"""
    for s in path or []:
        if s[0] == "field" and s[1] in GUARDED:
            return s[1], GUARDED[s[1]][0]
    return None


def lock_mode(t):
    if "std::shared_lock<" in t:
        return "shared"
    return "unique"


class LockInfo:
    """RAII lock objects of one function and the regions in which each is held."""

    def __init__(self, prog, f):
        self.prog = prog
        self.f = f
        self.flow = FnFlow(f)
        self.locks = {}    # vid -> (name, mutex field q, mode, decl stmt)
        for n in walk(f["body"]):
            if n.get("k") == "decl":
                for v in n["vars"]:
                    t = prog.T(f, v["t"])
                    if t.startswith(LOCK_TYPES) and v.get("init") is not None:
                        mq = None
                        for x in walk(v["init"]):
                            if x.get("k") == "member" and ("mutex" in prog.T(f, x.get("t")) or "mutex" in x.get("name", "")):
                                mq = x.get("q")
                        if mq is not None:
                            self.locks[v["vid"]] = (v["name"], mq, lock_mode(t), n)

    def held_at(self, n):
        """{mutex q: mode} held when node n is evaluated"""
        held = {}
        flow = self.flow
        cur = n
        chain = [n] + list(flow.ancestors(n))
        for i, a in enumerate(chain[1:], 1):
            child = chain[i - 1]
            if a.get("k") != "block":
                continue
            sibs = a.get("s", [])
            idx = next((j for j, s in enumerate(sibs) if s is child), None)
            if idx is None:
                continue
            for s in sibs[:idx]:
                if s.get("k") == "decl":
                    for v in s["vars"]:
                        if v["vid"] in self.locks:
                            name, mq, mode, _ = self.locks[v["vid"]]
                            state = self._state_before(v["vid"], s, n)
                            if state:
                                if held.get(mq) != "unique":
                                    held[mq] = mode
        return held

    def _state_before(self, vid, decl_stmt, n):
        """Is lock `vid` (locked at its declaration) still locked at n?  Looks at unlock()/lock() calls on it that lie
        between the declaration and n in source order; one that is not in a dominating position makes the answer
        'not held' (conservative)."""
        flow = self.flow
        dom = None
        events = []
        for x in walk(self.f["body"]):
            if x.get("k") == "call" and x.get("name") in ("unlock", "lock", "release") and x.get("obj") is not None:
                o = strip_casts(x["obj"])
                if o.get("k") == "ref" and o.get("vid") == vid:
                    events.append(x)
        if not events:
            return True
        if dom is None:
            dom = {id(d) for d in flow.dominating(n)}
        state = True
        for e in sorted(events, key=lambda e: e["l"]):
            if e["l"] > n["l"] or (e["l"] == n["l"] and not id(e) in dom):
                continue
            if id(e) in dom:
                state = e["name"] == "lock"
            else:
                # an unlock somewhere not dominating n: cannot prove the lock is held
                if e["name"] != "lock":
                    state = False
        return state


def classify_use(prog, f, flow, n):
    """'read' / 'write' for the maximal access expression n, from its consumer"""
    p = flow.parent(n)
    child = n
    while p is not None and p.get("k") in ("cast", "defarg", "definit"):
        child = p
        p = flow.parent(p)
    if p is None:
        return "read"
    k = p.get("k")
    if k == "call" and p.get("obj") is not None and strip_casts(p["obj"]) is strip_casts(n):
        nm = p.get("name")
        if nm in MUTATORS:
            return "write"
        if nm in READERS:
            return "read"
        d = prog.decl(f, p.get("fn")) if p.get("fn") is not None else None
        if d is not None and d.get("const"):
            return "read"
        return "write"
    if k == "assign":
        return "write" if strip_casts(p.get("lhs")) is strip_casts(n) else "read"
    if k == "unop" and p.get("op") in ("++", "--"):
        return "write"
    if k == "call":
        d = prog.decl(f, p.get("fn")) if p.get("fn") is not None else None
        if d is not None:
            for i, a in enumerate(p.get("args", [])):
                if strip_casts(a) is strip_casts(n) and i < len(d.get("params", [])):
                    t = prog.T(d["unit"], d["params"][i]["t"])
                    if (t.endswith("&") or t.endswith("*")) and not t.startswith("const "):
                        return "write"
        return "read"
    return "read"


def run(chk):
    prog = chk.program()
    cg = callgraph(prog)
    chk.explanation = ("Lock-set analysis over the three shared engine classes: RAII lock objects (with unlock()/lock() regions) give "
                       "the set of mutexes held at every access to a guarded field; accesses in helpers and lambdas that take no lock "
                       "become requirements that every caller on the same object must satisfy, up to public entry points; writes need "
                       "the unique mode.  Plus: field classification, `mutable` inventory over all records, lock-held-across-call rule, "
                       "parser re-entrancy.")
    chk.assume("an engine object is not shared between threads before its constructor returns (constructors are exempt)")
    chk.assume("script-level assignment to a shared global variable from several threads is the script's own race, not the engine's")

    # ------------------------------------------------------------------ R13.1 classification
    r1 = chk.rule("R13.1", "every field of the shared engine classes is classified (guarded-by / atomic / per-thread / immutable / own sync); every `mutable` field in the code base is atomic, a mutex or per-thread storage",
                  "no shared field can be touched outside the synchronisation scheme")
    for cls in (DE, TC, CB):
        rec = prog.records.get(cls)
        r1.anchor(rec is not None, "record " + cls)
        for fl in rec["fields"]:
            if fl.get("static"):
                continue
            q = fl["q"]
            t = prog.T(rec["unit"], fl["t"])
            kind = "guarded by " + GUARDED[q][0].split("::")[-1] if q in GUARDED else OTHER.get(q)
            ok = kind is not None
            if ok and kind == "atomic":
                ok = "std::atomic" in t
            if ok and kind == "per-thread storage":
                ok = "Thread_Storage<" in t
            if ok and kind == "mutex":
                ok = "mutex" in t
            r1.ob("%s: %s" % (q, kind or "UNCLASSIFIED"), ok, "%s:%d" % (rec["file"], fl["l"]), cls,
                  "field %s (type %s) of a class shared between threads is not covered by the synchronisation table%s" % (
                      q, t[:80], "" if kind is None else " as '%s'" % kind))
    seen = set()
    for q, rec in sorted(prog.records.items()):
        if not rec["file"].startswith("include/"):
            continue
        for fl in rec["fields"]:
            if fl.get("mutable"):
                ident = strip_targs(q) + "::" + fl["name"]
                if ident in seen:
                    continue
                seen.add(ident)
                t = prog.T(rec["unit"], fl["t"])
                ok = "std::atomic" in t or "mutex" in t or "Thread_Storage<" in t
                r1.ob("mutable %s : %s" % (ident, strip_targs(t)[:50]), ok, "%s:%d" % (rec["file"], fl["l"]), q,
                      "mutable field of type %s can be written from const member functions that run concurrently (evaluation is const)" % t[:80])
    r1.require(25, "classified fields")

    # ------------------------------------------------------------------ R13.2 lock sets
    r2 = chk.rule("R13.2", "every access to a guarded field happens with its mutex held (unique mode for writes), directly or at every caller of a lock-free helper",
                  "concurrent eval/add/add_global/use/get_state on one engine are free of data races on the engine's registries")
    shared = (DE, TC, CB)
    cand = [f for f in prog.fns if f["tk"] != "pattern" and ((f.get("cls") or "") in shared or any(f["q"].startswith(c + "::") for c in shared))]
    r2.anchor(len(cand) > 150, "functions of the shared classes (found %d)" % len(cand))
    info = {}
    all_sites = {}
    unmet = {}      # fkey -> list of (field, mutex, kind, site node, where, chain)
    direct_sites = 0
    for f in cand:
        if f["kind"] in ("ctor", "dtor") and (f.get("cls") in shared):
            continue
        pr = PathResolver(prog, f)
        li = None
        flow = None
        reqs = []
        handled = set()
        for n in walk(f["body"]):
            if n.get("k") not in ("member", "call") and not (n.get("k") == "ref" and n.get("rk") in ("local", "binding")):
                continue
            p = pr.path(n)
            g = guard_of(p)
            if g is None:
                continue
            if flow is None:
                li = LockInfo(prog, f)
                flow = li.flow
            par = flow.parent(n)
            # maximal: the parent is not itself a path step over n
            if par is not None and par.get("k") in ("member",) and strip_casts(par.get("base")) is n:
                continue
            if par is not None and par.get("k") == "call" and par.get("obj") is n and guard_of(pr.path(par)) is not None:
                continue
            if par is not None and par.get("k") in ("unop",) and par.get("op") in ("*", "&"):
                pass
            fieldq, mq = g
            kind = classify_use(prog, f, flow, n)
            held = li.held_at(n)
            direct_sites += 1
            mode = held.get(mq)
            ok = mode is not None and (kind == "read" or mode == "unique")
            how = ("holds %s (%s)" % (mq.split("::")[-1], mode)) if ok else "relies on callers"
            all_sites.setdefault((strip_targs(f["q"]), fieldq.split("::")[-1], kind, how), "%s:%d" % (f["file"], n["l"]))
            if not ok:
                reqs.append((fieldq, mq, kind, n, "%s:%d" % (f["file"], n["l"]), [strip_targs(f["q"])], mode))
        info[fkey(f)] = (f, li)
        if reqs:
            unmet[fkey(f)] = reqs
    chk.touched(cand)
    # propagate requirements to callers on the same object (this-calls, lambdas created in the caller)
    fn_of = {fkey(f): f for f in cand}
    all_fn = {fkey(f): f for f in prog.fns}
    callers = {}
    for k, edges in cg.edges.items():
        for callee, node, kind in edges:
            if callee in fn_of and kind in ("call", "virtual", "lambda"):
                callers.setdefault(callee, []).append((k, node))
    # lambdas: the creation site counts as a call site (the lambda runs within, or is handed out by, its creator)
    for f in prog.fns:
        for n in walk(f["body"]):
            if n.get("k") == "lambda" and n.get("fn") is not None:
                tgt = prog._by_id.get((f["unit"], n["fn"]))
                if tgt is not None and fkey(tgt) in fn_of:
                    callers.setdefault(fkey(tgt), []).append((fkey(f), n))
    final = []
    work = list(unmet.items())
    seen_prop = set()
    rounds = 0
    while work and rounds < 5000:
        rounds += 1
        k, reqs = work.pop()
        f = fn_of[k]
        cs = callers.get(k, [])
        if not cs:
            # nobody in the analysed program calls it: a public member is API any thread may call
            if f.get("access") == "public" and f.get("cls") in shared:
                for r in reqs:
                    final.append((f, r))
            continue
        for (ck, node) in cs:
            cf = all_fn.get(ck)
            if cf is None:
                continue
            if cf["kind"] in ("ctor", "dtor") and cf.get("cls") in shared:
                continue
            if ck not in fn_of:
                # called from outside the shared classes: no engine mutex can be held there (they are private)
                for (fieldq, mq, kind, site, where, chain, mode) in reqs:
                    final.append((cf, (fieldq, mq, kind, site, where, chain + [strip_targs(cf["q"])], None)))
                continue
            cli = info.get(ck, (None, None))[1]
            if cli is None:
                cli = LockInfo(prog, cf)
                info[ck] = (cf, cli)
            held = cli.held_at(node)
            left = []
            for (fieldq, mq, kind, site, where, chain, mode) in reqs:
                m = held.get(mq)
                if m is not None and (kind == "read" or m == "unique"):
                    continue
                key = (ck, fieldq, kind, where)
                if key in seen_prop:
                    continue
                seen_prop.add(key)
                left.append((fieldq, mq, kind, site, where, chain + [strip_targs(cf["q"])], m))
            if left:
                work.append((ck, left))
    # one obligation per (entry function, field, kind)
    viol = {}
    for f, (fieldq, mq, kind, site, where, chain, mode) in final:
        inst = "%s: %s of %s without %s%s" % (strip_targs(chain[-1]), kind, fieldq.split("::")[-1], mq.split("::")[-1], " (unique)" if kind == "write" else "")
        viol.setdefault(inst, (where, chain, mode, f))
    # obligations: every function with guarded accesses
    nacc = 0
    for k, (f, li) in sorted(info.items(), key=lambda kv: kv[1][0]["q"]):
        pass
    for inst, (where, chain, mode, f) in sorted(viol.items()):
        r2.ob(inst, False, where, f["q"],
              "guarded field accessed with %s; reached through %s" % ("only the shared lock held" if mode else "no lock held", " <- ".join(chain)))
    bad_fns = {strip_targs(chain[0]) for _, (_, _, _, _, _, chain, _) in final}
    for (fq, fld, kind, how), where in sorted(all_sites.items()):
        if fq in bad_fns and how == "relies on callers":
            continue
        r2.ob("%s: %s of %s %s" % (fq, kind, fld, how if how != "relies on callers" else "- every caller holds the mutex"), True, where, fq, "")
    r2.note("%d access sites, %d with requirements propagated to callers" % (direct_sites, sum(len(v) for v in unmet.values())))
    if direct_sites < 60:
        raise AnalysisBroken("C13 R13.2: only %d guarded-field access sites found (expected > 60)" % direct_sites)

    # ------------------------------------------------------------------ R13.6 published overload lists are immutable
    r6 = chk.rule("R13.6", "an overload list reachable through the shared_ptr stored in the function table is never modified in place (readers iterate it after releasing the lock)",
                  "threads calling a function while another thread adds an overload of the same name see a consistent list; saved states are not changed by later registrations")
    nreach = 0
    for f in cand:
        pr = PathResolver(prog, f)
        flow = None
        for n in walk(f["body"]):
            if n.get("k") not in ("member", "call", "ref"):
                continue
            if n.get("k") == "ref" and n.get("rk") not in ("local", "binding"):
                continue
            p = pr.path(n)
            if not published_list(p):
                continue
            if flow is None:
                flow = FnFlow(f)
            par = flow.parent(n)
            if par is not None and par.get("k") == "member" and strip_casts(par.get("base")) is n:
                continue
            if par is not None and par.get("k") == "call" and par.get("obj") is n and published_list(pr.path(par)):
                continue
            nreach += 1
            kind = classify_use(prog, f, flow, n)
            # begin()/end() handed to a mutating algorithm
            if kind == "read" and par is not None and par.get("k") == "call" and par.get("name") in ("begin", "end"):
                gp = flow.parent(par)
                while gp is not None and gp.get("k") in ("cast", "construct"):
                    gp = flow.parent(gp)
                if gp is not None and gp.get("k") == "call" and gp.get("name") in ("sort", "stable_sort", "reverse", "rotate", "remove_if", "unique", "swap_ranges", "fill", "shuffle"):
                    kind = "write"
            if kind == "write":
                r6.ob("%s modifies a published overload list in place" % strip_targs(f["q"]), False, "%s:%d" % (f["file"], n["l"]), f["q"],
                      "the vector reached through the function table's shared_ptr is changed (%s) while readers that copied the shared_ptr under the lock iterate it without the lock; "
                      "saved State snapshots share it too" % expr_str(prog, f, par if par is not None else n)[:60])
    r6.ob("all %d accesses to published overload lists are reads; add_function copies, edits the copy and publishes a new list" % nreach, True, "", "", "")
    if nreach < 2:
        raise AnalysisBroken("C13 R13.6: only %d accesses to published overload lists found" % nreach)

    # ------------------------------------------------------------------ R13.7 check-then-act inside one critical section
    r7 = chk.rule("R13.7", "a decision taken from a guarded table and the update that depends on it lie in one critical section, or the update cannot overwrite (insert / emplace) or re-tests the table under its own lock",
                  "concurrent registrations are all retained: no registration is lost between a lookup and the write that follows it")
    nsec = 0
    for f in cand:
        li = info.get(fkey(f), (None, None))[1] or LockInfo(prog, f)
        if len(li.locks) < 2:
            continue
        pr = PathResolver(prog, f)
        flow = li.flow

        def section_of(n, mq):
            """the lock object (vid) on mutex mq whose scope covers n (nearest declaration before n in an enclosing block)"""
            chain = [n] + list(flow.ancestors(n))
            for i, a in enumerate(chain[1:], 1):
                child = chain[i - 1]
                if a.get("k") != "block":
                    continue
                sibs = a.get("s", [])
                idx = next((j for j, s_ in enumerate(sibs) if s_ is child), None)
                if idx is None:
                    continue
                for s_ in reversed(sibs[:idx]):
                    if s_.get("k") == "decl":
                        for v in s_["vars"]:
                            if v["vid"] in li.locks and li.locks[v["vid"]][1] == mq and li._state_before(v["vid"], s_, n):
                                return v["vid"]
            return None
        per_field = {}
        for n in walk(f["body"]):
            if n.get("k") not in ("member", "ref"):
                continue
            if n.get("k") == "ref" and n.get("rk") not in ("local", "binding", "field"):
                continue
            p_ = pr.path(n)
            g = guard_of(p_)
            if g is None:
                continue
            par = flow.parent(n)
            if par is not None and par.get("k") == "member" and strip_casts(par.get("base")) is n:
                continue
            fq, mq = g
            sec = section_of(n, mq)
            if sec is None:
                continue
            kind = classify_use(prog, f, flow, n)
            op = par.get("name") if par is not None and par.get("k") == "call" else (par.get("k") if par is not None else "")
            per_field.setdefault(fq, []).append((n["l"], sec, kind, op, n))
        for fq, accs in per_field.items():
            secs = sorted({a[1] for a in accs}, key=lambda v: li.locks[v][3]["l"])
            if len(secs) < 2:
                continue
            nsec += 1
            for bi, B in enumerate(secs[1:], 1):
                earlier_reads = [a for a in accs if a[1] in secs[:bi] and a[2] == "read"]
                if not earlier_reads:
                    continue
                for (l, sec, kind, op, n) in accs:
                    if sec != B or kind != "write":
                        continue
                    if op in ("insert", "emplace", "try_emplace", "emplace_hint"):
                        continue            # does not overwrite an entry another thread put there in between
                    retest = [a for a in accs if a[1] == B and a[2] == "read" and a[0] <= l and a[3] in ("find", "count", "contains", "at", "end", "lower_bound")]
                    r7.ob("%s: update of %s after a lookup made in an earlier critical section" % (strip_targs(f["q"]), fq.split("::")[-1]), bool(retest),
                          "%s:%d" % (f["file"], l), f["q"],
                          "the table is consulted under one lock (line %d), the lock is released, and the entry is then written with %s under another lock without testing again: "
                          "a registration made by another thread in between is overwritten / lost" % (earlier_reads[0][0], op or "an assignment"))
    r7.ob("functions that touch one guarded table in two critical sections: %d examined" % nsec, True, "", "", "")

    # ------------------------------------------------------------------ R13.8 process-wide Boxed_Value objects
    r8 = chk.rule("R13.8", "no Boxed_Value with static storage duration is handed to evaluation: such an object is shared by all threads (and engines) without any lock, and its attribute map is writable through a const handle",
                  "concurrent evaluation is free of data races")
    from . import c14
    nbv = 0
    seen8 = set()
    for key, st in sorted(prog.statics.items(), key=lambda kv: (kv[1]["file"], kv[1]["line"])):
        if not st["file"].startswith("include/") or not c14.is_boxed_value_singleton(st):
            continue
        ident = strip_targs(st["q"])
        if ident in seen8:
            continue
        seen8.add(ident)
        nbv += 1
        r8.ob("static %s is not shared mutable state" % ident, False, "%s:%d" % (st["file"], st["line"]), st.get("infn", ""),
              "%s is returned (as a handle to the same Data record) to every thread; get_var_attr / copy_var_attrs / clone_var_attrs create and replace "
              "the record's attribute map without synchronisation: two threads evaluating `true.get_var_attr(\"k\")` race" % st["q"])
    r8.ob("Boxed_Value objects with static storage duration: %d" % nbv, True, "", "", "")

    # ------------------------------------------------------------------ R13.3 locks held across calls
    r3 = chk.rule("R13.3", "no non-recursive mutex is held across a call that can re-acquire it on the same object or reach user code",
                  "no self-deadlock; user callbacks never run under an engine lock they might need")
    acquires = {}
    for f in cand:
        li = info.get(fkey(f), (None, None))[1] or LockInfo(prog, f)
        acquires[fkey(f)] = {mq for (_, mq, _, _) in li.locks.values()}
    # transitive closure over this-calls
    changed = True
    while changed:
        changed = False
        for k in list(acquires):
            for callee, node, kind in cg.edges.get(k, []):
                if callee in acquires and kind in ("call", "virtual"):
                    new = acquires[callee] - acquires[k]
                    if new and is_this_call(node):
                        acquires[k] |= new
                        changed = True
    user = user_reaching(prog, cg)
    nheld = 0
    for f in cand:
        li = info.get(fkey(f), (None, None))[1]
        if li is None or not li.locks:
            continue
        own = {mq for (_, mq, _, _) in li.locks.values()}
        for callee, node, kind in cg.edges.get(fkey(f), []):
            held = li.held_at(node)
            held = {m: v for m, v in held.items() if "use_mutex" not in m}   # recursive mutex may be re-acquired
            if not held:
                continue
            nheld += 1
            if callee in acquires and is_this_call(node) and kind in ("call", "virtual"):
                again = set(held) & acquires[callee]
                if again:
                    cf = fn_of[callee]
                    r3.ob("%s holds %s and calls %s which locks it again" % (strip_targs(f["q"]), sorted(x.split("::")[-1] for x in again), cf["name"]), False,
                          "%s:%d" % (f["file"], node["l"]), f["q"], "std::shared_mutex is not recursive: self-deadlock")
            if callee is not None and callee in user:
                cf = prog._by_id.get(callee)
                r3.ob("%s holds %s across %s (can reach user code)" % (strip_targs(f["q"]), sorted(x.split("::")[-1] for x in held), cf["name"] if cf else "?"), False,
                      "%s:%d" % (f["file"], node["l"]), f["q"], "a script or C++ callback run under this lock may call back into the engine and block forever")
            if callee is None and kind == "indirect":
                r3.ob("%s holds %s across an indirect call" % (strip_targs(f["q"]), sorted(x.split("::")[-1] for x in held)), False,
                      "%s:%d" % (f["file"], node["l"]), f["q"], "callback invoked under an engine lock")
    r3.ob("%d calls made while a non-recursive engine mutex is held: none re-acquires it or reaches user code" % nheld, True, "", "", "")
    if nheld < 20:
        raise AnalysisBroken("C13 R13.3: only %d calls under a lock found" % nheld)

    # ------------------------------------------------------------------ R13.10 = C08 R8.7: the shared syntax tree holds no per-evaluation state
    from .c08 import compiled_closure_captures
    r10 = chk.rule("R13.10", "closures stored in compiled nodes of the (shared, lock-free) syntax tree capture only immutable plain values (C08 R8.7 re-decided)",
                   "each thread sees only its own local variables: two threads evaluating the same function do not share a loop counter or any other evaluation state through the tree")
    caps13 = compiled_closure_captures(prog)
    r10.anchor(len(caps13) >= 3, "captures of closures handed to make_compiled_node (found %d)" % len(caps13))
    for f, lam, name, t, ok in caps13:
        r10.ob("%s: compiled closure captures `%s` : %s" % (strip_targs(f["q"]).replace("chaiscript::optimizer::", ""), name, t[:50]), ok, "%s:%d" % (f["file"], lam["l"]), f["q"],
               "state captured into the tree is reachable from every thread that evaluates this node, without any lock")
    r10.require(3, "captures")

    # ------------------------------------------------------------------ R13.9 locks are taken unconditionally
    r9 = chk.rule("R13.9", "every lock object on an engine mutex is constructed in the blocking form `lock(mutex)`: no try_to_lock / defer_lock / adopt_lock construction, no try_lock()",
                  "every thread sees each registration once it has returned: a reader that could not get the lock has nothing but stale per-thread data to fall back on (and R13.2's 'lock held in this scope' reasoning presupposes the blocking form)")
    nlocks = 0
    seen9 = set()
    for f in prog.fns:
        if f["tk"] == "pattern" or not f["file"].startswith("include/"):
            continue
        for n in walk(f["body"]):
            if n.get("k") == "decl":
                for v in n["vars"]:
                    t = prog.T(f, v["t"])
                    if not t.startswith(LOCK_TYPES) or v.get("init") is None:
                        continue
                    init = strip_casts(v["init"])
                    args = [a for a in (init.get("args") or []) if a.get("k") != "defarg"] if init.get("k") == "construct" else None
                    ident = "%s: %s %s" % (strip_targs(f["q"]), t.split("<")[0], v["name"])
                    if ident in seen9:
                        continue
                    seen9.add(ident)
                    nlocks += 1
                    if args is None or len(args) != 1:
                        r9.ob(ident + " is acquired unconditionally", False, "%s:%d" % (f["file"], n["l"]), f["q"],
                              "constructed as `%s`: the lock may not be held afterwards, and the path on which it was not obtained cannot read the shared state" % expr_str(prog, f, v["init"])[:90])
            elif n.get("k") == "call" and n.get("name") in ("try_lock", "try_lock_shared", "try_lock_for", "try_lock_until", "owns_lock"):
                r9.ob("%s: %s()" % (strip_targs(f["q"]), n["name"]), False, "%s:%d" % (f["file"], n["l"]), f["q"], "conditional acquisition of a lock")
    r9.ob("all %d lock objects in the library are constructed as `lock(mutex)`" % nlocks, True, "", "", "")
    r9.anchor(nlocks >= 25, "lock objects in the library (found %d)" % nlocks)
    r9.require(1, "obligation")

    # ------------------------------------------------------------------ R13.5 parser re-entrancy and immutability after construction
    r5 = chk.rule("R13.5", "state shared without a lock is never written after construction: the parser's parse() entry builds a fresh local parser; m_use_paths / m_module_paths / m_parser are not written outside constructors",
                  "threads parsing at the same time through the engine's single parser object do not share parser state")
    parses = [f for f in prog.fns if f["name"] == "parse" and strip_targs(f.get("cls") or "") == "chaiscript::parser::ChaiScript_Parser" and f["tk"] == "inst"]
    r5.anchor(parses, "ChaiScript_Parser::parse")
    for f in parses[:1]:
        chk.touched([f])
        flow = FnFlow(f)
        writes = []
        for n in walk(f["body"]):
            if n.get("k") == "member" and (n.get("base") is None or strip_casts(n.get("base")).get("k") == "this"):
                par = flow.parent(n)
                kind = classify_use(prog, f, flow, n)
                if kind == "write":
                    writes.append(n["name"])
            if n.get("k") == "call" and n.get("fn") is not None and (n.get("obj") is None or strip_casts(n["obj"]).get("k") == "this"):
                d = prog.decl(f, n["fn"])
                if d is not None and d.get("cls") == f.get("cls") and not d.get("const") and not d.get("static") and d["kind"] == "method":
                    writes.append(d["name"] + "()")
        r5.ob("ChaiScript_Parser::parse does not modify *this (parses with a local parser object)", not writes, f.where, f["q"],
              "parse() touches shared parser state: %s" % writes)
        local = [v for n in walk(f["body"]) if n.get("k") == "decl" for v in n["vars"] if "ChaiScript_Parser<" in prog.T(f, v["t"])]
        r5.ob("ChaiScript_Parser::parse constructs a local parser", len(local) == 1, f.where, f["q"], "no local parser object")
    for fieldq, why in OTHER.items():
        if why != "immutable after construction":
            continue
        cls = fieldq.rsplit("::", 1)[0]
        bad = []
        for f in cand:
            if f.get("cls") != cls or f["kind"] in ("ctor", "dtor"):
                continue
            flow = None
            for n in walk(f["body"]):
                if n.get("k") == "member" and n.get("q") == fieldq:
                    if flow is None:
                        flow = FnFlow(f)
                    if classify_use(prog, f, flow, n) == "write":
                        # calling a method through m_parser (unique_ptr::operator->) is a read of the pointer
                        par = flow.parent(n)
                        if par is not None and par.get("k") == "call" and par.get("name") in ("operator->", "operator*", "get"):
                            continue
                        bad.append("%s:%d" % (f["file"], n["l"]))
        r5.ob("%s is not written after construction" % fieldq, not bad, bad[0] if bad else "", cls, "written at %s" % bad)
    r5.require(5, "obligations")


def published_list(path):
    """path goes through State::m_functions, then into an element's `second` shared_ptr, then dereferences it"""
    if not path:
        return False
    seen_tab = seen_second = False
    for s_ in path:
        if s_[0] == "field" and s_[1].endswith("::State::m_functions"):
            seen_tab = True
        elif seen_tab and s_[0] == "field" and s_[2] == "second":
            seen_second = True
        elif seen_second and s_[0] == "deref":
            return True
    return False


def is_this_call(node):
    o = node.get("obj")
    if o is None:
        return True
    o = strip_casts(o)
    return o.get("k") == "this"


def is_entry(prog, f, shared):
    """public member of a shared class (callable from any thread without holding anything)"""
    return f.get("cls") in shared and f.get("access") == "public" and f["kind"] in ("method", "conv")


def user_reaching(prog, cg, skip_edge=None):
    """keys of functions from which a script function / registered C++ callback can be invoked.
    skip_edge(caller_fn, node, callee_key) -> True to ignore a call edge (client-supplied path knowledge)."""
    roots = set()
    for f in prog.fns:
        if f["name"] in ("do_call", "eval_internal") or (f["name"] == "operator()" and strip_targs(f.get("cls") or "") == "chaiscript::dispatch::Proxy_Function_Base"):
            roots.add(fkey(f))
    # functions that invoke a std::function / function pointer (user supplied callbacks, e.g. conversions)
    for k, edges in cg.edges.items():
        kf = prog._by_id.get(k)
        if kf is None or kf["tk"] == "pattern":
            continue          # dependent calls in uninstantiated templates are not real call sites
        if any(kind == "indirect" for _, _, kind in edges):
            roots.add(k)
    # reverse reachability
    rev = {}
    for k, edges in cg.edges.items():
        kf = prog._by_id.get(k)
        for callee, node, kind in edges:
            if callee is not None:
                if skip_edge is not None and kf is not None and skip_edge(kf, node, callee):
                    continue
                rev.setdefault(callee, set()).add(k)
    seen = set()
    stack = list(roots)
    while stack:
        k = stack.pop()
        if k in seen:
            continue
        seen.add(k)
        stack.extend(rev.get(k, ()))
    return seen
