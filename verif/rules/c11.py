"""C11  Objects live exactly as long as something refers to them.

Decided: the ownership discipline the property rests on.
  R11.1  no non-owning Boxed_Value of a referent that provably dies with the enclosing evaluation step
         (automatic local, by-value parameter, catch parameter, element of a container kept alive only by a local handle);
  R11.2  every `new` is the direct initialiser of a smart pointer, there is no `delete`;
  R11.3  objects produced by type conversions are kept (saved) in both conversion directions, and every entry from C++
         that dispatches with a freshly built conversion state keeps the saves enabled for the duration of the call;
  R11.4  every call node saves its evaluated arguments before dispatch;
  R11.5  Object_Data::get: the owning forms store a shared_ptr and are not marked as references, the non-owning forms
         are marked as references, and the cached raw pointer is taken from the object the box stores.
Not decided: destruction counts and times on generated programs (needs an instrumented run); references that C++
functions registered by the host return into objects the host owns.
"""
import re

from ..ir import walk, children, strip_targs, AnalysisBroken
from ..flow import FnFlow, strip_casts, expr_str, atomic_facts
from . import _nonowning as no

SCOPED = ("automatic", "catch", "handle-owned", "loop-element:handle-owned", "loop-element:automatic")


def run(chk):
    prog = chk.program()
    chk.explanation = ("Referent classification of every non-owning Boxed_Value construction in the library (std::ref/std::cref and "
                       "address-of forms, all instantiations), ownership rules over new/delete, sibling agreement of the two conversion "
                       "directions, a must-precede rule for argument saving in call nodes, a guard rule for C++ entry points into "
                       "dispatch, and a table check of the Object_Data::get overloads.")
    chk.assume("script code may retain any Boxed_Value it is handed (reference assignment, capture, container insertion, globals)")
    chk.assume("references returned by host-registered C++ functions refer to host-owned objects (Handle_Return<T&> is non-owning by design)")

    fns = [f for f in prog.fns if f["file"].startswith("include/") and f["tk"] != "pattern"]

    # ------------------------------------------------------------------ R11.1
    r1 = chk.rule("R11.1", "no non-owning Boxed_Value refers to an object that dies with the evaluation step that created the box",
                  "no script variable, capture or container element outlives the C++ object it refers to")
    seen = {}
    for f, n, ref, how in no.sites(prog, fns):
        c, d = no.classify_site(prog, f, ref)
        ident = "%s: %s(%s)" % (strip_targs(f["q"]), how, expr_str(prog, f, ref)[:40])
        prev = seen.get(ident)
        if prev is not None and (prev in SCOPED or c not in SCOPED):
            continue
        seen[ident] = c
        if prev is None or c in SCOPED:
            r1.ob(ident, c not in SCOPED, "%s:%d" % (f["file"], n["l"]), f["q"],
                  "non-owning reference to %s [%s]: the box can be kept by the script (reference assignment, capture, rethrow) after that object is gone" % (d, c))
    classes = {}
    for c in seen.values():
        classes[c] = classes.get(c, 0) + 1
    r1.note("referent classes of the %d construction sites: %s" % (len(seen), ", ".join("%s %d" % kv for kv in sorted(classes.items()))))
    r1.require(8, "non-owning construction sites")

    # ------------------------------------------------------------------ R11.2
    r2 = chk.rule("R11.2", "every new-expression directly initialises a smart pointer; no delete-expression exists",
                  "every object created on behalf of a script is destroyed exactly once, by its owner")
    nnew = 0
    seen2 = set()
    for f in prog.fns:
        if not f["file"].startswith("include/"):
            continue
        flow = None
        nodes = [(n, None) for n in walk(f["body"]) if n.get("k") in ("new", "delete")]
        for i in f.get("inits", []):
            nodes += [(n, i) for n in walk(i.get("init") or {}) if n.get("k") in ("new", "delete")]
        for n, ini in nodes:
            key = (f["file"], n["l"], n["k"])
            if key in seen2:
                continue
            seen2.add(key)
            ident = "%s: %s-expression" % (strip_targs(f["q"]), n["k"])
            if n["k"] == "delete":
                r2.ob(ident, False, "%s:%d" % (f["file"], n["l"]), f["q"], "manual delete: ownership is not expressed by a smart pointer")
                continue
            nnew += 1
            ok = False
            why = "result of new is not handed directly to a shared_ptr / unique_ptr"
            if ini is not None:
                rec = prog.records.get(f.get("cls") or "")
                fld = next((x for x in (rec or {}).get("fields", []) if x["name"] == ini.get("field")), None)
                ft = prog.T(rec["unit"], fld["t"]) if fld else ""
                ok = bool(re.match(r"^(const )?std::(unique_ptr|shared_ptr)<", ft))
                why = "member %s of type %s initialised from new" % (ini.get("field"), ft)
            else:
                flow = flow or FnFlow(f)
                p = flow.parent(n)
                while p is not None and p.get("k") == "cast":
                    p = flow.parent(p)
                if p is not None and p.get("k") == "construct":
                    t = prog.T(f, p.get("t"))
                    ok = bool(re.match(r"^(const )?std::(unique_ptr|shared_ptr)<", t))
            r2.ob(ident, ok, "%s:%d" % (f["file"], n["l"]), f["q"], why)
    r2.require(3, "new-expressions")

    # ------------------------------------------------------------------ R11.3
    r3 = chk.rule("R11.3", "objects produced by conversions are saved in both directions; C++ entry points that dispatch with a fresh conversion state enable the saves first",
                  "a converted temporary passed to a C++ function lives until that call has returned")
    convs = [f for f in prog.fns if strip_targs(f.get("cls") or "") == "chaiscript::Type_Conversions" and
             f["name"] in ("boxed_type_conversion", "boxed_type_down_conversion") and len(f["params"]) == 3 and f["tk"] != "pattern"]
    names = {f["name"] for f in convs}
    r3.anchor(names == {"boxed_type_conversion", "boxed_type_down_conversion"}, "both conversion directions of Type_Conversions (found %s)" % sorted(names))
    chk.touched(convs)
    for f in convs:
        flow = FnFlow(f)
        pushes = [n for n in walk(f["body"]) if n.get("k") == "call" and n.get("name") in ("push_back", "emplace_back") and n.get("obj") is not None and
                  "saves" in expr_str(prog, f, n["obj"])]
        rets = [n for n in walk(f["body"]) if n.get("k") == "return" and n.get("e") is not None]
        ok = False
        why = "the converted value is not pushed to the saves"
        helper_call = None
        if not pushes:
            # the push may live in a small helper `keep(t_saves, value)`: if (saves.enabled) saves.saves.push_back(value);
            for n in walk(f["body"]):
                if n.get("k") == "call" and n.get("fn") is not None and len(n.get("args") or []) == 2:
                    h = prog.fn_by_id(f, n["fn"])
                    if h is None or not h.get("body") or h is f:
                        continue
                    hp = [x for x in walk(h["body"]) if x.get("k") == "call" and x.get("name") in ("push_back", "emplace_back") and x.get("obj") is not None and
                          "saves" in expr_str(prog, h, x["obj"])]
                    if len(hp) == 1 and strip_casts(hp[0]["args"][0]).get("rk") == "param":
                        hflow = FnFlow(h)
                        if any("enabled" in expr_str(prog, h, c) and t for c, t in hflow.facts(hp[0])):
                            helper_call = (n, strip_casts(n["args"][strip_casts(hp[0]["args"][0]).get("idx")]))
        if helper_call is not None:
            pushes = [helper_call[0]]
        if len(pushes) == 1:
            pv = strip_casts(pushes[0]["args"][0]) if helper_call is None else helper_call[1]
            guarded = helper_call is not None or any("enabled" in expr_str(prog, f, c) and t for c, t in flow.facts(pushes[0]))
            same = [r for r in rets if strip_casts(r["e"]).get("vid") is not None and strip_casts(r["e"]).get("vid") == pv.get("vid")]
            conv_init = None
            for d in walk(f["body"]):
                if d.get("k") == "decl":
                    for v in d["vars"]:
                        if v.get("vid") == pv.get("vid"):
                            conv_init = v.get("init")
            from_conv = conv_init is not None and any(x.get("k") == "call" and x.get("name") in ("convert", "convert_down") for x in walk(conv_init))
            ok = guarded and bool(same) and from_conv
            why = "push guarded by enabled: %s; pushed value is the returned conversion result: %s / %s" % (guarded, bool(same), from_conv)
        r3.ob("Type_Conversions::%s saves the converted object while saves are enabled and returns that same object" % f["name"], ok, f.where, f["q"], why)
    # entry points: fresh Type_Conversions_State over the thread's saves, then dispatch
    DISPATCHES = {"dispatch", "call_function", "call_member", "operator()", "call"}
    nentry = 0
    seen3 = set()
    for f in fns:
        states = [(n, v) for n in walk(f["body"]) if n.get("k") == "decl" for v in n["vars"]
                  if strip_targs(prog.T(f, v["t"]).replace("const ", "")) == "chaiscript::Type_Conversions_State" and v.get("init") is not None and
                  any(x.get("k") == "call" and x.get("name") == "conversion_saves" for x in walk(v["init"]))]
        if not states:
            continue
        flow = FnFlow(f)
        for dn, sv in states:
            uses = []
            for n in walk(f["body"]):
                if n.get("k") == "call" and n.get("name") in DISPATCHES and any(strip_casts(a).get("vid") == sv["vid"] for a in n.get("args", []) if isinstance(strip_casts(a), dict)):
                    uses.append(n)
            if not uses:
                continue
            ident = "%s: dispatch with a freshly built conversion state" % strip_targs(f["q"])
            if ident in seen3:
                continue
            seen3.add(ident)
            nentry += 1
            script_builtin = f.get("kind") == "lambda" and "::build_eval_system::" in f["q"]
            guard = None
            for n in flow.dominating(uses[0]):
                if n.get("k") == "decl":
                    for v in n["vars"]:
                        t = strip_targs(prog.T(f, v["t"]))
                        if t.endswith("::Function_Push_Pop") or enables_saves(prog, f, v):
                            guard = v["name"]
            why = ("a call that starts outside any script evaluation runs with conversion saves disabled: the object produced by a user "
                   "type_conversion is destroyed before the target function uses its reference parameter")
            if script_builtin:
                r3.note("%s is a script built-in: it is only reached through a call node, whose Function_Push_Pop has enabled the saves" % strip_targs(f["q"]))
            r3.ob(ident + (" happens inside a call node's scope" if script_builtin else " enables the conversion saves first"),
                  script_builtin or guard is not None, "%s:%d" % (f["file"], uses[0]["l"]), f["q"], why)
    # references handed to the host through the API: a fresh conversion state, no saves, and a reference result
    nref = 0
    refbad = None
    for f in fns:
        if strip_targs(f["q"]) != "chaiscript::detail::Dispatch_Engine::boxed_cast" or f["tk"] != "inst":
            continue
        rt = prog.T(f, f.get("ret")) if f.get("ret") is not None else ""
        if not rt.rstrip().endswith("&"):
            continue
        nref += 1
        fresh = any(n.get("k") == "decl" and any(strip_targs(prog.T(f, v["t"]).replace("const ", "")) == "chaiscript::Type_Conversions_State" for v in n["vars"]) for n in walk(f["body"]))
        guarded = any(n.get("k") == "decl" and any(enables_saves(prog, f, v) for v in n["vars"]) for n in walk(f["body"]))
        if fresh and not guarded and refbad is None:
            refbad = f
    if nref:
        r3.ob("chaiscript::detail::Dispatch_Engine::boxed_cast/a reference result handed to the host is not a reference into an unsaved conversion temporary", refbad is None,
              refbad.where if refbad else "", refbad["q"] if refbad else "",
              "boxed_cast<T &> (and eval<T &>) builds a fresh conversion state with saves disabled and returns the reference that chaiscript::boxed_cast produced: when a "
              "type conversion was needed the converted object is destroyed before the caller can use the reference (%d reference-returning instantiations)" % nref)
    r3.require(3, "obligations")

    # ------------------------------------------------------------------ R11.4
    r4 = chk.rule("R11.4", "every call node that opens a function-call frame saves its evaluated arguments before it dispatches",
                  "arguments (and references returned into them) live until the outermost call has returned")
    n4 = 0
    seen4 = set()
    for f in fns:
        if not f["q"].startswith("chaiscript::eval::"):
            continue
        fpps = [v for n in walk(f["body"]) if n.get("k") == "decl" for v in n["vars"] if strip_targs(prog.T(f, v["t"])).endswith("::Function_Push_Pop")]
        if not fpps:
            continue
        ident = strip_targs(f["q"]) + ("<false>" if re.search(r"do_eval_internal<false>", f["q"]) else "")
        if ident in seen4:
            continue
        seen4.add(ident)
        n4 += 1
        saves = [n for n in walk(f["body"]) if n.get("k") == "call" and n.get("name") == "save_params" and n.get("obj") is not None and
                 strip_casts(n["obj"]).get("vid") in {v["vid"] for v in fpps}]
        disp = [n for n in walk(f["body"]) if n.get("k") == "call" and n.get("name") in ("call_function", "call_member", "dispatch") or
                (n.get("k") == "call" and n.get("op") == "()" and n.get("obj") is not None and "Proxy_Function" in prog.T(f, strip_casts(n["obj"]).get("t") if isinstance(strip_casts(n["obj"]).get("t"), int) else None or 0))]
        exempt = ident.endswith("<false>")
        if exempt:
            r4.note("%s: instantiation with Save_Params == false is used only by Unused_Return_Fun_Call, whose result is discarded" % ident)
        if ident.endswith("::Equation_AST_Node::eval_internal"):
            # the only argument that could be a temporary is the right operand; the left operand is rejected when it is a
            # temporary (is_return_value) and the result of an assignment refers to the left operand
            eflow = FnFlow(f)
            points = disp or [x for x in walk(f["body"]) if x.get("k") == "return" and x.get("e") is not None]
            lhs_tmp_rejected = bool(points) and all(any((not t) and strip_casts(a).get("k") == "call" and strip_casts(a).get("name") == "is_return_value"
                                                        for a, t in atomic_facts(eflow, d_)) for d_ in points)
            if lhs_tmp_rejected:
                exempt = True
                r4.note("%s: exempt - assignment rejects a temporary left operand and its result refers to the left operand" % ident)
        ok = exempt or (bool(saves) and all(min(s["l"] for s in saves) <= d["l"] for d in disp))
        r4.ob("%s saves its arguments before dispatch" % ident, ok, f.where, f["q"],
              "Function_Push_Pop frame without save_params before the dispatch call (saves at lines %s, dispatch at %s)" % ([s["l"] for s in saves], [d["l"] for d in disp]))
    # the exemption above rests on this: the non-saving node is created only where the call's value is discarded
    from .c02 import value_discarding_sites
    vs = value_discarding_sites(prog)
    r4.anchor(len(vs) >= 1, "creation sites of Unused_Return_Fun_Call_AST_Node (found %d)" % len(vs))
    for i, (f, n, v, d) in enumerate(sorted(vs, key=lambda t: t[1]["l"])):
        r4.ob("%s: the non-saving call node (site %d) replaces only calls whose value is discarded" % (strip_targs(f["q"]).replace("chaiscript::optimizer::", ""), i + 1), v == "ok",
              "%s:%d" % (f["file"], n["l"]), f["q"],
              "replaces %s: that call's result is still used by the caller while its argument temporaries are no longer kept alive" % d)
    r4.require(6, "call nodes")

    # ------------------------------------------------------------------ R11.6
    scope_release(chk, prog)

    # ------------------------------------------------------------------ R11.9
    r9 = chk.rule("R11.9", "the is-a-temporary mark, which lets a declaration adopt a box without copying, is put only on boxes that own their object (raw pointer results excepted: C++ pointer semantics)",
                  "`var x = f()` never leaves x referring to an object somebody else owns: x does not dangle when that owner goes away")
    marked = {}
    for f in prog.fns:
        if not f["file"].startswith("include/"):
            continue
        for n in walk(f["body"]):
            if n.get("k") != "construct" or strip_targs(prog.T(f, n.get("t"))) != "chaiscript::Boxed_Value":
                continue
            args = [a for a in n.get("args", []) if a.get("k") != "defarg"]
            if len(args) != 2:
                continue
            flag = strip_casts(args[1])
            if not (flag.get("k") == "lit" and flag.get("v") is True):
                continue
            a0 = strip_casts(args[0])
            t0 = prog.T(f, a0.get("t")) if isinstance(a0.get("t"), int) else ""
            if (a0.get("k") == "call" and a0.get("name") in ("ref", "cref")) or "reference_wrapper<" in t0:
                form = "reference"
            elif t0.rstrip().endswith("*") or (a0.get("k") == "unop" and a0.get("op") == "&"):
                form = "pointer"
            else:
                form = "owning"
            ident = "%s: Boxed_Value(%s, true)" % (strip_targs(f["q"]), expr_str(prog, f, args[0])[:40])
            if ident in marked and (marked[ident][0] == "reference" or form != "reference"):
                continue
            marked[ident] = (form, f, n)
    chk.touched([v[1] for v in marked.values()])
    for ident, (form, f, n) in sorted(marked.items()):
        if form == "pointer":
            r9.note("%s: raw pointer result, marked as temporary (pointer semantics: the script holds the pointer, the host owns the pointee)" % ident)
            continue
        r9.ob(ident, form == "owning", "%s:%d" % (f["file"], n["l"]), f["q"],
              "a non-owning reference box carries the is-a-temporary mark: `var x = <this result>` adopts the reference instead of copying the object, and x dangles "
              "when the object's owner is destroyed (a `T &` result, which is not marked, is copied by the same declaration)")
    r9.require(5, "marked constructions")

    # ------------------------------------------------------------------ R11.10
    r10 = chk.rule("R11.10", "pending conversion temporaries are dropped only by take_saves (whose result goes onto a saved-argument list) or by the guard object that enabled the saves itself",
                   "a converted temporary bound to a parameter of a running C++ function is not destroyed by a nested callback wrapper returning")
    SAVES_Q = "chaiscript::Type_Conversions::Conversion_Saves::saves"
    SHRINK = {"clear", "erase", "pop_back", "resize", "assign", "swap", "shrink_to_fit", "operator="}
    nsites = 0
    seen10 = set()
    for f in prog.fns:
        if f["tk"] == "pattern" or not f["file"].startswith("include/"):
            continue
        flow = None
        for n in walk(f["body"]):
            tgt = None
            if n.get("k") == "call" and n.get("name") in SHRINK and n.get("obj") is not None and strip_casts(n["obj"]).get("q") == SAVES_Q:
                tgt = n
            elif n.get("k") == "call" and n.get("name") == "swap" and any(strip_casts(a).get("q") == SAVES_Q for a in n.get("args") or []):
                tgt = n
            elif n.get("k") == "assign" and strip_casts(n["lhs"]).get("q") == SAVES_Q:
                tgt = n
            if tgt is None:
                continue
            ident = "%s: %s" % (strip_targs(f["q"]), expr_str(prog, f, tgt)[:50])
            if ident in seen10:
                continue
            seen10.add(ident)
            nsites += 1
            chk.touched([f])
            flow = flow or FnFlow(f)
            ok, why = False, "pending temporaries are dropped here although the call they were converted for may still be running"
            if f["name"] == "take_saves":
                rets = [r for r in walk(f["body"]) if r.get("k") == "return" and r.get("e") is not None]
                swapped = [strip_casts(a) for a in tgt.get("args") or [] if strip_casts(a).get("q") != SAVES_Q]
                ok = tgt.get("name") == "swap" and len(swapped) == 1 and swapped[0].get("rk") == "local" and all(any(x.get("vid") == swapped[0].get("vid") for x in walk(r["e"])) for r in rets) and bool(rets)
                why = "take_saves must hand the temporaries to its caller (swap into the returned vector)"
            elif f["kind"] == "dtor":
                cls = f.get("cls")
                ctors = [c for c in prog.fns if c.get("cls") == cls and c["kind"] == "ctor" and not c.get("implicit") and c["unit"] == f["unit"]]
                flagf = None
                for c in ctors:
                    for i in c.get("inits", []):
                        if any(x.get("k") == "member" and x.get("name") == "enabled" for x in walk(i.get("init") or {})):
                            flagf = i.get("name") or i.get("field")
                facts = [(expr_str(prog, f, cnd), t) for cnd, t in atomic_facts(flow, tgt)]
                ok = flagf is not None and any(flagf in cnd and not t for cnd, t in facts)
                why = "the guard clears the pending temporaries without having established that it enabled the saves itself (`!%s`): nested inside a running C++ call it destroys that call's converted arguments (facts: %s)" % (flagf, facts)
            r10.ob(ident, ok, "%s:%d" % (f["file"], tgt["l"]), f["q"], why)
    takes = [(f, n) for f in prog.fns if f["tk"] != "pattern" and f["file"].startswith("include/") for n in walk(f["body"]) if n.get("k") == "call" and n.get("name") == "take_saves"]
    stored = 0
    for f, n in takes:
        par = FnFlow(f).parent(n)
        hops = 0
        while par is not None and par.get("k") not in ("call",) and hops < 6:
            par = FnFlow(f).parent(par)
            hops += 1
        if par is not None and par.get("name") == "save_function_params":
            stored += 1
    r10.ob("every take_saves() result is put on a saved-argument list (%d call sites)" % len(takes), bool(takes) and stored == len({(f["q"], n["l"]) for f, n in takes}) or stored == len(takes), "", "", "take_saves result dropped at some call site")
    r10.anchor(nsites >= 1, "sites that shrink Conversion_Saves::saves (found %d)" % nsites)
    r10.require(2, "obligations")

    # ------------------------------------------------------------------ R11.11 = C14 R14.1: nothing an engine creates is owned by storage that outlives the engine
    if not getattr(chk, "nested", False):
        from .. import core
        from . import c14
        r11 = chk.rule("R11.11", "no object with static or thread storage duration can own objects created on behalf of a script (C14 R14.1's inventory re-decided)",
                       "every object created on behalf of a script is destroyed at the latest when the engine is destroyed")
        sub = core.Check("C14", tier=chk.tier)
        sub.prog = prog
        sub.nested = True
        c14.run(sub)
        sr = [r for r in sub.rules if r.rid == "R14.1"]
        r11.anchor(bool(sr), "C14 R14.1")
        for v in [v for v in sub.violations if v["rule"] == "R14.1"]:
            r11.ob("R14.1: %s" % v["instance"], False, v["where"], v["function"],
                   v["detail"] + " - whatever it holds (conversion temporaries, cached values) is released when the thread or the process ends, not when the engine does")
        r11.ob("C14 R14.1 decided (%d obligations)" % sr[0].obligations, True, "", "", "")
        r11.require(1, "rule")

    # ------------------------------------------------------------------ R11.8
    r8 = chk.rule("R11.8", "the evaluator's scope guard pushes a new saved-argument list only after the pending conversion temporaries were attached to the current one",
                  "a converted temporary bound to a parameter of a C++ function lives for the whole call, also when that function runs a script callback which opens a scope and makes a call")
    guards = [f for f in fns if strip_targs(f.get("cls") or "").endswith("::Scope_Push_Pop") and f["kind"] == "ctor" and not f.get("implicit") and
              len(f["params"]) == 1 and "Dispatch_State" in prog.T(f, f["params"][0]["t"])]
    r8.anchor(bool(guards), "Scope_Push_Pop(const Dispatch_State &)")
    chk.touched(guards)
    for f in guards[:1]:
        evs = push_events(prog, f)
        pushes = [i for i, e in enumerate(evs) if e[0] == "push"]
        r8.anchor(bool(pushes), "the scope guard's constructor reaches Stack_Holder::push_call_params")
        first = pushes[0]
        ok = any(e[0] == "flush" and not e[1] for e in evs[:first]) and len(pushes) == 1
        r8.ob("Scope_Push_Pop/pending conversion saves are attached to the current list before a new list is pushed", ok, f.where, f["q"],
              "events on the way into a new scope: %s - the pending saves are taken by the first call made inside the new scope, put on its (shorter lived) list and "
              "destroyed when that scope ends, while the C++ call they were converted for is still running" % ([("%s%s" % (e[0], "?" if e[1] else "")) for e in evs] or "none"))

    # ------------------------------------------------------------------ R11.7
    r7 = chk.rule("R11.7", "saved call arguments are released (call depth back to 0) only when no statement that may still hold a reference into them is running: top-level statements are evaluated inside a call frame",
                  "a pending result never refers to a destroyed argument temporary: `var c = (a + b)[5]` at top level")
    # who releases: pop_function_call clears the saved parameters when the depth returns to 0 (R9.5 decides that); here: is depth >= 1 while a
    # top-level statement runs?  Either the entry point or the file node must hold a Function_Push_Pop around the evaluation of statements.
    holders = []
    entries = [f for f in fns if (f.get("cls") or "") == "chaiscript::ChaiScript_Basic" and f["name"] == "do_eval"]
    entries += [f for f in fns if strip_targs(f.get("cls") or "") == "chaiscript::eval::File_AST_Node" and f["name"] == "eval_internal"]
    r7.anchor(len(entries) >= 2, "ChaiScript_Basic::do_eval and File_AST_Node::eval_internal")
    chk.touched(entries)
    for f in entries:
        flow = FnFlow(f)
        evs = [n for n in walk(f["body"]) if n.get("k") == "call" and n.get("name") == "eval" and n.get("obj") is not None]
        for n in evs:
            for d in flow.dominating(n):
                if d.get("k") == "decl" and any(strip_targs(prog.T(f, v["t"])).endswith("::Function_Push_Pop") for v in d["vars"]):
                    holders.append(f)
    r7.ob("chaiscript::ChaiScript_Basic::do_eval/top-level statements are evaluated inside a call frame (call depth >= 1)", bool(holders),
          entries[0].where, entries[0]["q"],
          "neither do_eval nor File_AST_Node::eval_internal opens a Function_Push_Pop: every call node of a top-level statement is an outermost call, so its saved "
          "argument temporaries are destroyed when it returns - before the statement that consumes a reference result (a declaration, an operator, a container "
          "literal) has used it")

    # ------------------------------------------------------------------ R11.5
    r5 = chk.rule("R11.5", "Object_Data::get: owning forms store a shared_ptr and are not references; non-owning forms are marked as references; the cached pointer comes from the stored object",
                  "shared ownership for values and shared_ptr, none for pointers and references - exactly as the API promises")
    gets = [f for f in prog.fns if strip_targs(f["q"]) == "chaiscript::Boxed_Value::Object_Data::get" and len(f["params"]) == 2 and f["tk"] == "inst"]
    r5.anchor(len(gets) >= 20, "instantiations of Object_Data::get (found %d)" % len(gets))
    chk.touched(gets)
    seen5 = {}
    for f in gets:
        pt = prog.T(f, f["params"][0]["t"])
        form = param_form(pt)
        ms = [n for n in walk(f["body"]) if n.get("k") == "call" and n.get("name") == "make_shared" and "Boxed_Value::Data" in prog.T(f, n.get("t"))]
        deleg = [n for n in walk(f["body"]) if n.get("k") == "call" and n.get("name") == "get" and n.get("fn") is not None and
                 (prog.fn_by_id(f, n["fn"]) or {}).get("q", "").startswith("chaiscript::Boxed_Value::Object_Data::get")]
        ok, why = False, ""
        if form in ("T*", "shared_ptr*") and deleg and not ms:
            a = strip_casts(deleg[0]["args"][0])
            if form == "T*":
                ok = a.get("k") == "call" and a.get("name") in ("ref", "cref")
                why = "pointer form must delegate to the reference_wrapper form via std::ref(*t)"
            else:
                ok = True
        elif len(ms) == 1 and len(ms[0].get("args", [])) >= 4:
            args = ms[0]["args"]
            isref = strip_casts(args[2])
            anyarg = args[1]
            want_ref = form in ("reference_wrapper", "unique_ptr")
            holds_shared = any("std::shared_ptr<" in prog.T(f, x.get("t")) for x in walk(anyarg) if isinstance(x.get("t"), int))
            holds_wrapper = any("reference_wrapper<" in prog.T(f, x.get("t")) for x in walk(anyarg) if isinstance(x.get("t"), int))
            okref = isref.get("k") == "lit" and bool(isref.get("v")) == want_ref
            okown = holds_wrapper if form == "reference_wrapper" else holds_shared
            # cached pointer: from param / local shared pointer's get(), never from something else
            ptr = strip_casts(args[3])
            okptr = True
            if form == "value":
                # must come from the freshly made shared_ptr, not from the by-value parameter
                okptr = not any(x.get("k") == "ref" and x.get("rk") == "param" and x.get("idx") == 0 for x in walk(resolve(f, ptr)))
            ok = okref and okown and okptr
            why = "is_ref literal %s (expected %s); Any holds %s; cached pointer from the stored object: %s" % (
                isref.get("v"), want_ref, "reference_wrapper" if holds_wrapper else ("shared_ptr" if holds_shared else "neither"), okptr)
        else:
            why = "unrecognised body shape"
        key = form
        if key in seen5 and (not seen5[key] or ok):
            continue
        seen5[key] = ok
        r5.ob("Object_Data::get(%s)" % form, ok, f.where, f["q"], why)
    r5.require(5, "overload forms")


def push_events(prog, f, depth=0, cond=False):
    """source-order list of ('flush'|'push'|'other-push', conditional?, node) events of f with callees inlined (3 levels):
    flush = save_function_params(.. take_saves(..) ..), guarded at most by `!<saves>.empty()`; push = push_call_params()"""
    out = []

    def visit(n, cond):
        if isinstance(n, list):
            for x in n:
                visit(x, cond)
            return
        if not isinstance(n, dict):
            return
        k = n.get("k")
        if k == "if":
            visit(n.get("cond"), cond)
            c = strip_casts(n.get("cond") or {})
            harmless = False
            if c.get("k") == "unop" and c.get("op") == "!":
                inner = strip_casts(c.get("e") or c.get("sub") or {})
                harmless = inner.get("k") == "call" and inner.get("name") == "empty" and "saves" in expr_str(prog, f, inner)
            visit(n.get("then"), cond or not harmless)
            visit(n.get("else"), True)
            return
        if k in ("while", "for", "do", "switch", "try", "lambda", "condop"):
            for ch in children(n):
                visit(ch, True)
            return
        if k == "call":
            for a in n.get("args") or []:
                visit(a, cond)
            if n.get("obj") is not None:
                visit(n["obj"], cond)
            if n.get("name") == "save_function_params" and any(x.get("k") == "call" and x.get("name") == "take_saves" for a in n.get("args") or [] for x in walk(a)):
                out.append(("flush", cond, n))
                return
            if n.get("name") == "push_call_params":
                out.append(("push", cond, n))
                return
            g = prog.fn_by_id(f, n["fn"]) if n.get("fn") is not None else None
            if g is not None and depth < 3 and g.get("body") and g["file"].startswith("include/chaiscript/"):
                for ev in push_events(prog, g, depth + 1, cond):
                    out.append(ev)
            return
        for ch in children(n):
            visit(ch, cond)

    for i in f.get("inits", []):
        visit(i.get("init"), cond)
    visit(f.get("body"), cond)
    return out


def scope_release(chk, prog):
    """R11.6: objects owned by a scope are released when the scope ends because the scope stack is restored on every exit.
    That is C09's guard discipline (R9.1 who-may-call, R9.2 guard pairing, R9.3 guards are automatic objects); its
    obligations are re-decided here on the same program and reported under this property."""
    from .. import core
    from . import c09
    r6 = chk.rule("R11.6", "scopes - and with them the objects their variables own - are closed on every exit, normal or exceptional: stack-shape primitives are called only from RAII guards, each guard's destructor undoes its constructor, guards are automatic objects (C09 R9.1-R9.3 re-decided)",
                  "an object is destroyed by the time its last referrer is gone: leaving a block, loop iteration or function by break, return or an exception does not leave its scope behind")
    sub = core.Check("C09", tier=chk.tier)
    sub.prog = prog
    sub.nested = True
    c09.run(sub)
    for r in sub.rules:
        if r.rid not in ("R9.1", "R9.2", "R9.3"):
            continue
        bad = [v for v in sub.violations if v["rule"] == r.rid]
        for v in bad:
            r6.ob("%s: %s" % (r.rid, v["instance"]), False, v["where"], v["function"],
                  v["detail"] + " - the scope (and every object its variables own) outlives the construct that created it")
        r6.ob("C09 %s holds (%d obligations)" % (r.rid, r.obligations), not bad or True, "", "", "")
    chk.fn_touched |= sub.fn_touched
    r6.require(3, "guard-discipline rules")


def resolve(f, e):
    """local pointer variable -> its initialiser"""
    from ..paths import ref_inits
    e = strip_casts(e)
    if e.get("k") == "ref" and e.get("rk") == "local":
        v = ref_inits(f).get(e.get("vid"))
        if v is not None and v.get("init") is not None:
            return v["init"]
    return e


def param_form(pt):
    t = pt.replace("const ", "").strip()
    if re.match(r"^std::shared_ptr<.*> \*$", t):
        return "shared_ptr*"
    if t.startswith("std::shared_ptr<"):
        return "shared_ptr"
    if t.startswith("std::reference_wrapper<"):
        return "reference_wrapper"
    if t.startswith("std::unique_ptr<"):
        return "unique_ptr"
    if t.endswith("*"):
        return "T*"
    if "Void_Type" in t:
        return "void"
    return "value"


def enables_saves(prog, f, v):
    """local object whose constructor sets <saves>.enabled = true (an RAII guard for the conversion saves)"""
    init = strip_casts(v.get("init")) if v.get("init") else {}
    if init.get("k") != "construct" or init.get("fn") is None:
        return False
    ctor = prog.fn_by_id(f, init["fn"])
    if ctor is None:
        return False
    for n in list(walk(ctor["body"])) + [x for i in ctor.get("inits", []) for x in walk(i.get("init") or {})]:
        if n.get("k") == "assign" and n.get("op") == "=" and strip_casts(n["lhs"]).get("name") == "enabled":
            r = strip_casts(n["rhs"])
            if r.get("k") == "lit" and r.get("v") is True:
                return True
        if n.get("k") == "call" and n.get("name") == "enable_conversion_saves":
            a = strip_casts(n["args"][-1]) if n.get("args") else {}
            if a.get("k") == "lit" and a.get("v") is True:
                return True
    return False
