"""C11  Objects live exactly as long as something refers to them.

Decided: the ownership discipline the property rests on.
  R11.1  no non-owning Boxed_Value of a referent that provably dies with the enclosing evaluation step
         (automatic local, by-value parameter, catch parameter, element of a container kept alive only by a local handle);
  R11.2  every `new` is the direct initialiser of a smart pointer, there is no `delete`;
  R11.3  objects produced by type conversions are kept (saved) in both conversion directions, and every entry from C++
         that dispatches with a freshly built conversion state keeps the saves enabled for the duration of the call;
  R11.4  every call node saves its evaluated arguments before dispatch;
  R11.5  Object_Data::get: the owning forms store a shared_ptr and are not marked as references, the non-owning forms
         are marked as references, and the cached raw pointer is taken from the object the box stores.
Not decided: destruction counts and times on generated programs (needs an instrumented run); references that C++
functions registered by the host return into objects the host owns.
"""
import re

from ..ir import walk, strip_targs, AnalysisBroken
from ..flow import FnFlow, strip_casts, expr_str
from . import _nonowning as no

SCOPED = ("automatic", "catch", "handle-owned", "loop-element:handle-owned", "loop-element:automatic")


def run(chk):
    prog = chk.program()
    chk.explanation = ("Referent classification of every non-owning Boxed_Value construction in the library (std::ref/std::cref and "
                       "address-of forms, all instantiations), ownership rules over new/delete, sibling agreement of the two conversion "
                       "directions, a must-precede rule for argument saving in call nodes, a guard rule for C++ entry points into "
                       "dispatch, and a table check of the Object_Data::get overloads.")
    chk.assume("script code may retain any Boxed_Value it is handed (reference assignment, capture, container insertion, globals)")
    chk.assume("references returned by host-registered C++ functions refer to host-owned objects (Handle_Return<T&> is non-owning by design)")

    fns = [f for f in prog.fns if f["file"].startswith("include/") and f["tk"] != "pattern"]

    # ------------------------------------------------------------------ R11.1
    r1 = chk.rule("R11.1", "no non-owning Boxed_Value refers to an object that dies with the evaluation step that created the box",
                  "no script variable, capture or container element outlives the C++ object it refers to")
    seen = {}
    for f, n, ref, how in no.sites(prog, fns):
        c, d = no.classify_site(prog, f, ref)
        ident = "%s: %s(%s)" % (strip_targs(f["q"]), how, expr_str(prog, f, ref)[:40])
        prev = seen.get(ident)
        if prev is not None and (prev in SCOPED or c not in SCOPED):
            continue
        seen[ident] = c
        if prev is None or c in SCOPED:
            r1.ob(ident, c not in SCOPED, "%s:%d" % (f["file"], n["l"]), f["q"],
                  "non-owning reference to %s [%s]: the box can be kept by the script (reference assignment, capture, rethrow) after that object is gone" % (d, c))
    classes = {}
    for c in seen.values():
        classes[c] = classes.get(c, 0) + 1
    r1.note("referent classes of the %d construction sites: %s" % (len(seen), ", ".join("%s %d" % kv for kv in sorted(classes.items()))))
    r1.require(8, "non-owning construction sites")

    # ------------------------------------------------------------------ R11.2
    r2 = chk.rule("R11.2", "every new-expression directly initialises a smart pointer; no delete-expression exists",
                  "every object created on behalf of a script is destroyed exactly once, by its owner")
    nnew = 0
    seen2 = set()
    for f in prog.fns:
        if not f["file"].startswith("include/"):
            continue
        flow = None
        nodes = [(n, None) for n in walk(f["body"]) if n.get("k") in ("new", "delete")]
        for i in f.get("inits", []):
            nodes += [(n, i) for n in walk(i.get("init") or {}) if n.get("k") in ("new", "delete")]
        for n, ini in nodes:
            key = (f["file"], n["l"], n["k"])
            if key in seen2:
                continue
            seen2.add(key)
            ident = "%s: %s-expression" % (strip_targs(f["q"]), n["k"])
            if n["k"] == "delete":
                r2.ob(ident, False, "%s:%d" % (f["file"], n["l"]), f["q"], "manual delete: ownership is not expressed by a smart pointer")
                continue
            nnew += 1
            ok = False
            why = "result of new is not handed directly to a shared_ptr / unique_ptr"
            if ini is not None:
                rec = prog.records.get(f.get("cls") or "")
                fld = next((x for x in (rec or {}).get("fields", []) if x["name"] == ini.get("field")), None)
                ft = prog.T(rec["unit"], fld["t"]) if fld else ""
                ok = bool(re.match(r"^(const )?std::(unique_ptr|shared_ptr)<", ft))
                why = "member %s of type %s initialised from new" % (ini.get("field"), ft)
            else:
                flow = flow or FnFlow(f)
                p = flow.parent(n)
                while p is not None and p.get("k") == "cast":
                    p = flow.parent(p)
                if p is not None and p.get("k") == "construct":
                    t = prog.T(f, p.get("t"))
                    ok = bool(re.match(r"^(const )?std::(unique_ptr|shared_ptr)<", t))
            r2.ob(ident, ok, "%s:%d" % (f["file"], n["l"]), f["q"], why)
    r2.require(3, "new-expressions")

    # ------------------------------------------------------------------ R11.3
    r3 = chk.rule("R11.3", "objects produced by conversions are saved in both directions; C++ entry points that dispatch with a fresh conversion state enable the saves first",
                  "a converted temporary passed to a C++ function lives until that call has returned")
    convs = [f for f in prog.fns if strip_targs(f.get("cls") or "") == "chaiscript::Type_Conversions" and
             f["name"] in ("boxed_type_conversion", "boxed_type_down_conversion") and len(f["params"]) == 3 and f["tk"] != "pattern"]
    names = {f["name"] for f in convs}
    r3.anchor(names == {"boxed_type_conversion", "boxed_type_down_conversion"}, "both conversion directions of Type_Conversions (found %s)" % sorted(names))
    chk.touched(convs)
    for f in convs:
        flow = FnFlow(f)
        pushes = [n for n in walk(f["body"]) if n.get("k") == "call" and n.get("name") in ("push_back", "emplace_back") and n.get("obj") is not None and
                  "saves" in expr_str(prog, f, n["obj"])]
        rets = [n for n in walk(f["body"]) if n.get("k") == "return" and n.get("e") is not None]
        ok = False
        why = "the converted value is not pushed to the saves"
        if len(pushes) == 1:
            pv = strip_casts(pushes[0]["args"][0])
            guarded = any("enabled" in expr_str(prog, f, c) and t for c, t in flow.facts(pushes[0]))
            same = [r for r in rets if strip_casts(r["e"]).get("vid") is not None and strip_casts(r["e"]).get("vid") == pv.get("vid")]
            conv_init = None
            for d in walk(f["body"]):
                if d.get("k") == "decl":
                    for v in d["vars"]:
                        if v.get("vid") == pv.get("vid"):
                            conv_init = v.get("init")
            from_conv = conv_init is not None and any(x.get("k") == "call" and x.get("name") in ("convert", "convert_down") for x in walk(conv_init))
            ok = guarded and bool(same) and from_conv
            why = "push guarded by enabled: %s; pushed value is the returned conversion result: %s / %s" % (guarded, bool(same), from_conv)
        r3.ob("Type_Conversions::%s saves the converted object while saves are enabled and returns that same object" % f["name"], ok, f.where, f["q"], why)
    # entry points: fresh Type_Conversions_State over the thread's saves, then dispatch
    DISPATCHES = {"dispatch", "call_function", "call_member", "operator()", "call"}
    nentry = 0
    seen3 = set()
    for f in fns:
        states = [(n, v) for n in walk(f["body"]) if n.get("k") == "decl" for v in n["vars"]
                  if strip_targs(prog.T(f, v["t"]).replace("const ", "")) == "chaiscript::Type_Conversions_State" and v.get("init") is not None and
                  any(x.get("k") == "call" and x.get("name") == "conversion_saves" for x in walk(v["init"]))]
        if not states:
            continue
        flow = FnFlow(f)
        for dn, sv in states:
            uses = []
            for n in walk(f["body"]):
                if n.get("k") == "call" and n.get("name") in DISPATCHES and any(strip_casts(a).get("vid") == sv["vid"] for a in n.get("args", []) if isinstance(strip_casts(a), dict)):
                    uses.append(n)
            if not uses:
                continue
            ident = "%s: dispatch with a freshly built conversion state" % strip_targs(f["q"])
            if ident in seen3:
                continue
            seen3.add(ident)
            nentry += 1
            script_builtin = f.get("kind") == "lambda" and "::build_eval_system::" in f["q"]
            guard = None
            for n in flow.dominating(uses[0]):
                if n.get("k") == "decl":
                    for v in n["vars"]:
                        t = strip_targs(prog.T(f, v["t"]))
                        if t.endswith("::Function_Push_Pop") or enables_saves(prog, f, v):
                            guard = v["name"]
            why = ("a call that starts outside any script evaluation runs with conversion saves disabled: the object produced by a user "
                   "type_conversion is destroyed before the target function uses its reference parameter")
            if script_builtin:
                r3.note("%s is a script built-in: it is only reached through a call node, whose Function_Push_Pop has enabled the saves" % strip_targs(f["q"]))
            r3.ob(ident + (" happens inside a call node's scope" if script_builtin else " enables the conversion saves first"),
                  script_builtin or guard is not None, "%s:%d" % (f["file"], uses[0]["l"]), f["q"], why)
    # references handed to the host through the API: a fresh conversion state, no saves, and a reference result
    nref = 0
    refbad = None
    for f in fns:
        if strip_targs(f["q"]) != "chaiscript::detail::Dispatch_Engine::boxed_cast" or f["tk"] != "inst":
            continue
        rt = prog.T(f, f.get("ret")) if f.get("ret") is not None else ""
        if not rt.rstrip().endswith("&"):
            continue
        nref += 1
        fresh = any(n.get("k") == "decl" and any(strip_targs(prog.T(f, v["t"]).replace("const ", "")) == "chaiscript::Type_Conversions_State" for v in n["vars"]) for n in walk(f["body"]))
        guarded = any(n.get("k") == "decl" and any(enables_saves(prog, f, v) for v in n["vars"]) for n in walk(f["body"]))
        if fresh and not guarded and refbad is None:
            refbad = f
    if nref:
        r3.ob("chaiscript::detail::Dispatch_Engine::boxed_cast/a reference result handed to the host is not a reference into an unsaved conversion temporary", refbad is None,
              refbad.where if refbad else "", refbad["q"] if refbad else "",
              "boxed_cast<T &> (and eval<T &>) builds a fresh conversion state with saves disabled and returns the reference that chaiscript::boxed_cast produced: when a "
              "type conversion was needed the converted object is destroyed before the caller can use the reference (%d reference-returning instantiations)" % nref)
    r3.require(3, "obligations")

    # ------------------------------------------------------------------ R11.4
    r4 = chk.rule("R11.4", "every call node that opens a function-call frame saves its evaluated arguments before it dispatches",
                  "arguments (and references returned into them) live until the outermost call has returned")
    n4 = 0
    seen4 = set()
    for f in fns:
        if not f["q"].startswith("chaiscript::eval::"):
            continue
        fpps = [v for n in walk(f["body"]) if n.get("k") == "decl" for v in n["vars"] if strip_targs(prog.T(f, v["t"])).endswith("::Function_Push_Pop")]
        if not fpps:
            continue
        ident = strip_targs(f["q"]) + ("<false>" if re.search(r"do_eval_internal<false>", f["q"]) else "")
        if ident in seen4:
            continue
        seen4.add(ident)
        n4 += 1
        saves = [n for n in walk(f["body"]) if n.get("k") == "call" and n.get("name") == "save_params" and n.get("obj") is not None and
                 strip_casts(n["obj"]).get("vid") in {v["vid"] for v in fpps}]
        disp = [n for n in walk(f["body"]) if n.get("k") == "call" and n.get("name") in ("call_function", "call_member", "dispatch") or
                (n.get("k") == "call" and n.get("op") == "()" and n.get("obj") is not None and "Proxy_Function" in prog.T(f, strip_casts(n["obj"]).get("t") if isinstance(strip_casts(n["obj"]).get("t"), int) else None or 0))]
        exempt = ident.endswith("<false>")
        if exempt:
            r4.note("%s: instantiation with Save_Params == false is used only by Unused_Return_Fun_Call, whose result is discarded" % ident)
        if ident.endswith("::Equation_AST_Node::eval_internal"):
            # the only argument that could be a temporary is the right operand; the left operand is rejected when it is a
            # temporary (is_return_value) and the result of an assignment refers to the left operand
            lhs_tmp_rejected = any(x.get("k") == "call" and x.get("name") == "is_return_value" for x in walk(f["body"]))
            if lhs_tmp_rejected:
                exempt = True
                r4.note("%s: exempt - assignment rejects a temporary left operand and its result refers to the left operand" % ident)
        ok = exempt or (bool(saves) and all(min(s["l"] for s in saves) <= d["l"] for d in disp))
        r4.ob("%s saves its arguments before dispatch" % ident, ok, f.where, f["q"],
              "Function_Push_Pop frame without save_params before the dispatch call (saves at lines %s, dispatch at %s)" % ([s["l"] for s in saves], [d["l"] for d in disp]))
    # the exemption above rests on this: the non-saving node is created only where the call's value is discarded
    from .c02 import value_discarding_sites
    vs = value_discarding_sites(prog)
    r4.anchor(len(vs) >= 1, "creation sites of Unused_Return_Fun_Call_AST_Node (found %d)" % len(vs))
    for i, (f, n, v, d) in enumerate(sorted(vs, key=lambda t: t[1]["l"])):
        r4.ob("%s: the non-saving call node (site %d) replaces only calls whose value is discarded" % (strip_targs(f["q"]).replace("chaiscript::optimizer::", ""), i + 1), v == "ok",
              "%s:%d" % (f["file"], n["l"]), f["q"],
              "replaces %s: that call's result is still used by the caller while its argument temporaries are no longer kept alive" % d)
    r4.require(6, "call nodes")

    # ------------------------------------------------------------------ R11.5
    r5 = chk.rule("R11.5", "Object_Data::get: owning forms store a shared_ptr and are not references; non-owning forms are marked as references; the cached pointer comes from the stored object",
                  "shared ownership for values and shared_ptr, none for pointers and references - exactly as the API promises")
    gets = [f for f in prog.fns if strip_targs(f["q"]) == "chaiscript::Boxed_Value::Object_Data::get" and len(f["params"]) == 2 and f["tk"] == "inst"]
    r5.anchor(len(gets) >= 20, "instantiations of Object_Data::get (found %d)" % len(gets))
    chk.touched(gets)
    seen5 = {}
    for f in gets:
        pt = prog.T(f, f["params"][0]["t"])
        form = param_form(pt)
        ms = [n for n in walk(f["body"]) if n.get("k") == "call" and n.get("name") == "make_shared" and "Boxed_Value::Data" in prog.T(f, n.get("t"))]
        deleg = [n for n in walk(f["body"]) if n.get("k") == "call" and n.get("name") == "get" and n.get("fn") is not None and
                 (prog.fn_by_id(f, n["fn"]) or {}).get("q", "").startswith("chaiscript::Boxed_Value::Object_Data::get")]
        ok, why = False, ""
        if form in ("T*", "shared_ptr*") and deleg and not ms:
            a = strip_casts(deleg[0]["args"][0])
            if form == "T*":
                ok = a.get("k") == "call" and a.get("name") in ("ref", "cref")
                why = "pointer form must delegate to the reference_wrapper form via std::ref(*t)"
            else:
                ok = True
        elif len(ms) == 1 and len(ms[0].get("args", [])) >= 4:
            args = ms[0]["args"]
            isref = strip_casts(args[2])
            anyarg = args[1]
            want_ref = form in ("reference_wrapper", "unique_ptr")
            holds_shared = any("std::shared_ptr<" in prog.T(f, x.get("t")) for x in walk(anyarg) if isinstance(x.get("t"), int))
            holds_wrapper = any("reference_wrapper<" in prog.T(f, x.get("t")) for x in walk(anyarg) if isinstance(x.get("t"), int))
            okref = isref.get("k") == "lit" and bool(isref.get("v")) == want_ref
            okown = holds_wrapper if form == "reference_wrapper" else holds_shared
            # cached pointer: from param / local shared pointer's get(), never from something else
            ptr = strip_casts(args[3])
            okptr = True
            if form == "value":
                # must come from the freshly made shared_ptr, not from the by-value parameter
                okptr = not any(x.get("k") == "ref" and x.get("rk") == "param" and x.get("idx") == 0 for x in walk(resolve(f, ptr)))
            ok = okref and okown and okptr
            why = "is_ref literal %s (expected %s); Any holds %s; cached pointer from the stored object: %s" % (
                isref.get("v"), want_ref, "reference_wrapper" if holds_wrapper else ("shared_ptr" if holds_shared else "neither"), okptr)
        else:
            why = "unrecognised body shape"
        key = form
        if key in seen5 and (not seen5[key] or ok):
            continue
        seen5[key] = ok
        r5.ob("Object_Data::get(%s)" % form, ok, f.where, f["q"], why)
    r5.require(5, "overload forms")


def resolve(f, e):
    """local pointer variable -> its initialiser"""
    from ..paths import ref_inits
    e = strip_casts(e)
    if e.get("k") == "ref" and e.get("rk") == "local":
        v = ref_inits(f).get(e.get("vid"))
        if v is not None and v.get("init") is not None:
            return v["init"]
    return e


def param_form(pt):
    t = pt.replace("const ", "").strip()
    if re.match(r"^std::shared_ptr<.*> \*$", t):
        return "shared_ptr*"
    if t.startswith("std::shared_ptr<"):
        return "shared_ptr"
    if t.startswith("std::reference_wrapper<"):
        return "reference_wrapper"
    if t.startswith("std::unique_ptr<"):
        return "unique_ptr"
    if t.endswith("*"):
        return "T*"
    if "Void_Type" in t:
        return "void"
    return "value"


def enables_saves(prog, f, v):
    """local object whose constructor sets <saves>.enabled = true (an RAII guard for the conversion saves)"""
    init = strip_casts(v.get("init")) if v.get("init") else {}
    if init.get("k") != "construct" or init.get("fn") is None:
        return False
    ctor = prog.fn_by_id(f, init["fn"])
    if ctor is None:
        return False
    for n in list(walk(ctor["body"])) + [x for i in ctor.get("inits", []) for x in walk(i.get("init") or {})]:
        if n.get("k") == "assign" and n.get("op") == "=" and strip_casts(n["lhs"]).get("name") == "enabled":
            r = strip_casts(n["rhs"])
            if r.get("k") == "lit" and r.get("v") is True:
                return True
        if n.get("k") == "call" and n.get("name") == "enable_conversion_saves":
            a = strip_casts(n["args"][-1]) if n.get("args") else {}
            if a.get("k") == "lit" and a.get("v") is True:
                return True
    return False
