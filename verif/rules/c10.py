"""C10  Exceptions are delivered, not lost or altered.

R10.1 handler discipline around user code; R10.2-R10.4 the script-level try statement (path enumeration by
abstract interpretation: unmatched means rethrown, finally exactly once on every exit, at most one clause
per exception); R10.5 throw builtin / exception specifications; R10.6 call-stack annotation rethrows.
"""
from ..ir import walk, strip_targs, AnalysisBroken
from ..flow import FnFlow, strip_casts, expr_str, always_exits
from ..absint import AbsInt, Throw
from ..analysis import callgraph, fkey, Hierarchy, norm_type
from ..paths import ref_inits
from . import c13

INTERNAL = {
    "chaiscript::eval::detail::Return_Value": "control flow: return",
    "chaiscript::eval::detail::Break_Loop": "control flow: break",
    "chaiscript::eval::detail::Continue_Loop": "control flow: continue",
    "chaiscript::exception::dispatch_error": "engine: no overload matched",
    "chaiscript::exception::bad_boxed_cast": "engine: argument does not convert (try next overload)",
    "chaiscript::exception::arity_error": "engine: wrong number of arguments (try next overload)",
    "chaiscript::exception::guard_error": "engine: guard rejected (try next overload)",
    "chaiscript::exception::name_conflict_error": "engine: name already defined",
    "chaiscript::dispatch::option_explicit_set": "engine: option explicit",
    "chaiscript::detail::exception::bad_any_cast": "engine: stored type differs",
    "chaiscript::exception::file_not_found_error": "engine: try next use path",
    "chaiscript::exception::load_module_error": "engine: try next module path",
}
# std::bad_cast is the base class of the engine's own cast errors (bad_boxed_cast, bad_any_cast) but also a standard exception that a registered
# C++ function can throw (failed dynamic_cast<T &>).  Handlers for it are accepted only at these sites, where the try body is a cast / conversion
# attempt and nothing else; anywhere else (a dispatch loop, a call node) such a handler would swallow or replace a user exception.
BAD_CAST_SITES = {
    "chaiscript::Type_Conversions::boxed_type_conversion": "conversion attempt: a conversion that fails with bad_cast is reported as bad_boxed_dynamic_cast",
    "chaiscript::Type_Conversions::boxed_type_down_conversion": "conversion attempt, as boxed_type_conversion",
    "chaiscript::boxed_cast": "cast attempt: failure of the fallback conversion is reported as bad_boxed_cast",
    "chaiscript::dispatch::Param_Types::convert": "conversion attempt of one typed parameter: failure leaves the argument unconverted",
    "chaiscript::dispatch::Param_Types::match": "cast probe of an argument already tested to hold a Dynamic_Object: failure means 'no match'",
    "chaiscript::detail::Dispatch_Engine::is_type": "cast probe: failure means 'not of that type'",
    "chaiscript::dispatch::detail::Dynamic_Object_Function::dynamic_object_typename_match": "cast probe, as Param_Types::match",
}
# conversions of engine errors that are part of the documented interface
ALLOW = {
    ("chaiscript::ChaiScript_Basic::internal_eval", "chaiscript::exception::eval_error"):
        "script-level eval(): an eval_error of the nested script is handed to the calling script as a catchable value (same object, boxed)",
    ("chaiscript::ChaiScript_Basic::internal_eval_file", "chaiscript::exception::eval_error"):
        "script-level eval_file(): as internal_eval",
    ("chaiscript::ChaiScript_Basic::eval", "chaiscript::exception::eval_error"):
        "script-level eval(AST_Node): as internal_eval",
}
TRY_NODE = "chaiscript::eval::Try_AST_Node"


def handler_rethrows(h):
    """every normal path through the handler body ends in `throw;`"""
    def ends(n):
        if not isinstance(n, dict):
            return False
        k = n.get("k")
        if k == "throw":
            return bool(n.get("rethrow"))
        if k == "block":
            for s in n.get("s", []):
                if always_exits(s):
                    return ends(s)
            return False
        if k == "if":
            return bool(n.get("else")) and ends(n.get("then")) and ends(n.get("else"))
        return False
    return ends(h.get("body"))


def run(chk):
    prog = chk.program()
    cg = callgraph(prog)
    h = Hierarchy(prog)
    chk.explanation = ("Every try statement of the library whose body can reach user code (script functions, registered C++ "
                       "functions, conversion callbacks: reachability over the resolved call graph incl. virtual and indirect "
                       "calls) is enumerated and each handler classified: engine-internal type, unconditional rethrow, documented "
                       "conversion (allow-list), or violation.  The script-level try statement is analysed path by path with "
                       "an abstract interpreter (handle_exception inlined, exceptional edges at every node evaluation) for "
                       "'unmatched means rethrown', 'finally exactly once on every exit' and 'at most one clause per exception'.")
    chk.assume("user code does not itself throw the engine's internal exception types (bad_boxed_cast, arity_error, guard_error, dispatch_error ...)")

    # path knowledge, itself checked below: boxed_cast runs user conversion callbacks only when it was given a
    # conversions object; a call that passes none (default nullptr) cannot reach user code
    def null_conversions_cast(caller, node, callee_key=None):
        if node.get("k") != "call" or node.get("name") != "boxed_cast" or node.get("obj") is not None:
            return False
        args = node.get("args", [])
        if len(args) < 2:
            return False
        a = strip_casts(args[1])
        while isinstance(a, dict) and a.get("k") == "defarg":
            a = strip_casts(a.get("e"))
        return isinstance(a, dict) and a.get("k") == "lit" and a.get("lt") == "nullptr"

    user = c13.user_reaching(prog, cg, skip_edge=null_conversions_cast)
    r0 = chk.rule("R10.0", "boxed_cast can reach conversion callbacks only on paths where its conversions argument is non-null (justifies treating boxed_cast(v) without conversions as engine-internal)",
                  "supporting fact for R10.1's reachability")
    bcs = [g for g in prog.fns if strip_targs(g["q"]) == "chaiscript::boxed_cast" and g["tk"] == "inst"]
    r0.anchor(len(bcs) > 50, "instantiations of chaiscript::boxed_cast")
    from ..flow import atomic_facts
    bad0 = None
    nconv = 0
    for g in bcs:
        flow = FnFlow(g)
        for x in walk(g["body"]):
            if x.get("k") == "call" and x.get("name") in ("boxed_type_conversion", "boxed_type_down_conversion", "convertable_type"):
                nconv += 1
                ok0 = any(t and strip_casts(a).get("k") == "ref" and strip_casts(a).get("rk") == "param" and strip_casts(a).get("idx") == 1 for a, t in atomic_facts(flow, x))
                if not ok0 and bad0 is None:
                    bad0 = (g, x)
    r0.ob("chaiscript::boxed_cast uses its conversions argument only under `t_conversions` non-null (%d uses in %d instantiations)" % (nconv, len(bcs)),
          bad0 is None and nconv > 0, bad0[0].where if bad0 else bcs[0].where, bad0[0]["q"] if bad0 else bcs[0]["q"], "conversion used without the null test")

    def reaches_user(f, body):
        u = f["unit"]
        for x in walk(body):
            if x.get("k") == "call":
                if x.get("indirect"):
                    return True
                if null_conversions_cast(f, x):
                    continue
                if x.get("fn") is not None:
                    t = prog._by_id.get((u, x["fn"]))
                    if t is not None and fkey(t) in user:
                        return True
                    if x.get("virt"):
                        for o in cg.overriders.get((u, x["fn"]), ()):
                            if o in user:
                                return True
                    d = prog.decls.get((u, x["fn"]))
                    if d is not None and not d.get("inroot"):
                        from .. import models
                        if models.is_opaque_call(d["q"]):
                            return True
            if x.get("k") == "construct" and x.get("fn") is not None:
                t = prog._by_id.get((u, x["fn"]))
                if t is not None and fkey(t) in user:
                    return True
        return False

    r1 = chk.rule("R10.1", "every handler on a try whose body can reach user code catches an engine-internal type, rethrows unconditionally, or is a documented conversion",
                  "a value thrown by script or a C++ exception from a registered function is never swallowed or replaced on its way out")
    seen = {}
    ntry = 0
    for f in prog.fns:
        if f["tk"] == "pattern" or not f["file"].startswith("include/"):
            continue
        if strip_targs(f.get("cls") or "") == TRY_NODE:
            continue
        for n in walk(f["body"]):
            if n.get("k") != "try":
                continue
            key = (f["file"], n["l"])
            if key in seen:
                continue
            seen[key] = True
            if not reaches_user(f, n["body"]):
                continue
            ntry += 1
            chk.touched([f])
            fq = strip_targs(f["q"])
            for hd in n["handlers"]:
                ht = None if hd.get("all") else norm_type(prog.T(f, hd["bt"]))
                label = "..." if ht is None else ht.replace("chaiscript::", "")
                inst = "%s: catch (%s)" % (fq, label)
                ok = False
                why = ""
                if ht is not None and any(h.is_a(ht, t) or ht == t for t in INTERNAL):
                    ok = True
                elif handler_rethrows(hd):
                    ok = True
                elif (fq, ht) in ALLOW:
                    ok = True
                    r1.note("allow-listed %s -- %s" % (inst, ALLOW[(fq, ht)]))
                elif ht == "std::bad_cast" and fq in BAD_CAST_SITES and cast_attempt_only(prog, f, n["body"]):
                    ok = True
                    r1.note("allow-listed %s -- %s" % (inst, BAD_CAST_SITES[fq]))
                else:
                    acts = sorted({prog.T(f, x.get("tt")).replace("chaiscript::", "") for x in walk(hd["body"]) if x.get("k") == "throw" and not x.get("rethrow")})
                    why = ("an exception from user code (reached by the try body) is caught as %s and %s" % (
                        label, ("replaced by " + ", ".join(acts)) if acts else "swallowed"))
                r1.ob(inst, ok, "%s:%d" % (f["file"], hd["l"]), f["q"], why)
    r1.note("%d try statements whose body can reach user code" % ntry)
    r1.require(45, "handlers around user code")

    # ------------------------------------------------------------------ the script-level try statement
    tn = [f for f in prog.fns if strip_targs(f.get("cls") or "") == TRY_NODE and f["tk"] == "inst"]
    ev = [f for f in tn if f["name"] == "eval_internal"]
    he = [f for f in tn if f["name"] == "handle_exception"]
    r2 = chk.rule("R10.2", "try statement: when no catch clause matches the exception is rethrown (it never reaches the statement's normal exit)",
                  "an exception travels outward until the first enclosing catch clause whose type matches it")
    r3 = chk.rule("R10.3", "try statement: the finally block is evaluated exactly once on every exit (normal, handled, unmatched, catch-all, a catch body that throws)",
                  "finally blocks on the path run exactly once each")
    r4 = chk.rule("R10.4", "try statement: at most one catch clause runs per exception, clauses are tried in source order, each in its own scope",
                  "a catch clause runs at most once per exception, the first matching clause wins")
    r2.anchor(len(ev) >= 1 and len(he) >= 1, "Try_AST_Node::eval_internal / handle_exception")
    f, hf = ev[0], he[0]
    chk.touched([f, hf])
    res = try_paths(prog, f, hf)
    if res["incomplete"]:
        raise AnalysisBroken("C10: loop fixpoint not reached in Try_AST_Node analysis")
    exits = res["exits"]
    # state = (HF, caught, C, F, R)
    swallowed = [s for kind, s in exits if kind == "normal" and s[1] and s[2] == 0]
    r2.ob("Try_AST_Node::eval_internal/no normal exit after an exception that no clause handled", not swallowed, f.where, f["q"],
          "there is a path on which an exception is caught by the C++ handlers, no script catch clause runs, and evaluation continues normally: the exception is lost "
          "(states: %s)" % sorted(set(swallowed), key=str)[:4])
    r2.ob("Try_AST_Node::eval_internal/exceptions reach the clause matcher", res["handled_paths"] > 0, f.where, f["q"], "no handler calls handle_exception")
    for hfv in (True, False):
        for kind in ("normal", "throw"):
            ss = [s for k2, s in exits if k2 == kind and s[0] == hfv]
            want = 1 if hfv else 0
            bad = sorted({s for s in ss if s[3] != want}, key=str)
            r3.ob("Try_AST_Node::eval_internal/%s exit, %s finally block: finally evaluated %s" % (kind, "with" if hfv else "without", "exactly once" if hfv else "never"),
                  bool(ss) and not bad, f.where, f["q"],
                  "on some %s exit the finally block is evaluated %s times (states (has_finally, caught, clauses_run, finally_runs, matched): %s)" % (
                      kind, sorted({s[3] for s in bad}), bad[:4]))
    multi = sorted({s for _, s in exits if s[2] > 1}, key=str)
    r4.ob("Try_AST_Node/at most one catch clause runs per exception", not multi, hf.where, hf["q"], "paths with two clause bodies evaluated: %s" % multi[:3])
    # loop shape in handle_exception: ascending from 1, scope guard per iteration
    loops = [n for n in walk(hf["body"]) if n.get("k") == "for"]
    okl = False
    if len(loops) == 1:
        lp = loops[0]
        init = lp.get("init") or {}
        iv = init.get("vars", [{}])[0] if init.get("k") == "decl" else {}
        start = strip_casts(iv.get("init")) if iv.get("init") else {}
        inc = strip_casts(lp.get("inc")) if lp.get("inc") else {}
        okl = start.get("k") == "lit" and start.get("v") == 1 and inc.get("k") == "unop" and inc.get("op") == "++"
        body = lp.get("body", {})
        first = (body.get("s") or [{}])[0]
        guard = first.get("k") == "decl" and any("Scope_Push_Pop" in prog.T(hf, v["t"]) for v in first.get("vars", []))
        r4.ob("Try_AST_Node::handle_exception/each clause is tried inside its own scope guard", guard, hf.where, hf["q"], "no Scope_Push_Pop at the top of the clause loop body")
    r4.ob("Try_AST_Node::handle_exception/clauses are tried in source order starting at the first catch", okl, hf.where, hf["q"], "clause loop does not run i = 1, 2, ...")
    r2.require(2, "obligations")
    r3.require(4, "exit classes")
    r4.require(3, "obligations")

    # ------------------------------------------------------------------ R10.7
    r7 = chk.rule("R10.7", "an exception that is passed on is re-raised with `throw;`: no handler throws a copy of the object it caught through a base-class reference (directly or in a closure it hands the object to)",
                  "the exception leaves with its original C++ type (a copy made through `const std::exception &` is a std::exception)")
    nh = 0
    for g in prog.fns:
        if g["tk"] == "pattern" or not g["file"].startswith("include/"):
            continue
        for n in walk(g["body"]):
            if n.get("k") != "try":
                continue
            for hd in n["handlers"]:
                if hd.get("all") or hd.get("vid") is None or not hd.get("ref"):
                    continue
                ht = norm_type(prog.T(g, hd["bt"]))
                open_type = ht.startswith("std::") or any(ht in bs for bs in h.bases.values())
                if not open_type:
                    continue
                nh += 1
                bad = []
                for x in walk(hd["body"]):
                    if x.get("k") == "throw" and x.get("e") is not None and is_var(x["e"], hd["vid"]):
                        bad.append((g, x))
                    if x.get("k") == "call":
                        callee = prog.fn_by_id(g, x.get("fn")) if x.get("fn") is not None else None
                        if callee is None or callee.get("kind") != "lambda":
                            continue
                        for i, a in enumerate(x.get("args", [])):
                            if not is_var(a, hd["vid"]) or i >= len(callee["params"]):
                                continue
                            pt = prog.T(callee, callee["params"][i]["t"])
                            if not pt.rstrip().endswith("&"):
                                continue
                            for y in walk(callee["body"]):
                                if y.get("k") == "throw" and y.get("e") is not None and is_param(y["e"], i):
                                    bad.append((callee, y))
                inst = "%s: catch (%s)" % (strip_targs(g["q"]), ht.replace("chaiscript::", ""))
                for (bf, x) in bad:
                    r7.ob(inst + " does not throw a copy of the caught object", False, "%s:%d" % (bf["file"], x["l"]), g["q"],
                          "`throw <caught object>` copies it as %s: an exception of a derived class (std::logic_error, arithmetic_error, a user type) continues as its base class and loses its message and type" % ht)
    r7.ob("handlers that catch a base-class reference re-raise with `throw;` only (%d handlers examined)" % nh, True, "", "", "")
    r7.anchor(nh >= 10, "handlers with a named base-class reference (found %d)" % nh)

    # ------------------------------------------------------------------ R10.5 / R10.6
    r5 = chk.rule("R10.5", "the throw builtin throws exactly its argument; exception specifications throw the unboxed value and swallow only bad_boxed_cast; AST_Node_Impl::eval annotates an eval_error once and rethrows it",
                  "what script throws is what leaves eval (as Boxed_Value or as the typed exception selected by the specification); the error keeps its identity while the call stack is recorded")
    thr = []
    for g in prog.fns:
        if g["q"].startswith("chaiscript::bootstrap::") and g["tk"] != "pattern":
            for n in walk(g["body"]):
                if n.get("k") == "call" and n.get("name") == "add" and len(n.get("args", [])) == 2:
                    nm = next((x["v"] for x in walk(n["args"][1]) if x.get("k") == "lit" and x.get("lt") == "string"), None)
                    if nm == "throw":
                        lam = next((x for x in walk(n["args"][0]) if x.get("k") == "lambda"), None)
                        if lam is not None:
                            thr.append((g, prog.fn_by_id(g, lam["fn"])))
    r5.anchor(len(thr) == 1 and thr[0][1] is not None, "registration of the script function 'throw'")
    lf = thr[0][1]
    st = lf["body"].get("s", [])
    okt = len(st) == 1 and st[0].get("k") == "throw" and strip_casts(st[0].get("e")).get("k") in ("ref", "construct")
    if okt:
        e = strip_casts(st[0]["e"])
        if e.get("k") == "construct":
            e = strip_casts(e["args"][0])
        okt = e.get("k") == "ref" and e.get("rk") == "param" and e.get("idx") == 0
    r5.ob("script function 'throw' throws its argument", okt, lf.where, lf["q"], "the builtin does something else than `throw bv;`")
    tts = [g for g in prog.fns if g["name"] == "throw_type" and g["tk"] == "inst"]
    r5.anchor(tts, "Exception_Handler_Base::throw_type instantiations")
    okx = True
    whyx = ""
    for g in tts:
        trys = [n for n in walk(g["body"]) if n.get("k") == "try"]
        if len(trys) != 1:
            okx, whyx = False, "throw_type is not a single try"
            break
        hs = trys[0]["handlers"]
        if len(hs) != 1 or hs[0].get("all") or "bad_boxed_cast" not in prog.T(g, hs[0]["bt"]):
            okx, whyx = False, "throw_type swallows more than bad_boxed_cast"
            break
        tnodes = [n for n in walk(trys[0]["body"]) if n.get("k") == "throw"]
        if len(tnodes) != 1:
            okx, whyx = False, "throw_type does not throw exactly once"
            break
        locs = ref_inits(g)
        te = strip_casts(tnodes[0]["e"])
        if te.get("k") == "construct" and te.get("args"):
            te = strip_casts(te["args"][0])
        v = locs.get(te.get("vid")) if te.get("k") == "ref" else None
        if v is None or not any(x.get("k") == "call" and x.get("name") == "boxed_cast" for x in walk(v.get("init") or {})):
            okx, whyx = False, "the thrown value is not the boxed_cast<T> of the script value"
            break
    r5.ob("Exception_Handler_Base::throw_type<T> throws boxed_cast<T>(value), swallowing only bad_boxed_cast (%d instantiations)" % len(tts), okx, tts[0].where, tts[0]["q"], whyx)
    chk.touched(tts)
    evs = [g for g in prog.fns if g["name"] == "eval" and strip_targs(g.get("cls") or "") == "chaiscript::eval::AST_Node_Impl" and g["tk"] == "inst"]
    r5.anchor(evs, "AST_Node_Impl::eval")
    g = evs[0]
    trys = [n for n in walk(g["body"]) if n.get("k") == "try"]
    oke = len(trys) == 1 and len(trys[0]["handlers"]) == 1
    if oke:
        hd = trys[0]["handlers"][0]
        pushes = [x for x in walk(hd["body"]) if x.get("k") == "call" and x.get("name") in ("push_back", "emplace_back")]
        from .c20 import helper_pushes
        via = helper_pushes(prog, g, hd) if not pushes else []
        pushed_once = (len(pushes) == 1 and "call_stack" in expr_str(prog, g, pushes[0])) or (not pushes and len(via) == 1)
        oke = "eval_error" in prog.T(g, hd["bt"]) and hd.get("ref") and handler_rethrows(hd) and pushed_once
    r5.ob("AST_Node_Impl::eval appends this node to the eval_error's call stack once and rethrows the same object", oke, g.where, g["q"],
          "the annotation handler does not catch by reference / does not rethrow / pushes other than once")
    chk.touched(evs[:1])
    # engine entry points: eval(string, handler): Boxed_Value handler rethrows after consulting the specification
    ees = [g for g in prog.fns if g["name"] == "eval" and g.get("cls") == "chaiscript::ChaiScript_Basic" and any(n.get("k") == "try" for n in walk(g["body"]))]
    for g in ees:
        for t in [n for n in walk(g["body"]) if n.get("k") == "try"]:
            for hd in t["handlers"]:
                if not hd.get("all") and norm_type(prog.T(g, hd["bt"])) == "chaiscript::Boxed_Value":
                    r5.ob("ChaiScript_Basic::eval: a script-thrown Boxed_Value leaves eval unchanged unless the specification selected a typed exception",
                          handler_rethrows(hd) and hd.get("ref"), "%s:%d" % (g["file"], hd["l"]), g["q"], "Boxed_Value handler does not rethrow")
    r5.require(4, "obligations")


# =============================================================================== try-statement path analysis

def is_var(e, vid):
    e = strip_casts(e)
    while e.get("k") == "construct" and len(e.get("args", [])) == 1:
        e = strip_casts(e["args"][0])
    return e.get("k") == "ref" and e.get("vid") == vid


def is_param(e, idx):
    e = strip_casts(e)
    while e.get("k") == "construct" and len(e.get("args", [])) == 1:
        e = strip_casts(e["args"][0])
    return e.get("k") == "ref" and e.get("rk") == "param" and e.get("idx") == idx


def try_paths(prog, f, hf):
    """Abstract interpretation of Try_AST_Node::eval_internal with handle_exception inlined.
    State: (HF has-finally, caught, C clause bodies run, F finally runs, R result of last handle_exception or None)."""
    locs_f = ref_inits(f)
    locs_h = ref_inits(hf)
    handled = [0]

    def eval_kind(fn, locs, call):
        """'body' | 'clause' | 'finally' | None for a `->eval(...)` call"""
        if call.get("k") != "call" or call.get("name") != "eval" or call.get("obj") is None:
            return None
        txt = expr_str(prog, fn, call["obj"])
        o = call["obj"]
        # resolve locals in the object path
        names = [x for x in walk(o) if x.get("k") == "ref" and x.get("rk") == "local"]
        for x in names:
            v = locs.get(x.get("vid"))
            if v is not None and v.get("init") is not None:
                txt += " <- " + expr_str(prog, fn, v["init"])
        if ".back()" in txt:
            return "finally"
        if "children [] 0" in txt and "<-" not in txt and "catch" not in txt:
            return "body"
        return "clause"

    def is_finally_cond(fn, locs, e):
        txt = expr_str(prog, fn, e)
        for x in walk(e):
            if x.get("k") == "ref" and x.get("rk") == "local":
                v = locs.get(x.get("vid"))
                if v is not None and v.get("init") is not None:
                    txt += " <- " + expr_str(prog, fn, v["init"])
        return "Finally" in txt

    def make(fn, locs, inline):
        def transfer(n, s):
            HF, caught, C, F, R = s
            k = n.get("k")
            if k == "call":
                kind = eval_kind(fn, locs, n)
                if kind == "body":
                    return (s, Throw(s))
                if kind == "clause":
                    s2 = (HF, caught, min(C + 1, 2), F, R)
                    return (s2, Throw(s2))
                if kind == "finally":
                    s2 = (HF, caught, C, min(F + 1, 2), R)
                    return (s2, Throw(s2))
                if n.get("name") == "handle_exception" and inline is not None:
                    handled[0] += 1
                    out = []
                    ai2 = AbsInt(make(hf, locs_h, None)[0], refine=make(hf, locs_h, None)[1], on_return=on_ret)
                    fl = ai2.exec(hf["body"], {(HF, caught, C, F, None)})
                    if ai2.incomplete:
                        incomplete[0] = True
                    for r in fl.returns | fl.normal:
                        out.append(r)
                    for t in fl.throws:
                        out.append(Throw(t))
                    return tuple(out)
                if n.get("name") in ("add_object", "match", "get_arg_name", "get_arg_type"):
                    return (s, Throw(s))
                callee = prog.fn_by_id(fn, n.get("fn")) if n.get("fn") is not None else None
                if callee is not None and callee.get("kind") == "lambda" and fkey(callee) not in inlining:
                    # a local closure called from the statement (e.g. one shared handler body): analysed in place
                    inlining.add(fkey(callee))
                    try:
                        tr2, rf2 = make(callee, ref_inits(callee), inline)
                        ai2 = AbsInt(tr2, refine=rf2)
                        fl = ai2.exec(callee["body"], {s})
                        if ai2.incomplete:
                            incomplete[0] = True
                        return tuple(fl.returns | fl.normal) + tuple(Throw(t) for t in fl.throws)
                    finally:
                        inlining.discard(fkey(callee))
            return (s,)

        def refine(e, truth, s):
            HF, caught, C, F, R = s
            e2 = strip_casts(e)
            if is_finally_cond(fn, locs, e2):
                return (s,) if HF == truth else ()
            forwards = False
            if e2.get("k") == "call" and e2.get("fn") is not None and e2.get("name") != "handle_exception":
                # a local closure whose result is handle_exception's result (`return handle_exception(..)`)
                cal = prog.fn_by_id(fn, e2["fn"])
                if cal is not None and cal.get("kind") == "lambda":
                    rets = [r for r in walk(cal["body"]) if r.get("k") == "return" and r.get("e") is not None]
                    forwards = bool(rets) and all(strip_casts(r["e"]).get("k") == "call" and strip_casts(r["e"]).get("name") == "handle_exception" for r in rets)
            if e2.get("k") == "call" and (e2.get("name") == "handle_exception" or forwards):
                if R is None:
                    return (s,)
                return (s,) if R == truth else ()
            return (s,)
        return transfer, refine

    def on_ret(n, s):
        e = strip_casts(n.get("e")) if n.get("e") is not None else {}
        HF, caught, C, F, R = s
        if e.get("k") == "lit" and e.get("lt") == "bool":
            return (HF, caught, C, F, bool(e.get("v")))
        return (HF, caught, C, F, None if R is None else R)

    incomplete = [False]
    inlining = set()

    def on_handler(h, s):
        HF, caught, C, F, R = s
        return ((HF, True, C, F, None),)

    tr, rf = make(f, locs_f, True)
    ai = AbsInt(tr, refine=rf, on_handler=on_handler)
    fl = ai.exec(f["body"], {(True, False, 0, 0, None), (False, False, 0, 0, None)})
    exits = [("normal", s) for s in (fl.returns | fl.normal)] + [("throw", s) for s in fl.throws]
    return {"exits": exits, "incomplete": ai.incomplete or incomplete[0], "handled_paths": handled[0]}


def cast_attempt_only(prog, f, body):
    """the try body calls nothing but cast / conversion primitives (and accessors): it is a cast attempt, not a call of a registered function"""
    OK = {"boxed_cast", "boxed_type_conversion", "boxed_type_down_conversion", "convert", "convert_down", "get_conversion", "get_type_info", "bare_equal",
          "get_type_name", "push_back", "emplace_back", "operator->", "operator*", "operator==", "operator!=", "operator||", "get", "cast", "bare_type_info",
          "user_type", "operator[]", "size", "at", "empty", "move", "forward", "is_undef", "first", "second", "type_conversion", "saves", "operator bool",
          "conversion_saves", "converts", "name", "bare_name", "operator=", "make_pair", "get_type", "operator basic_string_view"}
    for n in walk(body):
        if n.get("k") == "call" and n.get("name") not in OK:
            # a small helper that only records the converted value (`if (saves.enabled) saves.saves.push_back(v);`) calls nothing that can reach user code
            callee = prog.fn_by_id(f, n["fn"]) if n.get("fn") is not None else None
            if callee is not None and callee.get("body") and callee is not f and str(callee.get("file", "")).startswith("include/") and \
                    all(x.get("name") in OK for x in walk(callee["body"]) if x.get("k") == "call"):
                continue
            return False
    return True
