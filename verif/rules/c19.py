"""C19  Evaluating a file means evaluating its bytes; use() evaluates once.

Decided: (R19.1) stream typestate in the file loader: after a read() no positioning / reading operation on the
same stream before clear() or a state test; (R19.2) every stream use is dominated by the is_open() test whose
failing arm throws file_not_found_error, the file is opened in binary mode; (R19.3) use(): once-only test,
evaluation and insertion lie in one critical section of the use mutex, a nested include's own error is
rethrown, paths are tried in configured order; (R19.4) the parser skips a first line only under the `#!` test.
Not decided: byte-for-byte equality of eval_file and eval.
"""
from ..ir import walk, strip_targs, AnalysisBroken
from ..flow import FnFlow, strip_casts, expr_str, always_exits, atomic_facts, same_var
from ..absint import AbsInt
from ..analysis import fkey
from ..loader_model import Loader, Lin, C, St

READ_OPS = {"read", "get", "getline", "readsome", "ignore", "operator>>"}
POS_OPS = {"seekg", "tellg", "peek", "unget", "putback", "sync"}
TEST_OPS = {"good", "fail", "bad", "eof", "operator bool", "operator!", "gcount", "rdstate"}
CLEAR_OPS = {"clear"}


def is_stream_type(t):
    return "basic_ifstream<" in t or "basic_istream<" in t or "basic_fstream<" in t


def stream_vars(prog, f):
    """vid -> name for locals / params of input-stream type"""
    out = {}
    for p in f["params"]:
        if is_stream_type(prog.T(f, p["t"])):
            out[p["vid"]] = p["name"]
    for n in walk(f["body"]):
        if n.get("k") == "decl":
            for v in n["vars"]:
                if is_stream_type(prog.T(f, v["t"])):
                    out[v["vid"]] = v["name"]
    return out


class StreamTypestate:
    def __init__(self, prog):
        self.prog = prog
        self.summaries = {}    # (fkey, param idx, entry state) -> set of exit states
        self.sites = {}        # (fn q, op name, line) -> {"ok": bool, ...}
        self.incomplete = False

    def analyse(self, f, entry=None, depth=0):
        """Run the typestate over f.  entry: {vid: 'C'|'R'} for parameters; returns set of exit state frozensets."""
        prog = self.prog
        sv = stream_vars(prog, f)
        if not sv:
            return {frozenset()}

        def vid_of(e):
            e = strip_casts(e)
            if isinstance(e, dict) and e.get("k") == "ref" and e.get("vid") in sv:
                return e["vid"]
            return None

        def transfer(n, s):
            k = n.get("k")
            if k != "call":
                return (s,)
            name = n.get("name")
            obj = n.get("obj")
            v = vid_of(obj) if obj is not None else None
            if v is not None:
                key = (strip_targs(f["q"]), sv[v], name)
                if name in READ_OPS or name in POS_OPS:
                    site = self.sites.setdefault(key, {"ok": True, "where": "%s:%d" % (f["file"], n["l"]), "fn": f["q"], "n": 0})
                    site["n"] += 1
                    if v in s:
                        site["ok"] = False
                        site["where"] = "%s:%d" % (f["file"], n["l"])
                    if name in READ_OPS:
                        return (s | {v},)
                    return (s,)
                if name in CLEAR_OPS or name in TEST_OPS:
                    return (s - {v},)
                return (s,)
            # stream handed to another function
            out = {s}
            for i, a in enumerate(n.get("args", [])):
                av = vid_of(a)
                if av is None:
                    continue
                callee = prog.fn_by_id(f, n.get("fn")) if n.get("fn") is not None else None
                if callee is None or depth > 4:
                    continue
                pv = callee["params"][i]["vid"] if i < len(callee["params"]) else None
                if pv is None:
                    continue
                new = set()
                for st in out:
                    entry_state = "R" if av in st else "C"
                    skey = (fkey(callee), i, entry_state)
                    if skey not in self.summaries:
                        self.summaries[skey] = None
                        exits = self.analyse(callee, {pv: entry_state}, depth + 1)
                        self.summaries[skey] = {("R" if pv in e else "C") for e in exits}
                    res = self.summaries[skey] or {"R"}
                    for r in res:
                        new.add((st | {av}) if r == "R" else (st - {av}))
                out = new
            return tuple(out)

        def refine(e, truth, s):
            # `if (stream)` / `if (!stream.read(..))`: a tested stream is no longer 'unchecked'
            e2 = strip_casts(e)
            v = vid_of(e2)
            if v is not None:
                return (s - {v},)
            return (s,)

        ai = AbsInt(transfer, refine=refine)
        init = frozenset(v for v, st in (entry or {}).items() if st == "R")
        fl = ai.exec(f["body"], {init})
        if ai.incomplete:
            self.incomplete = True
        exits = fl.normal | fl.returns
        return exits or {init}


def run(chk):
    prog = chk.program()
    chk.explanation = ("Typestate analysis (abstract interpretation of the structured bodies, interprocedural through stream "
                       "parameters) of every function of the engine that handles an input file stream; dominance rules for the "
                       "open test; critical-section and handler rules for use(); shebang rule for the parser entry.")
    chk.assume("std::istream semantics: after a read() that came up short failbit is set and seekg/read/tellg are no-ops until clear()")

    eng = [f for f in prog.fns if (f.get("cls") or "").startswith("chaiscript::ChaiScript_Basic") and f["tk"] != "pattern"]
    loaders = [f for f in eng if stream_vars(prog, f)]
    r1 = chk.rule("R19.1", "after read() on a file stream, no seek/tell/read on it before clear() or a state test, on any path (through calls)",
                  "files of every length, including 0, 1 and 2 bytes, are read as their bytes (the BOM probe cannot poison the stream)")
    r1.anchor(len(loaders) >= 2, "engine functions handling an input stream (load_file, skip_bom); found %s" % [f["name"] for f in loaders])
    chk.touched(loaders)
    ts = StreamTypestate(prog)
    # roots: functions that own the stream (local variable), callees are reached through summaries
    roots = [f for f in loaders if any(n.get("k") == "decl" and any(is_stream_type(prog.T(f, v["t"])) for v in n["vars"]) for n in walk(f["body"]))]
    r1.anchor(roots, "function that opens the file stream")
    for f in roots:
        ts.analyse(f)
    if ts.incomplete:
        raise AnalysisBroken("C19 R19.1: loop fixpoint not reached in the stream typestate")

    # ------------------------------------------------------------------ R19.5
    r5 = chk.rule("R19.5", "abstract interpretation of load_file over file-length classes (0..K-1 bytes and >= K bytes, each with 0-3 leading BOM bytes): it returns exactly the file's bytes minus one leading BOM",
                  "eval_file(path) evaluates exactly the bytes of the file minus one leading byte-order mark, for files of every length including 0, 1, 2 and 3 bytes")
    lf = [f for f in roots if f["name"] == "load_file"]
    r5.anchor(len(lf) == 1, "ChaiScript_Basic::load_file")
    ld = Loader(prog)
    callees = [g for g in loaders if g is not lf[0]]
    classes, kmax = ld.classes([lf[0]] + callees)
    by_len = {}
    for L, m in classes:
        by_len.setdefault(L, []).append(m)
    nruns = 0
    for L in sorted(by_len):
        bad = []
        for m in by_len[L]:
            nruns += 1
            exp_start = 3 if m == 3 else 0
            exp_n = Lin(1, -exp_start)
            for o in ld.run(lf[0], L, m):
                probe = St(L, m)
                ok = o["kind"] == "bytes" and ld.cmp(probe, o["pad"], "==", C(0)) and ld.cmp(probe, o["n"], "==", exp_n) and \
                    (ld.cmp(probe, o["n"], "==", C(0)) or (o["start"] is not None and ld.cmp(probe, o["start"], "==", C(exp_start))))
                if not ok:
                    what = ("returns bytes [%r, %r+%r) of the file plus %r padding bytes" % (o["start"], o["start"], o["n"], o["pad"])) if o["kind"] == "bytes" else \
                        (o.get("why") or o.get("type") or o.get("what"))
                    bad.append("file whose first %d byte(s) match the BOM: %s; expected bytes [%d, L)" % (m, what, exp_start))
        label = ("%d bytes" % L[0]) if L[0] == L[1] else ("%d bytes or more" % L[0])
        r5.ob("load_file on a file of %s returns its bytes minus one leading BOM" % label, not bad, lf[0].where, lf[0]["q"], "; ".join(bad)[:600])
    r5.note("%d (length class, BOM prefix) cases interpreted; K = %d exceeds every integer literal in the loader, so all longer files follow the same path as K" % (nruns, kmax))
    r5.require(6, "length classes")

    for (q, var, op), site in sorted(ts.sites.items()):
        covered = any(strip_targs(g["q"]) == q for g in [lf[0]] + callees)
        if not site["ok"] and covered:
            r1.note("%s: %s.%s() follows a read() whose result is not tested; whether that read can come up short is decided per file length by R19.5" % (q, var, op))
        r1.ob("%s: %s.%s()" % (q, var, op), site["ok"] or covered, site["where"], site["fn"],
              "%s.%s() can be reached with the stream still in the state left by an earlier unchecked read(): if that read came up short "
              "(file shorter than requested) the stream has failbit set and this operation silently does nothing" % (var, op))
    r1.require(5, "stream operation sites")

    # ------------------------------------------------------------------ R19.2
    r2 = chk.rule("R19.2", "every use of the file stream is dominated by the is_open() test whose failing arm throws file_not_found_error; the file is opened binary",
                  "a missing file raises file_not_found_error; bytes are not translated")
    for f in roots:
        flow = FnFlow(f)
        sv = stream_vars(prog, f)
        decl = next(v for n in walk(f["body"]) if n.get("k") == "decl" for v in n["vars"] if v["vid"] in sv)
        init = strip_casts(decl.get("init")) if decl.get("init") else {}
        txt = expr_str(prog, f, init)
        flags = [x.get("name") for x in walk(init) if x.get("k") == "ref" and x.get("name") in ("binary", "in", "ate", "out", "app", "trunc")]
        r2.ob("%s: stream opened with std::ios::binary" % strip_targs(f["q"]), "binary" in flags, "%s:%d" % (f["file"], decl["l"]), f["q"],
              "open flags are %s: in text mode the bytes evaluated differ from the bytes of the file" % flags)
        uses = 0
        for n in walk(f["body"]):
            if n.get("k") == "call":
                tgt = None
                if n.get("obj") is not None and strip_casts(n["obj"]).get("vid") in sv and n.get("name") != "is_open":
                    tgt = n
                elif any(strip_casts(a).get("vid") in sv for a in n.get("args", []) if isinstance(strip_casts(a), dict)):
                    tgt = n
                if tgt is None:
                    continue
                uses += 1
                ok = False
                for a, t in atomic_facts(flow, n):
                    a = strip_casts(a)
                    if a.get("k") == "call" and a.get("name") == "is_open" and t:
                        ok = True
                # the failing arm must throw file_not_found_error
                thr = False
                for x in walk(f["body"]):
                    if x.get("k") == "if" and any(y.get("k") == "call" and y.get("name") == "is_open" for y in walk(x["cond"])):
                        thr = always_exits(x.get("then")) and any(y.get("k") == "throw" and "file_not_found_error" in prog.T(f, y.get("tt")) for y in walk(x["then"]))
                r2.ob("%s: %s after the open test" % (strip_targs(f["q"]), expr_str(prog, f, n)[:50]), ok and thr, "%s:%d" % (f["file"], n["l"]), f["q"],
                      "stream used without a dominating `if (!is_open()) throw file_not_found_error`")
    r2.require(4, "stream uses")

    # ------------------------------------------------------------------ R19.3 use()
    r3 = chk.rule("R19.3", "use(): the already-used test, the evaluation and the insertion lie in one critical section of the use mutex; a nested include's own file_not_found_error is rethrown; paths are tried in configured order",
                  "a file is evaluated exactly once however many threads name it; a failed nested include propagates its own error")
    uses = [f for f in eng if f["name"] == "use"]
    r3.anchor(len(uses) == 1, "ChaiScript_Basic::use")
    f = uses[0]
    chk.touched(uses)
    flow = FnFlow(f)
    loops = [n for n in walk(f["body"]) if n.get("k") == "rangefor"]
    ok = len(loops) == 1 and strip_casts(loops[0]["range"]).get("k") == "member" and strip_casts(loops[0]["range"]).get("name") == "m_use_paths"
    r3.ob("use/iterates m_use_paths in order", ok, f.where, f["q"], "use() does not range-for over the configured use paths")
    # critical section: lock object on m_use_mutex declared in the block that contains count-test, eval_file call and insert
    lock_decl = None
    for n in walk(f["body"]):
        if n.get("k") == "decl":
            for v in n["vars"]:
                if v.get("init") is not None and any(x.get("k") == "member" and x.get("name") == "m_use_mutex" for x in walk(v["init"])):
                    lock_decl = (n, v)
    r3.ob("use/locks m_use_mutex with an RAII lock", lock_decl is not None and "unique_lock<" in prog.T(f, lock_decl[1]["t"]) or
          (lock_decl is not None and "lock_guard<" in prog.T(f, lock_decl[1]["t"])), f.where, f["q"], "no RAII lock on m_use_mutex in use()")
    if lock_decl is not None:
        blk = flow.parent(lock_decl[0])
        test = [n for n in walk(blk) if n.get("k") == "call" and n.get("name") in ("count", "find", "contains") and n.get("obj") is not None and
                strip_casts(n["obj"]).get("name") == "m_used_files"]
        evals = [n for n in walk(blk) if n.get("k") == "call" and n.get("name") in ("eval_file", "internal_eval_file", "do_eval")]
        ins = [n for n in walk(blk) if n.get("k") == "call" and n.get("name") in ("insert", "emplace") and n.get("obj") is not None and
               strip_casts(n["obj"]).get("name") == "m_used_files"]
        ok = len(test) == 1 and len(evals) == 1 and len(ins) == 1 and lock_decl[0]["l"] <= test[0]["l"] <= evals[0]["l"] <= ins[0]["l"]
        # the use lock itself is never unlocked in between
        lname = lock_decl[1]["name"]
        unl = [n for n in walk(blk) if n.get("k") == "call" and n.get("name") in ("unlock", "release") and n.get("obj") is not None and
               strip_casts(n["obj"]).get("name") == lname]
        r3.ob("use/test, evaluation and insertion inside one critical section of m_use_mutex", ok and not unl, f.where, f["q"],
              "count-test / eval_file / insert are not all inside the scope of the use lock (tests %d, evals %d, inserts %d, unlocks %d)" % (
                  len(test), len(evals), len(ins), len(unl)))
        if ok:
            guarded = False
            for a, t in atomic_facts(flow, evals[0]):
                a = strip_casts(a)
                if a is test[0] and not t and test[0]["name"] in ("count", "contains"):
                    guarded = True
                if (a.get("k") == "binop" and a.get("op") in ("==", "!=")) or (a.get("k") == "call" and a.get("op") in ("==", "!=") and len(a.get("args") or []) == 2):
                    l, r = (strip_casts(a["lhs"]), strip_casts(a["rhs"])) if a.get("k") == "binop" else (strip_casts(a["args"][0]), strip_casts(a["args"][1]))
                    for x, y in ((l, r), (r, l)):
                        if x is test[0] and test[0]["name"] == "count" and y.get("k") == "lit" and y.get("v") == 0 and (a["op"] == "==") == t:
                            guarded = True
                        if x is test[0] and test[0]["name"] == "find" and y.get("k") == "call" and y.get("name") == "end" and (a["op"] == "==") == t:
                            guarded = True
            r3.ob("use/evaluation happens only under the not-yet-used test", guarded, "%s:%d" % (f["file"], evals[0]["l"]), f["q"],
                  "eval_file is not guarded by m_used_files.count(...) == 0")
            r3.ob("use/file recorded as used only after it was evaluated", flow.parent(ins[0]) is flow.parent(evals[0]) or ins[0]["l"] > evals[0]["l"],
                  "%s:%d" % (f["file"], ins[0]["l"]), f["q"], "insert precedes the evaluation")
    # handler: rethrow nested include's own error
    trys = [n for n in walk(f["body"]) if n.get("k") == "try"]
    okh = False
    why = "no handler for file_not_found_error in use()"
    for t in trys:
        for h in t["handlers"]:
            if not h.get("all") and "file_not_found_error" in prog.T(f, h.get("t")):
                why = "the file_not_found_error handler does not rethrow when the error's filename differs from the path being tried"
                # every bare `throw;` in the handler is reached exactly when the error's file name differs from the path being tried:
                # `if (e.filename != p) throw;` or `if (e.filename == p) continue; throw;`
                hflow = FnFlow(f)
                rethrows = [y for y in walk(h["body"]) if y.get("k") == "throw" and y.get("rethrow")]
                good = 0
                for y in rethrows:
                    for a, t in atomic_facts(hflow, y):
                        c = expr_str(prog, f, a)
                        if "filename" in c and (("!=" in c and t) or ("==" in c and "!=" not in c and not t)):
                            good += 1
                            break
                okh = bool(rethrows) and good == len(rethrows)
    r3.ob("use/nested include's own error is rethrown", okh, f.where, f["q"], why)
    r3.require(6, "use() obligations")

    # ------------------------------------------------------------------ R19.4 shebang
    r4 = chk.rule("R19.4", "parse_internal skips a first line only when the input starts with '#!'",
                  "the text evaluated is the file's text; only a shebang line is dropped")
    pis = [f for f in prog.fns if f["name"] == "parse_internal" and "ChaiScript_Parser<" in (f.get("cls") or "") and f["tk"] == "inst"]
    r4.anchor(pis, "ChaiScript_Parser::parse_internal")
    f = pis[0]
    chk.touched(pis[:1])
    flow = FnFlow(f)
    stmts_call = [n for n in walk(f["body"]) if n.get("k") == "call" and n.get("name") == "Statements"]
    r4.anchor(len(stmts_call) == 1, "call of Statements in parse_internal")
    adv = []
    for n in walk(f["body"]):
        if n["l"] < stmts_call[0]["l"] and ((n.get("k") == "call" and n.get("op") in ("++", "+=")) or (n.get("k") == "call" and n.get("name") in ("Eol", "SkipWS", "Eol_", "SkipComment"))):
            adv.append(n)
    r4.anchor(adv, "cursor advance before Statements (shebang skip)")
    for n in adv:
        facts = [expr_str(prog, f, a) for a, t in atomic_facts(flow, n) if t]
        ok = any("'#'" in x or "== 35" in x for x in facts) and any("'!'" in x or "== 33" in x for x in facts)
        r4.ob("parse_internal/%s before Statements only under the #! test" % expr_str(prog, f, n)[:30], ok, "%s:%d" % (f["file"], n["l"]), f["q"],
              "input is consumed before parsing without the `#!` test (facts: %s)" % facts)
    r4.require(2, "pre-parse advances")

    # ------------------------------------------------------------------ R19.6 the configured path lists keep their order
    r6 = chk.rule("R19.6", "the use-path and module-path lists reach the search loops in the order the embedder configured: what initialises them passes the given vector through "
                           "(or substitutes the one-element default for an empty one), and afterwards single elements are inserted, nothing is sorted, erased, swapped or reassigned",
                  "use() / eval_file() search the configured use paths in order: the first configured directory that has the file wins")
    CBQ = "chaiscript::ChaiScript_Basic"
    FIELDS = {CBQ + "::m_use_paths", CBQ + "::m_module_paths"}
    KEEP = {"empty", "size", "begin", "end", "cbegin", "cend", "push_back", "emplace_back", "insert", "operator[]", "at", "front", "back", "data"}
    ctors = [f for f in prog.fns if f.get("cls") == CBQ and f["kind"] == "ctor" and not f.get("implicit") and f["tk"] != "pattern"]
    r6.anchor(ctors, "ChaiScript_Basic constructors")
    seen6 = set()
    ninit = 0
    for c in ctors:
        for i in c.get("inits", []):
            if i.get("fq") not in FIELDS:
                continue
            init = strip_casts(i.get("init") or {})
            while init.get("k") == "construct" and init.get("args") and len(init["args"]) == 1:
                init = strip_casts(init["args"][0])
            short = i["fq"].split("::")[-1]
            if init.get("k") == "call" and init.get("fn") is not None:
                g = prog.fn_by_id(c, init["fn"])
                key = (short, g["q"] if g else "?")
                if key in seen6:
                    continue
                seen6.add(key)
                ninit += 1
                if g is None or not g.get("body"):
                    r6.ob("%s is initialised through %s" % (short, init.get("name")), False, c.where, c["q"], "initialiser not analysable")
                    continue
                chk.touched([g, c])
                pv = {p.get("vid") for p in g["params"]} if g.get("params") else set()
                bad = []
                for n in walk(g["body"]):
                    if n.get("k") != "call":
                        continue
                    touches = [x for x in walk(n) if x.get("k") == "ref" and x.get("rk") == "param"]
                    if not touches:
                        continue
                    nm = n.get("name")
                    if nm in ("move", "forward") or nm in KEEP:
                        continue
                    bad.append("%s (line %d)" % (expr_str(prog, g, n)[:60], n["l"]))
                rets = [n for n in walk(g["body"]) if n.get("k") == "return" and n.get("e") is not None]
                passes = any(any(x.get("k") == "ref" and x.get("rk") == "param" for x in walk(r_["e"])) for r_ in rets)
                r6.ob("%s: %s hands the configured vector through unchanged" % (short, strip_targs(g["q"]).split("::")[-1]), passes and not bad, g.where, g["q"],
                      "operations on the configured vector before it is stored: %s - the order in which the embedder listed the directories is lost (or entries are dropped)" % (bad or "it is not returned"))
            else:
                ninit += 1
                okd = init.get("k") == "ref" and init.get("rk") == "param" or (init.get("k") == "call" and init.get("name") == "move")
                r6.ob("%s is initialised from the constructor's parameter" % short, bool(okd), c.where, c["q"], "initialised from `%s`" % expr_str(prog, c, init)[:80])
    nmut = 0
    for f in prog.fns:
        if f["tk"] == "pattern" or not f["file"].startswith("include/"):
            continue
        for n in walk(f["body"]):
            tgt = None
            if n.get("k") == "call" and n.get("obj") is not None and strip_casts(n["obj"]).get("q") in FIELDS:
                tgt, op = strip_casts(n["obj"]), n.get("name")
            elif n.get("k") == "assign" and strip_casts(n["lhs"]).get("q") in FIELDS:
                tgt, op = strip_casts(n["lhs"]), "operator="
            elif n.get("k") == "call" and n.get("obj") is None and any(x.get("k") == "member" and x.get("q") in FIELDS for a in n.get("args") or [] for x in walk(a)) and \
                    n.get("name") in ("sort", "stable_sort", "unique", "reverse", "rotate", "shuffle", "swap", "remove", "remove_if", "partition", "stable_partition", "nth_element", "partial_sort", "erase"):
                tgt, op = next(x for a in n["args"] for x in walk(a) if x.get("k") == "member" and x.get("q") in FIELDS), n.get("name")
            if tgt is None or op in ("empty", "size", "begin", "end", "cbegin", "cend", "operator[]", "at", "front", "back", "data"):
                continue
            nmut += 1
            ident = "%s: %s.%s" % (strip_targs(f["q"]), tgt["q"].split("::")[-1], op)
            if ident in seen6:
                continue
            seen6.add(ident)
            single = op in ("push_back", "emplace_back") or (op == "insert" and len([a for a in n.get("args") or [] if a.get("k") != "defarg"]) == 2)
            r6.ob(ident + " adds a single element", single, "%s:%d" % (f["file"], n["l"]), f["q"],
                  "`%s` can reorder or drop configured directories" % expr_str(prog, f, n)[:80])
    r6.anchor(ninit >= 2, "initialisations of m_use_paths / m_module_paths (found %d)" % ninit)
    r6.require(2, "obligations")
