"""Shared by C02 R2.1 and C11 R11.1: where does library code build a *non-owning* Boxed_Value, and what does it refer to?

A Boxed_Value built from a pointer or a std::reference_wrapper does not keep its referent alive
(Object_Data::get(T*) / get(reference_wrapper<T>)).  Script code can keep any Boxed_Value it is handed for as
long as it likes (reference assignment, capture, container insertion, global), so the referent must outlive the
evaluation.  The classifier names the storage class of the referent from the expression alone.
"""
from ..ir import walk, strip_targs
from ..flow import strip_casts, expr_str, FnFlow
from ..paths import ref_inits

ELEMENT = {"operator[]", "at", "front", "back", "get", "operator*", "operator->", "value", "first", "second"}


def sites(prog, fns):
    """yield (fn, node, referent expression, how) for every non-owning Boxed_Value construction"""
    for f in fns:
        if f["tk"] == "pattern":
            continue
        for n in walk(f["body"]):
            k = n.get("k")
            if k == "call" and n.get("name") in ("ref", "cref") and n.get("obj") is None and len(n.get("args", [])) == 1:
                d = prog.decl(f, n.get("fn")) if n.get("fn") is not None else None
                q = (d or {}).get("q", "")
                if q.startswith("std::ref") or q.startswith("std::cref"):
                    yield f, n, n["args"][0], "std::" + n["name"]
            elif (k == "call" and n.get("name") in ("var", "const_var") and n.get("obj") is None) or \
                    (k == "construct" and strip_targs(prog.T(f, n.get("t"))) == "chaiscript::Boxed_Value"):
                args = [a for a in n.get("args", []) if a.get("k") != "defarg"]
                if not args:
                    continue
                a = strip_casts(args[0])
                if isinstance(a, dict) and a.get("k") == "unop" and a.get("op") == "&":
                    yield f, n, a["e"], (n.get("name") or "Boxed_Value") + "(&x)"


class Classifier:
    def __init__(self, prog, f):
        self.prog, self.f = prog, f
        self.locals = ref_inits(f)
        self.handler_vids = {h["vid"]: h for t in walk(f["body"]) if t.get("k") == "try" for h in t["handlers"] if h.get("vid") is not None}
        self.rangefor = {n["var"]["vid"]: n for n in walk(f["body"]) if n.get("k") == "rangefor" and n.get("var")}

    def classify(self, e, depth=0):
        """-> (class, detail).  classes: automatic | catch | loop-element | handle-owned | caller | member | static | call-result | unknown"""
        prog, f = self.prog, self.f
        e = strip_casts(e)
        if not isinstance(e, dict) or depth > 12:
            return "unknown", ""
        k = e.get("k")
        if k == "this":
            return "member", "*this"
        if k == "ref":
            rk = e.get("rk")
            vid = e.get("vid")
            if rk in ("global", "staticlocal", "enum", "func"):
                return "static", e.get("name", "")
            if rk == "field":
                return "member", e.get("name", "")
            if rk == "param":
                t = prog.T(f, e.get("t")) if isinstance(e.get("t"), int) else ""
                p = next((p for p in f["params"] if p.get("vid") == vid), None)
                pt = prog.T(f, p["t"]) if p else t
                if pt.rstrip().endswith("&") or pt.rstrip().endswith("*") or "reference_wrapper<" in pt or "(&)" in pt or "(&&)" in pt or "(*)" in pt:
                    return "caller", "parameter %s (%s)" % (e.get("name"), pt[:60])
                return "automatic", "by-value parameter %s of %s" % (e.get("name"), strip_targs(f["q"]).split("::")[-1])
            if rk in ("local", "binding"):
                if vid in self.handler_vids:
                    return "catch", "catch parameter %s" % e.get("name")
                if vid in self.rangefor:
                    rf = self.rangefor[vid]
                    if rf["var"].get("ref"):
                        c, d = self.classify(rf["range"], depth + 1)
                        return ("loop-element" if c in ("caller", "handle-owned", "automatic", "unknown", "call-result") else c), \
                            "loop variable %s over %s (%s)" % (e.get("name"), expr_str(prog, f, rf["range"])[:40], d)
                    return "automatic", "by-value loop variable %s" % e.get("name")
                v = self.locals.get(vid)
                if v is None:
                    return "unknown", "local %s" % e.get("name")
                t = prog.T(f, v["t"]) if v.get("t") is not None else ""
                if v.get("static") or v.get("tls"):
                    return "static", e.get("name", "")
                if (v.get("ref") or t.rstrip().endswith("*")) and v.get("init") is not None:
                    return self.classify(v["init"], depth + 1)
                return "automatic", "local variable %s of %s" % (e.get("name"), strip_targs(f["q"]).split("::")[-1])
            return "unknown", ""
        if k == "member":
            b = e.get("base")
            if b is None:
                return "member", e.get("name", "")
            c, d = self.classify(b, depth + 1)
            return c, d
        if k == "unop" and e.get("op") in ("*", "&"):
            return self.classify(e["e"], depth + 1)
        if k == "subscript":
            return self.classify(e["base"], depth + 1)
        if k == "call":
            name = e.get("name")
            if name in ("forward", "move", "addressof", "as_const") and e.get("args"):
                return self.classify(e["args"][0], depth + 1)
            obj = e.get("obj")
            if obj is not None and (name in ELEMENT or e.get("op") in ("[]", "*", "->")):
                return self.classify(obj, depth + 1)
            if e.get("op") in ("*", "->") and e.get("args"):
                return self.classify(e["args"][0], depth + 1)
            if name == "boxed_cast" and e.get("args"):
                # a reference obtained from a Boxed_Value handle lives as long as that handle's object
                c, d = self.classify(e["args"][0], depth + 1)
                if c == "automatic":
                    return "handle-owned", "object owned by the local handle %s" % expr_str(prog, f, e["args"][0])[:40]
                return c, d
            return "call-result", expr_str(prog, f, e)[:60]
        if k == "construct":
            return "automatic", "temporary %s" % expr_str(prog, f, e)[:40]
        return "unknown", k or ""


def lambda_param_args(prog, f, lam_fn):
    """for a local closure lam_fn defined in f: the argument expressions it is called with in f, per parameter index"""
    out = {}
    for n in walk(f["body"]):
        if n.get("k") == "call" and n.get("fn") is not None and prog.fn_by_id(f, n["fn"]) is lam_fn:
            for i, a in enumerate(n.get("args", [])):
                out.setdefault(i, []).append(a)
    return out


def enclosing_function(prog, lam):
    """the function in whose body the closure `lam` is written (by qualified-name prefix)"""
    q = lam["q"]
    idx = q.rfind("::<lambda#")
    if idx < 0:
        return None
    owner = q[:idx]
    cands = [g for g in prog.fns if g["q"] == owner and g["unit"] == lam["unit"]]
    return cands[0] if cands else None


def classify_site(prog, f, referent):
    """classification that also looks through one level of local-closure parameters"""
    cl = Classifier(prog, f)
    c, d = cl.classify(referent)
    if c in ("caller", "loop-element") and f.get("kind") == "lambda":
        # a closure parameter is whatever the enclosing function passes
        enc = enclosing_function(prog, f)
        if enc is not None:
            base = strip_casts(referent)
            rf = None
            if base.get("k") == "ref" and base.get("vid") in cl.rangefor:
                rf = cl.rangefor[base["vid"]]
                base = strip_casts(rf["range"])
            if base.get("k") == "ref" and base.get("rk") == "param":
                args = lambda_param_args(prog, enc, f).get(base.get("idx"), [])
                ecl = Classifier(prog, enc)
                res = [ecl.classify(a) for a in args]
                worst = [r for r in res if r[0] in ("automatic", "handle-owned", "catch")]
                if worst:
                    c2, d2 = worst[0]
                    return ("loop-element:" + c2 if rf is not None else c2), (d + "; the closure is called with " + d2)
    if c == "caller" and f.get("kind") != "lambda" and (f["q"].startswith("chaiscript::eval::") or f["q"].startswith("chaiscript::optimizer::")):
        # a helper of the evaluator that boxes its reference parameter: look at what its callers pass (one level)
        base = strip_casts(referent)
        while base.get("k") in ("unop",) and base.get("op") in ("*", "&"):
            base = strip_casts(base["e"])
        if base.get("k") == "ref" and base.get("rk") == "param":
            for g in prog.fns:
                if g["tk"] == "pattern" or g["unit"] != f["unit"] or not g["q"].startswith("chaiscript::"):
                    continue
                for n in walk(g["body"]):
                    if n.get("k") == "call" and n.get("fn") == f["id"] and base.get("idx") is not None and base["idx"] < len(n.get("args", [])):
                        c2, d2 = Classifier(prog, g).classify(n["args"][base["idx"]])
                        if c2 in ("automatic", "catch", "handle-owned"):
                            return c2, d + "; %s passes %s" % (strip_targs(g["q"]).split("::")[-1], d2)
    return c, d
