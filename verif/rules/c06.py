"""C06  C++ functions are only ever entered with correctly typed arguments.

Decided: the trusted kernel through which every argument and result passes is type-checked and nothing
bypasses it, over every template instantiation the catalogue TU produces.  Not decided: overload *ranking*
among several viable candidates (value-dependent ordering).
"""
import re

from ..ir import walk, strip_targs, AnalysisBroken
from ..flow import FnFlow, strip_casts, expr_str, always_exits, atomic_facts, same_var
from ..analysis import norm_type

CH = "chaiscript::detail::Cast_Helper_Inner"


def split_targs(s):
    """split a printed template-argument list at top-level commas"""
    out, depth, cur = [], 0, ""
    for ch in s:
        if ch in "<([":
            depth += 1
        elif ch in ">)]":
            depth -= 1
        if ch == "," and depth == 0:
            out.append(cur.strip())
            cur = ""
        else:
            cur += ch
    if cur.strip():
        out.append(cur.strip())
    return out


def cls_arg(cls):
    return cls[cls.index("<") + 1:cls.rindex(">")].strip() if "<" in cls else ""


def bare(t):
    t = t.strip()
    if "(&)" in t or "(&&)" in t or "(*)" in t:
        return re.sub(r"^const\s+", "", t.replace(" (&)", "").replace(" (&&)", "").replace(" (*)", "")).strip()
    t = re.sub(r"^const\s+", "", t)
    t = re.sub(r"\s*(&&|&|\*)\s*(const)?\s*(&)?$", "", t)
    t = re.sub(r"\s+const$", "", t)
    return t.strip()


def run(chk):
    prog = chk.program()
    chk.explanation = ("Rules over every instantiation of the call kernel (call_func), the cast kernel (Cast_Helper_Inner, verify_type, "
                       "Any::cast, Static/Dynamic casters) and the C++-receives direction (eval<T>, boxed_cast<T>, function-object "
                       "callers): argument k of the wrapped callable is boxed_cast<Param_k>(params[k]); mutable results come from the "
                       "const-checking verifier over get_ptr(), const results from get_const_ptr(); the typeid tested is the "
                       "specialisation's own result type; do_call is reachable only through the arity-checking operator(); the "
                       "dispatch loops call the selected overload as the operand of return and swallow only the three engine "
                       "errors that mean 'try the next overload'.")
    chk.assume("template instantiations exist for the shapes the catalogue TU registers (value, const&, &, *, const*, shared_ptr, shared_ptr<const>, unique_ptr&, std::function, all arithmetic types, bool, string, base/derived classes, conversions)")

    # ------------------------------------------------------------------ R6.1
    r1 = chk.rule("R6.1", "in every instantiation of call_func, argument k of the callable is boxed_cast<Params_k>(params[k], &conversions)",
                  "a registered function receives each parameter as its declared type, converted from exactly the script value in that position")
    cfs = [f for f in prog.fns if strip_targs(f["q"]) == "chaiscript::dispatch::detail::call_func" and f["tk"] == "inst" and len(f["params"]) == 5]
    r1.anchor(len(cfs) > 100, "instantiations of call_func(sig, index_sequence, f, params, conversions) (found %d)" % len(cfs))
    bad1 = []
    nargs = 0
    for f in cfs:
        targs = f.get("targs") or []
        ptypes = unpack(targs[2]) if len(targs) > 2 else []
        n = len(ptypes)
        calls = [x for x in walk(f["body"]) if x.get("k") == "return"]
        if len(calls) != 1:
            bad1.append((f, "not a single return"))
            continue
        c = strip_casts(calls[0].get("e"))
        while c.get("k") == "construct" and c.get("args"):
            c = strip_casts(c["args"][0])
        if c.get("k") != "call":
            if n == 0 and c.get("k") in ("call",):
                continue
            bad1.append((f, "return is not a call of the callable"))
            continue
        args = c.get("args", [])
        if c.get("indirect") and c.get("calleeexpr") is not None and strip_casts(c["calleeexpr"]).get("k") in ("binop",):
            pass
        if len(args) != n:
            # member-function callables take the object as first boxed_cast argument as well: same count
            bad1.append((f, "callable receives %d arguments for %d parameters" % (len(args), n)))
            continue
        for k, a in enumerate(args):
            nargs += 1
            a = strip_casts(a)
            while a.get("k") == "construct" and len(a.get("args", [])) == 1:
                a = strip_casts(a["args"][0])
            while a.get("k") == "call" and a.get("name") in ("operator std::shared_ptr<", ) :
                a = strip_casts(a.get("obj"))
            bc = a if (a.get("k") == "call" and a.get("name") == "boxed_cast") else next((x for x in walk(a) if x.get("k") == "call" and x.get("name") == "boxed_cast"), None)
            if bc is None:
                bad1.append((f, "argument %d is not a boxed_cast" % k))
                continue
            d = prog.decl(f, bc.get("fn"))
            t = (d.get("targs") or ["?"])[0] if d else "?"
            if norm_ws(t) != norm_ws(ptypes[k]):
                bad1.append((f, "argument %d is boxed_cast<%s>, the parameter type is %s" % (k, t, ptypes[k])))
            src = strip_casts(bc["args"][0]) if bc.get("args") else {}
            idx = None
            if src.get("k") == "call" and src.get("op") == "[]" and src.get("args"):
                idx = strip_casts(src["args"][0]).get("v")
            if idx != k:
                bad1.append((f, "argument %d is converted from params[%s]" % (k, idx)))
            if len(bc.get("args", [])) < 2 or "t_conversions" not in expr_str(prog, f, bc["args"][1]):
                bad1.append((f, "argument %d is cast without the conversions state" % k))
    chk.touched(cfs)
    r1.ob("chaiscript::dispatch::detail::call_func: every argument is boxed_cast<Params_k>(params[k], &t_conversions) (%d instantiations, %d arguments)" % (len(cfs), nargs),
          not bad1, bad1[0][0].where if bad1 else cfs[0].where, bad1[0][0]["q"] if bad1 else "", "; ".join(sorted({b[1] for b in bad1}))[:400])
    # compare_types_cast casts the same types
    cts = [f for f in prog.fns if strip_targs(f["q"]) == "chaiscript::dispatch::detail::compare_types_cast" and f["tk"] == "inst"]
    bad = []
    for f in cts:
        targs = f.get("targs") or []
        ptypes = unpack(targs[1]) if len(targs) > 1 else []
        got = []
        for x in walk(f["body"]):
            if x.get("k") == "call" and x.get("name") == "boxed_cast":
                d = prog.decl(f, x.get("fn"))
                got.append((d.get("targs") or ["?"])[0] if d else "?")
        if [norm_ws(t) for t in got] != [norm_ws(t) for t in ptypes]:
            bad.append((f, "casts %s for parameters %s" % (got, ptypes)))
    chk.touched(cts)
    r1.ob("chaiscript::dispatch::detail::compare_types_cast probes exactly the parameter types (%d instantiations)" % len(cts), not bad and len(cts) > 100,
          bad[0][0].where if bad else "", bad[0][0]["q"] if bad else "", bad[0][1] if bad else "")
    r1.require(2, "kernel obligations")

    # ------------------------------------------------------------------ R6.2 who may call do_call
    r2 = chk.rule("R6.2", "do_call implementations are invoked only through Proxy_Function_Base::operator(), behind the arity test",
                  "a call with the wrong number of arguments raises an error without entering any function")
    ops = [f for f in prog.fns if f["name"] == "operator()" and f.get("cls") == "chaiscript::dispatch::Proxy_Function_Base"]
    r2.anchor(len(ops) == 1, "Proxy_Function_Base::operator()")
    f = ops[0]
    flow = FnFlow(f)
    dc = [n for n in walk(f["body"]) if n.get("k") == "call" and n.get("name") == "do_call"]
    ok = len(dc) == 1
    if ok:
        conds = [c for c, t in flow.facts(dc[0]) if t]
        ok = len(conds) == 1
        if ok:
            def disjuncts(c):
                c = strip_casts(c)
                if c.get("k") == "binop" and c.get("op") == "||":
                    return disjuncts(c["lhs"]) + disjuncts(c["rhs"])
                return [c]
            for dj in disjuncts(conds[0]):
                txt = expr_str(prog, f, dj)
                variadic = dj.get("k") == "binop" and dj.get("op") == "<" and "m_arity" in expr_str(prog, f, dj["lhs"]) and strip_casts(dj["rhs"]).get("v") == 0
                equal = dj.get("k") == "binop" and dj.get("op") == "==" and "m_arity" in txt and "params.size()" in txt
                if not (variadic or equal):
                    ok = False
    r2.ob("Proxy_Function_Base::operator() calls do_call only when the arity matches (or is variadic)", ok, f.where, f["q"], "do_call is reached without the arity test")
    thr = [n for n in walk(f["body"]) if n.get("k") == "throw" and "arity_error" in prog.T(f, n.get("tt"))]
    r2.ob("Proxy_Function_Base::operator() throws arity_error otherwise", len(thr) == 1, f.where, f["q"], "no arity_error on mismatch")
    callers = {}
    for g in prog.fns:
        if g["tk"] == "pattern":
            continue
        for n in walk(g["body"]):
            if n.get("k") == "call" and n.get("name") == "do_call" and n.get("fn") is not None:
                d = prog.decl(g, n["fn"])
                if d is not None and "Proxy_Function" in (d.get("cls") or "") or (d is not None and "Dynamic_Object" in (d.get("cls") or "")) or (d is not None and "Attribute_Access" in (d.get("cls") or "")) or (d is not None and "Bound_Function" in (d.get("cls") or "")):
                    callers.setdefault(strip_targs(g["q"]), (g, n))
    for q, (g, n) in sorted(callers.items()):
        r2.ob("%s calls do_call" % q, q == "chaiscript::dispatch::Proxy_Function_Base::operator()", "%s:%d" % (g["file"], n["l"]), g["q"],
              "do_call invoked directly: the arity test of operator() is bypassed")
    r2.require(3, "obligations")

    # ------------------------------------------------------------------ R6.3 cast kernel, siblings cross-checked
    r3 = chk.rule("R6.3", "every Cast_Helper_Inner specialisation derives its result from the verifier with typeid(Result) and the pointer of matching constness, or from Any::cast of the exact smart-pointer type",
                  "boxed_cast<T> hands a value to C++ only as its actual type")
    casts = [f for f in prog.fns if strip_targs(f.get("cls") or "") == CH and f["name"] == "cast" and f["tk"] == "inst"]
    r3.anchor(len(casts) > 100, "Cast_Helper_Inner<...>::cast instantiations (found %d)" % len(casts))
    groups = {}
    for f in casts:
        arg = cls_arg(f["cls"])
        form = cast_form(arg)
        ok, why = check_cast(prog, f, arg, form)
        e = groups.setdefault(form, {"ok": True, "n": 0, "f": f, "why": ""})
        e["n"] += 1
        if not ok and e["ok"]:
            e.update(ok=False, f=f, why=why)
    chk.touched(casts)
    for form, e in sorted(groups.items()):
        r3.ob("Cast_Helper_Inner<%s>::cast (%d instantiations)" % (form, e["n"]), e["ok"], e["f"].where, e["f"]["q"], e["why"])
    r3.require(8, "specialisation forms")

    # ------------------------------------------------------------------ R6.4
    r4 = chk.rule("R6.4", "Any::cast compares typeid(ToType) with the stored type before the static_cast; Static_Caster / Dynamic_Caster test the source type before casting",
                  "a stored object is reinterpreted only as the type it was stored as (or a registered base/derived relation)")
    acs = [f for f in prog.fns if f["name"] == "cast" and f.get("cls") == "chaiscript::detail::Any" and f["tk"] == "inst"]
    r4.anchor(len(acs) > 20, "Any::cast instantiations")
    bad = None
    for f in acs:
        flow = FnFlow(f)
        targ = (f.get("targs") or ["?"])[0]
        for n in walk(f["body"]):
            if n.get("k") == "cast" and n.get("ck") == "static" and prog.T(f, n.get("t")).endswith("*"):
                okf = False
                for a, t in atomic_facts(flow, n):
                    txt = expr_str(prog, f, a)
                    if t and "<typeid>" in txt and "type()" in txt and "==" in txt:
                        tid = next((x for x in walk(a) if x.get("k") == "typeid"), None)
                        if tid is not None and norm_ws(prog.T(f, tid.get("of"))) == norm_ws(targ):
                            okf = True
                if not okf and bad is None:
                    bad = f
    chk.touched(acs)
    r4.ob("chaiscript::detail::Any::cast<T> casts only under typeid(T) == stored type (%d instantiations)" % len(acs), bad is None, bad.where if bad else acs[0].where, bad["q"] if bad else "",
          "static_cast of the stored object without the exact type test")
    for cname in ("Static_Caster", "Dynamic_Caster"):
        fs = [f for f in prog.fns if strip_targs(f.get("cls") or "") == "chaiscript::detail::" + cname and f["name"] == "cast" and f["tk"] == "inst"]
        if not fs:
            continue
        badc = None
        for f in fs:
            flow = FnFlow(f)
            for n in walk(f["body"]):
                if n.get("k") == "call" and n.get("name") in ("static_pointer_cast", "dynamic_pointer_cast") or (n.get("k") == "cast" and n.get("ck") in ("static", "dynamic") and prog.T(f, n.get("t")).rstrip().endswith(("&", "*")) and "From" not in ""):
                    facts = [expr_str(prog, f, a) for a, t in atomic_facts(flow, n) if t]
                    if not any("bare_equal" in x and "user_type" in x for x in facts):
                        if f.get("noexcept") is None and badc is None and n.get("k") == "call":
                            badc = (f, n)
        chk.touched(fs)
        r4.ob("chaiscript::detail::%s::cast converts only under bare_equal(user_type<From>()) (%d instantiations)" % (cname, len(fs)), badc is None,
              "%s:%d" % (badc[0]["file"], badc[1]["l"]) if badc else fs[0].where, badc[0]["q"] if badc else "", "pointer cast without the source-type test")
    r4.require(2, "obligations")

    # ------------------------------------------------------------------ R6.5 C++ receives
    r5 = chk.rule("R6.5", "eval<T>, ChaiScript_Basic::boxed_cast<T> and the std::function callers return only boxed_cast<Ret>(...) or Boxed_Number(...).get_as<Ret>() for arithmetic Ret",
                  "eval<T>, boxed_cast<T> and std::function wrappers hand a value to C++ only as its actual type or through the same conversions")
    groups5 = {}
    for f in prog.fns:
        if f["tk"] != "inst":
            continue
        q = strip_targs(f["q"])
        if q in ("chaiscript::ChaiScript_Basic::eval", "chaiscript::ChaiScript_Basic::eval_file", "chaiscript::ChaiScript_Basic::boxed_cast",
                 "chaiscript::dispatch::detail::Build_Function_Caller_Helper::call", "chaiscript::detail::Dispatch_Engine::boxed_cast"):
            ret = prog.T(f, f["ret"])
            if ret in ("chaiscript::Boxed_Value", "void"):
                continue
            okf = True
            why = ""
            for n in walk(f["body"]):
                if n.get("k") == "return" and n.get("e") is not None:
                    e = strip_casts(n["e"])
                    while e.get("k") == "construct" and len(e.get("args", [])) == 1:
                        e = strip_casts(e["args"][0])
                    if e.get("k") == "call" and e.get("name") == "boxed_cast":
                        d = prog.decl(f, e.get("fn"))
                        t = (d.get("targs") or ["?"])[0] if d else "?"
                        if norm_ws(t) != norm_ws(ret) and norm_ws(bare(t)) != norm_ws(bare(ret)):
                            okf, why = False, "returns boxed_cast<%s> as %s" % (t, ret)
                    elif e.get("k") == "call" and e.get("name") == "get_as":
                        d = prog.decl(f, e.get("fn"))
                        t = (d.get("targs") or ["?"])[0] if d else "?"
                        if norm_ws(t) != norm_ws(ret):
                            okf, why = False, "returns get_as<%s> as %s" % (t, ret)
                    else:
                        okf, why = False, "returns %s" % expr_str(prog, f, e)[:60]
            e = groups5.setdefault(q, {"ok": True, "n": 0, "f": f, "why": ""})
            e["n"] += 1
            if not okf and e["ok"]:
                e.update(ok=False, f=f, why=why)
            chk.touched([f])
    for q, e in sorted(groups5.items()):
        r5.ob("%s<T> returns only a checked cast of the script value (%d instantiations)" % (q, e["n"]), e["ok"], e["f"].where, e["f"]["q"], e["why"])
    r5.require(3, "receiving entry points")

    # ------------------------------------------------------------------ R6.6 dispatch
    r6 = chk.rule("R6.6", "dispatch / dispatch_with_conversions: the selected overload is called as the operand of return (entered once, its result is the call's result); only bad_boxed_cast, arity_error and guard_error mean 'try the next overload'",
                  "each call enters exactly one overload exactly once; with no compatible overload an error is raised")
    ds = [f for f in prog.fns if strip_targs(f["q"]) in ("chaiscript::dispatch::dispatch", "chaiscript::dispatch::detail::dispatch_with_conversions") and f["tk"] == "inst"]
    r6.anchor(len(ds) >= 2, "dispatch / dispatch_with_conversions")
    seen6 = set()
    for f in ds:
        q = strip_targs(f["q"])
        flow = FnFlow(f)
        for n in walk(f["body"]):
            if n.get("k") == "call" and n.get("op") == "()" and n.get("fn") is not None:
                d = prog.decl(f, n["fn"])
                if d is None or d.get("cls") != "chaiscript::dispatch::Proxy_Function_Base":
                    continue
                par = flow.parent(n)
                while par is not None and par.get("k") in ("cast", "construct"):
                    par = flow.parent(par)
                is_ret = par is not None and par.get("k") == "return"
                tr = flow.enclosing(n, "try")
                hs = sorted(norm_type(prog.T(f, h["bt"])).split("::")[-1] for h in tr["handlers"] if not h.get("all")) if tr else []
                catch_all = bool(tr) and any(h.get("all") for h in tr["handlers"])
                okd = is_ret and hs == ["arity_error", "bad_boxed_cast", "guard_error"] and not catch_all
                key = (q, okd)
                if key in seen6:
                    continue
                seen6.add(key)
                r6.ob("%s: overload call is `return (*f)(params)` inside try{bad_boxed_cast, arity_error, guard_error}" % q, okd, "%s:%d" % (f["file"], n["l"]), f["q"],
                      "call is %sthe operand of return; handlers %s%s" % ("" if is_ret else "not ", hs, " + catch(...)" if catch_all else ""))
        # falls through to dispatch_error
        last_throw = [n for n in walk(f["body"]) if n.get("k") == "throw" and "dispatch_error" in prog.T(f, n.get("tt"))]
        if q.endswith("dispatch_with_conversions") and ("x", q) not in seen6:
            seen6.add(("x", q))
            r6.ob("%s: raises dispatch_error when nothing matched" % q, len(last_throw) >= 1, f.where, f["q"], "no dispatch_error")
    chk.touched(ds)
    r6.require(3, "dispatch obligations")

    # ------------------------------------------------------------------ R6.7 exact matches first
    r7 = chk.rule("R6.7", "dispatch ranks candidates by the number of parameters whose bare type differs from the argument's and tries rank 0 (exact matches) first, then 1, 2, ...; an exact candidate is entered without a conversion filter",
                  "when an overload matches the argument types exactly it is the one chosen")
    dfs = [f for f in ds if strip_targs(f["q"]) == "chaiscript::dispatch::dispatch"]
    seen7 = set()
    for f in dfs:
        flow = FnFlow(f)
        # the rank: a local counter incremented exactly under `!param_type.bare_equal(arg_type)`
        incs = [n for n in walk(f["body"]) if n.get("k") == "unop" and n.get("op") == "++" and strip_casts(n["e"]).get("k") == "ref" and strip_casts(n["e"]).get("rk") == "local"]
        rank_ok = False
        rank_var = None
        for n in incs:
            facts = [(strip_casts(c), t) for c, t in flow.facts(n)]
            for c, t in facts:
                if c.get("k") == "unop" and c.get("op") == "!" and t:
                    inner = strip_casts(c["e"])
                    if inner.get("k") == "call" and inner.get("name") == "bare_equal" and "get_param_types" in expr_str(prog, f, inner) and "get_type_info" in expr_str(prog, f, inner):
                        rank_ok = True
                        rank_var = strip_casts(n["e"]).get("vid")
        stored = any(n.get("k") == "call" and n.get("name") == "emplace_back" and n.get("args") and strip_casts(n["args"][0]).get("vid") == rank_var for n in walk(f["body"])) if rank_var else False
        if not rank_ok:
            # the count may live in a local closure `count(param_types)` that is applied to func->get_param_types() and whose result is stored
            for lam in (x for x in prog.fns if x.get("kind") == "lambda" and x["unit"] == f["unit"] and strip_targs(x["q"]).startswith(strip_targs(f["q"]) + "::<lambda")):
                lflow = FnFlow(lam)
                lincs = [n for n in walk(lam["body"]) if n.get("k") == "unop" and n.get("op") == "++" and strip_casts(n["e"]).get("rk") == "local"]
                counted = None
                for n in lincs:
                    for c, t in lflow.facts(n):
                        c = strip_casts(c)
                        if c.get("k") == "unop" and c.get("op") == "!" and t:
                            inner = strip_casts(c["e"])
                            if inner.get("k") == "call" and inner.get("name") == "bare_equal" and "get_type_info" in expr_str(prog, lam, inner) and \
                                    any(x.get("k") == "ref" and x.get("rk") == "param" for x in walk(inner.get("obj") or {})):
                                counted = strip_casts(n["e"]).get("vid")
                returns_count = counted is not None and any(n.get("k") == "return" and n.get("e") is not None and strip_casts(n["e"]).get("vid") == counted for n in walk(lam["body"]))
                if not returns_count:
                    continue
                for n in walk(f["body"]):
                    if n.get("k") == "call" and n.get("name") == "emplace_back" and n.get("args"):
                        a0 = strip_casts(n["args"][0])
                        if a0.get("k") == "call" and a0.get("op") == "()" and a0.get("fn") is not None and (prog.fn_by_id(f, a0["fn"]) or {}).get("q") == lam["q"] and \
                                "get_param_types" in expr_str(prog, f, a0):
                            rank_ok = stored = True
        # the attempt loop: i from 0 upward, attempt only candidates whose rank == i
        loops = [n for n in walk(f["body"]) if n.get("k") == "for" and any(x.get("k") == "call" and x.get("op") == "()" for x in walk(n.get("body") or {}))]
        order_ok = False
        gate_ok = False
        exact_unfiltered = False
        for lp in loops:
            init = lp.get("init") or {}
            iv = init.get("vars", [{}])[0] if init.get("k") == "decl" else {}
            start = strip_casts(iv.get("init") or {})
            inc = strip_casts(lp.get("inc") or {})
            if start.get("k") == "lit" and start.get("v") == 0 and inc.get("k") == "unop" and inc.get("op") == "++" and strip_casts(inc["e"]).get("vid") == iv.get("vid"):
                order_ok = True
                for n in walk(lp["body"]):
                    if n.get("k") == "call" and n.get("op") == "()" and n.get("fn") is not None:
                        for c, t in flow.facts(n):
                            for a in conjuncts(c):
                                a = strip_casts(a)
                                if t and a.get("k") == "binop" and a.get("op") == "==" and {strip_casts(a["lhs"]).get("vid"), strip_casts(a["rhs"]).get("vid")} & {iv.get("vid")} and \
                                        any(strip_casts(x).get("k") == "member" and strip_casts(x).get("name") == "first" for x in (a["lhs"], a["rhs"])):
                                    gate_ok = True
                                if t and a.get("k") == "binop" and a.get("op") == "||":
                                    l = strip_casts(a["lhs"])
                                    if l.get("k") == "binop" and l.get("op") == "==" and strip_casts(l["rhs"]).get("v") == 0 and strip_casts(l["lhs"]).get("vid") == iv.get("vid"):
                                        exact_unfiltered = True
        key = (rank_ok, stored, order_ok, gate_ok)
        if key in seen7:
            continue
        seen7.add(key)
        r7.ob("dispatch: a candidate's rank counts the parameters whose bare type differs from the argument's", rank_ok and stored, f.where, f["q"],
              "rank counter under `!param.bare_equal(arg)`: %s; stored with the candidate: %s" % (rank_ok, stored))
        r7.ob("dispatch: ranks are tried in ascending order starting with 0, a candidate only at its own rank", order_ok and gate_ok, f.where, f["q"],
              "ascending loop from 0: %s; call guarded by rank == i: %s" % (order_ok, gate_ok))
        r7.ob("dispatch: an exact candidate (rank 0) is not subject to the conversion filter", exact_unfiltered, f.where, f["q"], "no `i == 0 || filter(...)` guard")
    r7.require(3, "obligations")

    # ------------------------------------------------------------------ R6.8 who may reinterpret the raw data pointer
    r8 = chk.rule("R6.8", "the untyped data pointer of a Boxed_Value (get_ptr / get_const_ptr) is cast to a typed pointer only in the verified cast kernel, in the arithmetic kernel, or under a dominating test that the box holds exactly that type",
                  "a value is handed to C++ only as its actual type or through a real conversion (a base-class conversion adjusts the pointer, it does not reinterpret it)")
    groups8 = {}
    for f in prog.fns:
        if f["tk"] == "pattern" or not f["file"].startswith("include/"):
            continue
        flow = None
        for n in walk(f["body"]):
            if n.get("k") != "cast" or n.get("ck") not in ("static", "reinterpret", "cstyle", "functional"):
                continue
            t = prog.T(f, n.get("t"))
            if not t.rstrip().endswith("*"):
                continue
            src = [x for x in walk(n.get("e") or {}) if x.get("k") == "call" and x.get("name") in ("get_ptr", "get_const_ptr") and x.get("obj") is not None]
            if not src:
                continue
            q = strip_targs(f["q"])
            where = "%s:%d" % (f["file"], n["l"])
            if q == "chaiscript::detail::Cast_Helper_Inner::cast":
                verdict, why = True, "cast kernel (typeid verified, R6.3)"
            elif q.startswith("chaiscript::Boxed_Number::"):
                verdict, why = True, "arithmetic kernel (type selected by the Common_Types switch, C05 R5.6)"
            else:
                flow = flow or FnFlow(f)
                target = norm_ws(pointee_of(t))
                verdict, why = False, "no dominating test that the box holds %s" % pointee_of(t)
                for a, tr in atomic_facts(flow, n):
                    a = strip_casts(a)
                    if not tr or a.get("k") != "call" or a.get("name") not in ("bare_equal", "bare_equal_type_info") or not a.get("args"):
                        continue
                    o = strip_casts(a.get("obj") or {})
                    if o.get("k") == "ref" and o.get("rk") in ("local", "condvar"):
                        # the type named first: `const Type_Info &ti = box.get_type_info();` (initialised once, never assigned)
                        from ..paths import ref_inits
                        v = ref_inits(f).get(o.get("vid"))
                        if v is not None and v.get("init") is not None and not any(y.get("k") == "assign" and strip_casts(y["lhs"]).get("vid") == o.get("vid") for y in walk(f["body"])):
                            o = strip_casts(v["init"])
                    if not (o.get("k") == "call" and o.get("name") == "get_type_info" and o.get("obj") is not None and same_var(o["obj"], src[0]["obj"])):
                        continue
                    arg = strip_casts(a["args"][0])
                    tested = None
                    if arg.get("k") == "typeid" and arg.get("of") is not None:
                        tested = prog.T(f, arg["of"])
                    elif arg.get("k") == "call" and arg.get("name") == "user_type":
                        d = prog.fn_by_id(f, arg.get("fn")) or prog.decl(f, arg.get("fn")) or {}
                        m = re.search(r"user_type<(.*)>$", d.get("q", ""))
                        tested = m.group(1) if m else None
                    if tested is not None and norm_ws(re.sub(r"^const\s+", "", tested)) == target:
                        verdict, why = True, "under a test that the box holds %s" % tested
                    elif tested is not None:
                        why = "the dominating test is for %s, the pointer is cast to %s" % (tested, pointee_of(t))
            e = groups8.setdefault((q, verdict), {"n": 0, "where": where, "f": f, "why": why})
            e["n"] += 1
    for (q, verdict), e in sorted(groups8.items(), key=lambda kv: str(kv[0])):
        r8.ob("%s: raw data pointer reinterpreted as a typed pointer (%d sites/instantiations) - %s" % (q, e["n"], "checked" if verdict else "UNCHECKED"), verdict, e["where"], e["f"]["q"],
              "%s: the bytes of one type are read as another (a derived-to-base conversion of a non-primary base needs a pointer adjustment)" % e["why"])
    r8.require(3, "reinterpretation sites")

    # ------------------------------------------------------------------ R6.9 script function -> std::function
    r9 = chk.rule("R6.9", "a script function is wrapped as std::function<R(P...)> only after a test that some candidate's arity is variadic or equals sizeof...(P); otherwise bad_boxed_cast",
                  "std::function wrappers hand a script function to C++ only for a signature it can be called with: the receiving C++ function is not entered with an uncallable wrapper, and overloads on std::function signatures are told apart")
    fcs = [f for f in prog.fns if strip_targs(f["q"]) == "chaiscript::dispatch::functor" and f["tk"] == "inst" and f["params"] and "std::vector<" in prog.T(f, f["params"][0]["t"])]
    r9.anchor(len(fcs) >= 3, "instantiations of dispatch::functor(vector<Const_Proxy_Function>, conversions) (found %d)" % len(fcs))
    chk.touched(fcs)
    verdicts = {}
    for f in fcs:
        flow = FnFlow(f)
        builds = [n for n in walk(f["body"]) if n.get("k") == "call" and n.get("name") == "build_function_caller_helper"]
        ok, why = False, "no build_function_caller_helper call"
        if builds:
            from ..paths import ref_inits
            locs = ref_inits(f)
            why = "the wrapper is built without a dominating arity test whose failing arm throws bad_boxed_cast"
            for c, t in atomic_facts(flow, builds[0]):
                v = strip_casts(c)
                init = locs.get(v.get("vid"), {}).get("init") if v.get("k") == "ref" else None
                if init is None:
                    continue
                quant = [x for x in walk(init) if x.get("k") == "call" and x.get("name") in ("any_of", "none_of")]
                lam = [x for x in walk(init) if x.get("k") == "lambda" and x.get("fn") is not None]
                if not quant or not lam:
                    continue
                # "some candidate fits" is established when any_of(..) is true or none_of(..) is false
                if (quant[0]["name"] == "any_of") != bool(t):
                    continue
                lf = prog.fn_by_id(f, lam[0]["fn"])
                txt = " ".join(expr_str(prog, lf, x["e"]) for x in walk(lf["body"]) if x.get("k") == "return" and x.get("e") is not None) if lf else ""
                variadic = "get_arity() == -1" in txt.replace("(-1)", "-1") or "== -1" in txt
                # the signature's parameter count: detail::arity(..) in the predicate itself or in a local it captures
                arity_locals = [lv["name"] for lv in locs.values() if lv.get("init") is not None and any(y.get("k") == "call" and y.get("name") == "arity" for y in walk(lv["init"]))]
                equal = "get_arity()" in txt and "==" in txt and ("arity(" in txt or any(re.search(r"\b%s\b" % re.escape(nm), txt) for nm in arity_locals))
                thrower = None
                for x in walk(f["body"]):
                    if x.get("k") == "if" and any(y is v or strip_casts(y) is v for y in walk(x.get("cond") or {})):
                        thrower = x
                throws = thrower is not None and always_exits(thrower.get("then")) and any(
                    y.get("k") == "throw" and "bad_boxed_cast" in prog.T(f, y.get("tt")) for y in walk(thrower.get("then") or {}))
                ok = variadic and equal and throws
                why = "arity test found: variadic %s, equal-count %s, failing arm throws bad_boxed_cast %s" % (variadic, equal, throws)
        verdicts.setdefault(ok, (f, why, 0))
        verdicts[ok] = (verdicts[ok][0], verdicts[ok][1], verdicts[ok][2] + 1)
    for ok, (f, why, n) in sorted(verdicts.items(), key=lambda kv: str(kv[0])):
        r9.ob("dispatch::functor<Signature> checks the candidates' arity against the signature before it builds the wrapper (%d instantiations)%s" % (n, "" if ok else " - MISSING"), ok, f.where, f["q"],
              why + ": a script function of the wrong arity is accepted where a std::function parameter is declared; the C++ function is entered and the mismatch only shows when it calls the wrapper")
    r9.require(1, "obligations")


def conjuncts(c):
    c = strip_casts(c)
    if isinstance(c, dict) and c.get("k") == "binop" and c.get("op") == "&&":
        return conjuncts(c["lhs"]) + conjuncts(c["rhs"])
    return [c]


def unpack(pack):
    """a printed parameter pack '<A, B>' -> ['A', 'B']"""
    p = pack.strip()
    if p.startswith("<") and p.endswith(">"):
        p = p[1:-1]
    return split_targs(p)


def norm_ws(t):
    return re.sub(r"\s+", "", t or "")


def cast_form(arg):
    a = arg.strip()
    if a in ("chaiscript::Boxed_Value", "chaiscript::Boxed_Value &"):
        return a.replace("chaiscript::", "")
    if a.startswith("std::shared_ptr<const "):
        return "shared_ptr<const T>"
    if a.startswith("std::shared_ptr<") and a.endswith("&"):
        return "shared_ptr<T>&"
    if a.startswith("std::shared_ptr<"):
        return "shared_ptr<T>"
    if a.startswith("std::unique_ptr<") or a.startswith("const std::unique_ptr<"):
        return "unique_ptr<T>& family"
    if "(&)" in a:
        return "const T&" if a.startswith("const ") else "T&"
    return split_form(a)[0]


def top_const(core):
    """(is the type const at top level?, the type without that const)"""
    c = core.strip()
    m = re.search(r"\*\s*const$", c)
    if m:
        return True, c[:m.start() + 1].strip()
    if c.endswith("*"):
        return False, c
    if c.startswith("const "):
        return True, c[6:].strip()
    if c.endswith(" const"):
        return True, c[:-6].strip()
    return False, c


def split_form(a):
    """template argument of Cast_Helper_Inner -> (form, T) following the partial specialisations:
    const T& / T& / T&& / const T* / T* / T"""
    a = a.strip()
    if a.endswith("&&"):
        return "T&&", a[:-2].strip()
    if a.endswith("&"):
        core = a[:-1].strip()
        tc, base = top_const(core)
        return ("const T&", base) if tc else ("T&", core)
    tc, v = top_const(a)           # a by-value `T *const` is `T *`
    if v.endswith("*"):
        pointee = v[:-1].strip()
        pc, pbase = top_const(pointee)
        return ("const T*", pbase) if pc else ("T*", pointee)
    return "T (by value)", v


def pointee_of(t):
    """`X *` -> X without a top-level const (arrays and function types keep the old normalisation)"""
    t = t.strip()
    if "(&)" in t or "(*)" in t or "(&&)" in t:
        return bare(t)
    if t.endswith("*"):
        return top_const(t[:-1].strip())[1]
    return bare(t)


def check_cast(prog, f, arg, form):
    body = f["body"]
    ver = [n for n in walk(body) if n.get("k") == "call" and n.get("name") in ("verify_type", "verify_type_no_throw")]
    anyc = [n for n in walk(body) if n.get("k") == "call" and n.get("name") == "cast" and n.get("obj") is not None and expr_str(prog, f, n["obj"]).endswith("get()")]
    if form in ("T&", "T*", "T&&", "const T&", "const T*", "T (by value)"):
        if len(ver) != 1:
            return False, "result does not come from exactly one verify_type call"
        v = ver[0]
        res = bare(arg) if ("(&)" in arg or "(&&)" in arg or "(*)" in arg) else split_form(arg)[1]
        tid = strip_casts(v["args"][1]) if len(v.get("args", [])) > 1 else {}
        tid_t = prog.T(f, tid.get("of")) if tid.get("of") is not None else ""
        if not tid_t.rstrip().endswith("*"):
            tid_t = re.sub(r"^const\s+", "", tid_t)
        if tid.get("k") != "typeid" or norm_ws(tid_t) != norm_ws(res):
            return False, "verifier is given typeid(%s) for result type %s" % (prog.T(f, tid.get("of")) if tid.get("of") is not None else "?", res)
        ptr = strip_casts(v["args"][2]) if len(v.get("args", [])) > 2 else {}
        pname = ptr.get("name")
        want = "get_ptr" if form in ("T&", "T*", "T&&") else "get_const_ptr"
        if pname != want:
            return False, "%s result obtained from %s()" % ("mutable" if want == "get_ptr" else "const", pname)
        sc = [n for n in walk(body) if n.get("k") == "cast" and n.get("ck") == "static" and any(x is v for x in walk(n))]
        if len(sc) != 1 or norm_ws(pointee_of(prog.T(f, sc[0].get("t")))) != norm_ws(res):
            return False, "verified pointer is cast to %s, result type is %s" % (prog.T(f, sc[0].get("t")) if sc else "?", res)
        return True, ""
    if form in ("shared_ptr<T>", "shared_ptr<T>&", "shared_ptr<const T>"):
        if not anyc:
            return False, "shared_ptr result does not come from Any::cast"
        res = arg.replace("&", "").strip()
        res = re.sub(r"^const\s+", "", res)
        for c in anyc:
            d = prog.decl(f, c.get("fn"))
            t = (d.get("targs") or ["?"])[0] if d else "?"
            inner = res[len("std::shared_ptr<"):-1].strip()
            innerb = re.sub(r"^const\s+", "", inner)
            if norm_ws(t) not in (norm_ws("std::shared_ptr<%s>" % inner), norm_ws("std::shared_ptr<%s>" % innerb), norm_ws("std::shared_ptr<const %s>" % innerb)):
                return False, "Any::cast<%s> for result %s" % (t, arg)
            if form != "shared_ptr<const T>" and norm_ws(t) != norm_ws("std::shared_ptr<%s>" % inner):
                return False, "Any::cast<%s> for result %s" % (t, arg)
        return True, ""
    if form == "unique_ptr<T>& family":
        return bool(anyc), "unique_ptr result does not come from Any::cast"
    return True, ""
