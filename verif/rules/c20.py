"""C20  Run-time errors point at the construct that failed.

Decided: the mechanism by which a location reaches the error, clause by clause.
  R20.1  every evaluation of a node goes through AST_Node_Impl::eval, whose handler appends the node to the
         eval_error's call stack and rethrows - so the stack lists the active nodes, innermost first;
  R20.2  an unresolved identifier / a failed dispatch is reported as eval_error from inside the failing node's own
         eval_internal - so that node is the first entry;
  R20.3  leaf nodes get (file, line, column) of a cursor copy taken before the token was consumed; inner nodes get the
         start of their first child and the file name of the parse in progress;
  R20.4  every node the optimizer builds takes location, text and children from the same node (the pass's own node for folded
         constants, the original node for compiled loops);
  R20.5  the cursor's line/column arithmetic: ++ over '\\n' starts a new line at column 1, any other byte advances the
         column; -- is its inverse.
Not decided: the numeric agreement of every reported position with ground truth on generated programs; retreat of the
cursor across more than the most recently crossed line break (no such retreat exists today; sites are listed as notes).
"""
import re

from ..ir import walk, strip_targs, AnalysisBroken
from ..flow import FnFlow, strip_casts, expr_str, atomic_facts
from ..paths import ref_inits

PARSER = "chaiscript::parser::ChaiScript_Parser"


def run(chk):
    prog = chk.program()
    chk.explanation = ("Who-may-call rule for eval_internal, handler-shape rule for AST_Node_Impl::eval, origin rules for the location "
                       "arguments of every node construction in parser and optimizer, and a table check of Position::operator++/--.")

    # ------------------------------------------------------------------ R20.1
    r1 = chk.rule("R20.1", "eval_internal is called only by AST_Node_Impl::eval, which appends *this to eval_error::call_stack and rethrows",
                  "the call stack lists, innermost first, the enclosing constructs that were active")
    evals = [f for f in prog.fns if f["name"] == "eval" and strip_targs(f.get("cls") or "") == "chaiscript::eval::AST_Node_Impl" and f["tk"] == "inst"]
    r1.anchor(evals, "AST_Node_Impl::eval")
    chk.touched(evals)
    ncalls = 0
    bad = []
    for f in prog.fns:
        if f["tk"] == "pattern" or not f["file"].startswith("include/"):
            continue
        for n in walk(f["body"]):
            if n.get("k") == "call" and n.get("name") == "eval_internal":
                ncalls += 1
                if not (f["name"] == "eval" and strip_targs(f.get("cls") or "") == "chaiscript::eval::AST_Node_Impl"):
                    bad.append((f, n))
    for f, n in bad[:5]:
        r1.ob("%s calls eval_internal directly" % strip_targs(f["q"]), False, "%s:%d" % (f["file"], n["l"]), f["q"],
              "a node evaluated this way is missing from the call stack of an error raised below it")
    r1.ob("eval_internal has no caller besides AST_Node_Impl::eval (%d call sites)" % ncalls, not bad and ncalls >= 1, evals[0].where, evals[0]["q"], "")
    f = evals[0]
    ok = False
    why = "no handler for eval_error by non-const reference that appends *this and rethrows"
    for t in walk(f["body"]):
        if t.get("k") != "try":
            continue
        if not any(x.get("k") == "call" and x.get("name") == "eval_internal" for x in walk(t["body"])):
            continue
        for h in t["handlers"]:
            if h.get("all"):
                continue
            ht = prog.T(f, h.get("t"))
            if "eval_error" in ht and ht.rstrip().endswith("&") and not ht.startswith("const "):
                stm = [s for s in h["body"].get("s", [])]
                hl = ref_inits(f)

                def is_call_stack(o, depth=0):
                    o = strip_casts(o or {})
                    if "call_stack" in expr_str(prog, f, o):
                        return True
                    if o.get("k") == "ref" and o.get("rk") == "local" and depth < 3:
                        v = hl.get(o.get("vid"))
                        return v is not None and v.get("init") is not None and is_call_stack(v["init"], depth + 1)
                    return False
                pushes = [x for x in walk(h["body"]) if x.get("k") == "call" and x.get("name") in ("push_back", "emplace_back") and is_call_stack(x.get("obj"))]
                # the append may live in a small member helper that is handed the caught error: `record_call_site(ee);`
                via_helper = helper_pushes(prog, f, h)
                if not pushes and len(via_helper) == 1:
                    call_, hfn_, push_ = via_helper[0]
                    hl_ = ref_inits(hfn_)
                    this_in_helper = any(y.get("k") == "this" or (y.get("k") == "ref" and y.get("rk") == "local" and hl_.get(y.get("vid")) is not None and
                                                                any(z.get("k") == "this" for z in walk(hl_[y["vid"]].get("init") or {})))
                                         for y in walk(push_["args"][0]))
                    top_ = h["body"].get("s", []) if h["body"].get("k") == "block" else [h["body"]]
                    reth_ = [x for x in walk(h["body"]) if x.get("k") == "throw" and x.get("rethrow")]
                    unc_ = any(call_ is s_ or strip_casts(s_) is call_ or (isinstance(s_.get("e"), dict) and strip_casts(s_["e"]) is call_) for s_ in top_) and reth_ and any(reth_[0] is s_ for s_ in top_)
                    ok = len(reth_) == 1 and this_in_helper and call_["l"] <= reth_[0]["l"] and bool(unc_)
                    why = "append through helper %s: pushes *this: %s, unconditional: %s" % (hfn_["name"], this_in_helper, bool(unc_))
                    continue
                reth = [x for x in walk(h["body"]) if x.get("k") == "throw" and x.get("rethrow")]
                this_arg = pushes and any(y.get("k") == "this" for y in walk(pushes[0]["args"][0]))
                top = h["body"].get("s", []) if h["body"].get("k") == "block" else [h["body"]]
                uncond = pushes and any(pushes[0] is s or strip_casts(s) is pushes[0] for s in top) and reth and any(reth[0] is s for s in top)
                ok = len(pushes) == 1 and len(reth) == 1 and bool(this_arg) and pushes[0]["l"] <= reth[0]["l"] and bool(uncond)
                why = "pushes: %d, rethrows: %d, pushes *this: %s, both unconditional: %s" % (len(pushes), len(reth), bool(this_arg), bool(uncond))
    r1.ob("AST_Node_Impl::eval appends *this once (push_back: innermost first) and rethrows the same eval_error", ok, f.where, f["q"], why)
    r1.require(2, "obligations")

    # ------------------------------------------------------------------ R20.2
    r2 = chk.rule("R20.2", "unresolved identifiers and failed dispatches are turned into eval_error inside the failing node's own eval_internal",
                  "the error reports the line and column at which the failing identifier or call expression begins")
    wanted = {"Id_AST_Node": ("std::exception", "Can not find object"), "Fun_Call_AST_Node": ("dispatch_error", None),
              "Dot_Access_AST_Node": ("dispatch_error", None), "Array_Call_AST_Node": ("dispatch_error", None)}
    for cls, (caught, _) in sorted(wanted.items()):
        fs = [g for g in prog.fns if strip_targs(g.get("cls") or "") == "chaiscript::eval::" + cls and g["name"] in ("eval_internal", "do_eval_internal") and g["tk"] == "inst"]
        r2.anchor(fs, cls + "::eval_internal")
        chk.touched(fs)
        ok = False
        for g in fs:
            for t in walk(g["body"]):
                if t.get("k") == "try":
                    for h in t["handlers"]:
                        if not h.get("all") and caught in prog.T(g, h.get("bt")):
                            if any(x.get("k") == "throw" and x.get("tt") is not None and "eval_error" in prog.T(g, x["tt"]) for x in walk(h["body"])):
                                ok = True
        r2.ob("%s converts %s into eval_error in its own evaluation" % (cls, caught), ok, fs[0].where, fs[0]["q"],
              "the failure would surface as another exception type or be attributed to an enclosing node")
    r2.require(4, "node kinds")

    # ------------------------------------------------------------------ R20.3
    r3 = chk.rule("R20.3", "leaf nodes are located by a cursor copy taken before their token; inner nodes by their first child's start; all carry the current file name",
                  "each entry has its own correct file, line and column")
    pf = [f for f in prog.fns if PARSER in (f.get("cls") or "") and f["tk"] == "inst"]
    r3.anchor(len(pf) > 50, "parser member functions")
    nmk = 0
    seen = set()
    for f in pf:
        locs = None
        for n in walk(f["body"]):
            if n.get("k") == "call" and n.get("name") == "make_node" and len(n.get("args", [])) >= 3:
                a1, a2 = strip_casts(n["args"][1]), strip_casts(n["args"][2])
                ident = "%s: make_node(%s, %s, %s)" % (strip_targs(f["q"]).split("::")[-1], expr_str(prog, f, n["args"][0])[:20], expr_str(prog, f, a1), expr_str(prog, f, a2))
                if ident in seen:
                    continue
                seen.add(ident)
                nmk += 1
                ok = False
                why = "line/column arguments are not the line and col of one saved cursor"
                if a1.get("k") == "member" and a2.get("k") == "member" and a1.get("name") == "line" and a2.get("name") == "col":
                    b1, b2 = strip_casts(a1.get("base") or {}), strip_casts(a2.get("base") or {})
                    if b1.get("k") == "member" and b2.get("k") == "member" and b1.get("name") == "m_position" and b2.get("name") == "m_position":
                        ok = True          # a node without a token of its own: located at the cursor
                    elif b1.get("k") == "ref" and b2.get("k") == "ref" and b1.get("vid") == b2.get("vid"):
                        locs = locs or ref_inits(f)
                        v = locs.get(b1.get("vid"))
                        owner = f
                        if v is None and f.get("kind") == "lambda":
                            from ._nonowning import enclosing_function
                            enc = enclosing_function(prog, f)
                            if enc is not None:
                                v = ref_inits(enc).get(b1.get("vid"))
                                owner = enc
                        if b1.get("rk") == "param":
                            ok = True      # forwarded by a caller that is itself checked (Id_Literal style helpers)
                        elif v is not None and v.get("init") is not None:
                            init = strip_casts(v["init"])
                            ok = init.get("k") == "member" and init.get("name") == "m_position"
                            why = "the cursor copy %s is initialised from %s, not from m_position" % (b1.get("name"), expr_str(prog, f, init))
                            # never reassigned
                            for x in walk(owner["body"]):
                                if x.get("k") in ("assign",) and strip_casts(x["lhs"]).get("vid") == b1.get("vid"):
                                    ok, why = False, "the saved cursor %s is reassigned" % b1.get("name")
                                if x.get("k") == "call" and x.get("op") in ("=", "++", "--", "+=", "-=") and x.get("obj") is not None and strip_casts(x["obj"]).get("vid") == b1.get("vid"):
                                    ok, why = False, "the saved cursor %s is moved before it is used as the node's start" % b1.get("name")
                        if ok and owner is f and v is not None:
                            # whitespace must have been skipped before the copy is taken, not after
                            fl3 = FnFlow(f)
                            decl_stmt = next((d for d in walk(f["body"]) if d.get("k") == "decl" and any(x is v or x.get("vid") == v.get("vid") for x in d["vars"])), None)
                            if decl_stmt is not None:
                                before = {id(x) for x in fl3.dominating(decl_stmt)}
                                between = [x for x in fl3.dominating(n) if id(x) not in before and x.get("k") == "call" and x.get("name") == "SkipWS"]
                                if between:
                                    ok, why = False, "SkipWS() runs after the cursor copy %s was taken: the node is reported at the whitespace or comment in front of it" % b1.get("name")
                r3.ob(ident, ok, "%s:%d" % (f["file"], n["l"]), f["q"], why)
    r3.anchor(nmk >= 8, "make_node call sites (found %d)" % nmk)
    mk = [f for f in pf if f["name"] == "make_node"]
    r3.anchor(mk, "ChaiScript_Parser::make_node")
    g = mk[0]
    pl = [n for n in walk(g["body"]) if n.get("k") == "construct" and "Parse_Location" in prog.T(g, n.get("t")) and len(n.get("args", [])) >= 5]
    okm = False
    if pl:
        a = [expr_str(prog, g, x) for x in pl[0]["args"][:5]]
        okm = "m_filename" in a[0] and a[1] == "t_prev_line" and a[2] == "t_prev_col" and "m_position.line" in a[3] and "m_position.col" in a[4]
    r3.ob("make_node: Parse_Location(m_filename, start line, start column, current line, current column)", okm, g.where, g["q"], "arguments: %s" % (a if pl else "no Parse_Location built"))
    bm = [f for f in pf if f["name"] == "build_match"]
    r3.anchor(bm, "ChaiScript_Parser::build_match")
    g = bm[0]
    okb = False
    detail = ""
    for lam in [g] + [prog.fn_by_id(g, x["fn"]) for x in walk(g["body"]) if x.get("k") == "lambda" and x.get("fn") is not None]:
        if lam is None:
            continue
        pls = [n for n in walk(lam["body"]) if n.get("k") == "construct" and "Parse_Location" in prog.T(lam, n.get("t")) and len(n.get("args", [])) >= 5]
        if len(pls) < 2:
            continue
        fl = FnFlow(lam)
        deep = flat = False
        for n in pls:
            a = [expr_str(prog, lam, x).replace(" ", "") for x in n["args"][:5]]
            facts = [(expr_str(prog, lam, c).replace(" ", ""), t) for c, t in fl.facts(n)]
            nonempty = any("t_match_start" in s and "size()" in s and "!=" in s and t for s, t in facts) or any("t_match_start" in s and "size()" in s and "==" in s and not t for s, t in facts)
            if "t_match_start" in a[1] and "location.start.line" in a[1] and "t_match_start" in a[2] and "location.start.column" in a[2] and "m_filename" in a[0] and \
                    "m_position.line" in a[3] and "m_position.col" in a[4] and nonempty:
                deep = True
            if "m_filename" in a[0] and "m_position.line" in a[1] and "m_position.col" in a[2] and not nonempty:
                flat = True
            detail += " %s" % a
        okb = deep and flat
    if not okb:
        # the same choice written with conditional expressions: one construction whose start line/column are
        # `has_children ? first_child.start.X : cursor.X` (possibly through once-initialised locals)
        gl = ref_inits(g)

        def expand(e, depth=0):
            e = strip_casts(e)
            if e.get("k") == "ref" and e.get("rk") == "local" and depth < 3:
                v = gl.get(e.get("vid"))
                if v is not None and v.get("init") is not None and not any(y.get("k") == "assign" and strip_casts(y["lhs"]).get("vid") == e.get("vid") for y in walk(g["body"])):
                    return expand(v["init"], depth + 1)
            return e

        def cond_parts(e):
            e = expand(e)
            if e.get("k") != "cond":
                return None
            c = expr_str(prog, g, expand(e["c"])).replace(" ", "")
            nonempty_when_true = "t_match_start" in c and "size()" in c and "!=" in c
            nonempty_when_false = "t_match_start" in c and "size()" in c and "==" in c and "!=" not in c
            if not (nonempty_when_true or nonempty_when_false):
                return None
            a_, b_ = (e["a"], e["b"]) if nonempty_when_true else (e["b"], e["a"])
            return expr_str(prog, g, a_).replace(" ", ""), expr_str(prog, g, b_).replace(" ", "")
        for n in [x for x in walk(g["body"]) if x.get("k") == "construct" and "Parse_Location" in prog.T(g, x.get("t")) and len(x.get("args", [])) >= 5]:
            a0 = expr_str(prog, g, n["args"][0])
            l_, c_ = cond_parts(n["args"][1]), cond_parts(n["args"][2])
            e3, e4 = expr_str(prog, g, n["args"][3]).replace(" ", ""), expr_str(prog, g, n["args"][4]).replace(" ", "")
            if l_ and c_ and "m_filename" in a0 and "t_match_start" in l_[0] and "location.start.line" in l_[0] and "m_position.line" in l_[1] and \
                    "t_match_start" in c_[0] and "location.start.column" in c_[0] and "m_position.col" in c_[1] and "m_position.line" in e3 and "m_position.col" in e4:
                okb = True
    if not okb:
        # any other arrangement of the same values (a start position chosen first, the cursor named once): evaluate the five arguments of the one
        # construction symbolically, once for "has children" and once for "has none"
        def sym(e, deep, depth=0):
            e = strip_casts(e)
            k = e.get("k")
            if depth > 8:
                return "?"
            if k == "paren" and e.get("e") is not None:
                return sym(e["e"], deep, depth + 1)
            if k == "ref" and e.get("rk") == "local":
                v = gl.get(e.get("vid"))
                if v is not None and v.get("init") is not None and not any(y.get("k") == "assign" and strip_casts(y["lhs"]).get("vid") == e.get("vid") for y in walk(g["body"])):
                    return sym(v["init"], deep, depth + 1)
                return "?"
            if k == "cond":
                c = expr_str(prog, g, expand(e["c"])).replace(" ", "")
                neg = c.startswith("!")
                if "t_match_start" in c and "size()" in c and ("!=" in c or "==" in c):
                    when_true_nonempty = ("!=" in c) != neg
                    return sym(e["a"] if when_true_nonempty == deep else e["b"], deep, depth + 1)
                return "?"
            if k == "construct" and len(e.get("args", [])) == 2:
                return ("pos", sym(e["args"][0], deep, depth + 1), sym(e["args"][1], deep, depth + 1))
            if k == "construct" and len(e.get("args", [])) == 1:
                return sym(e["args"][0], deep, depth + 1)
            if k == "member":
                nm = e.get("name")
                if nm == "m_position":
                    return "cursor"
                if nm == "m_filename":
                    return "file"
                base = e.get("base")
                if nm == "start" and base is not None:
                    bt = expr_str(prog, g, base).replace(" ", "")
                    return "child.start" if "m_match_stack" in bt and "t_match_start" in bt and "+" not in bt and "-1" not in bt and bt.endswith("location") else "?"
                if nm in ("line", "column", "col") and base is not None:
                    b = sym(base, deep, depth + 1)
                    if isinstance(b, tuple):
                        return b[1] if nm == "line" else b[2]
                    if b == "cursor":
                        return "cursor." + ("line" if nm == "line" else "col")
                    if b == "child.start":
                        return "child.start." + ("line" if nm == "line" else "col")
                return "?"
            return "?"
        for n in [x for x in walk(g["body"]) if x.get("k") == "construct" and "Parse_Location" in prog.T(g, x.get("t")) and len(x.get("args", [])) >= 5]:
            d_ = [sym(x, True) for x in n["args"][:5]]
            f_ = [sym(x, False) for x in n["args"][:5]]
            if d_ == ["file", "child.start.line", "child.start.col", "cursor.line", "cursor.col"] and f_ == ["file", "cursor.line", "cursor.col", "cursor.line", "cursor.col"]:
                okb = True
            detail += " symbolic: with children %s, without %s" % (d_, f_)
    r3.ob("build_match: an inner node starts where its first child starts (current cursor when it has none) and ends at the cursor", okb, g.where, g["q"], "Parse_Location constructions:" + detail[:300])
    # file name of the parse in progress
    pis = [f for f in pf if f["name"] == "parse_internal"]
    r3.anchor(pis, "ChaiScript_Parser::parse_internal")
    g = pis[0]
    fl = FnFlow(g)
    asg = [n for n in walk(g["body"]) if n.get("k") in ("call", "assign") and (n.get("op") == "=") and "m_filename" in expr_str(prog, g, n.get("obj") or n.get("lhs") or {})]
    stm = [n for n in walk(g["body"]) if n.get("k") == "call" and n.get("name") == "Statements"]
    okf = bool(asg) and bool(stm) and any("t_fname" in expr_str(prog, g, x) for x in asg) and min(x["l"] for x in asg) < stm[0]["l"]
    r3.ob("parse_internal installs the given file name before parsing starts", okf, g.where, g["q"], "assignments to m_filename: %s" % [expr_str(prog, g, x)[:60] for x in asg])
    r3.require(12, "obligations")

    # ------------------------------------------------------------------ R20.4 optimizer-built nodes keep the replaced node's location
    r6 = chk.rule("R20.4", "every node the optimizer builds carries the location of the node it replaces: the location argument comes from the same node as the text and the children moved into the new node (or from the pass's own node when the new node is a folded constant)",
                  "failing call and enclosing call sites are reported at the source position of the construct, also for code rewritten by the optimizer (calls in loop bodies, folded expressions, compiled loops)")
    seen6 = set()
    for f in prog.fns:
        if f["tk"] == "pattern" or not f["q"].startswith("chaiscript::optimizer::"):
            continue
        for n in walk(f["body"]):
            if n.get("k") != "call" or n.get("name") not in ("make_unique", "make_node"):
                continue
            d = prog.decl(f, n.get("fn")) if n.get("fn") is not None else None
            targs = (d.get("targs") or []) if d else []
            cls = next((t for t in targs[:2] if "_AST_Node<" in t and "AST_Node_Impl<" not in t), None)
            if cls is None:
                continue
            short = strip_targs(cls).split("::")[-1]
            ident = "%s: %s built at line %d" % (strip_targs(f["q"]), short, n["l"])
            if ident in seen6:
                continue
            seen6.add(ident)
            chk.touched([f])
            args = n.get("args") or []

            locs6 = ref_inits(f)

            def node_of(e, field, depth=0, loose=False):
                """base expression text of `<node>.field` / `<node>->field`: e is that member itself (through casts, std::move, copies and local
                variables initialised with it); loose: found anywhere inside e"""
                e = strip_casts(e or {})
                while e.get("k") in ("call", "construct") and (e.get("name") in ("move", "forward") or e.get("copy")) and e.get("args") and len(e["args"]) == 1:
                    e = strip_casts(e["args"][0])
                if e.get("k") == "member" and e.get("name") == field:
                    return expr_str(prog, f, e["base"]) if e.get("base") is not None else "?"
                if e.get("k") == "ref" and e.get("rk") == "local" and depth < 4:
                    v = locs6.get(e.get("vid"))
                    if v is not None and v.get("init") is not None:
                        return node_of(v["init"], field, depth + 1)
                if loose:
                    for x in walk(e):
                        if x.get("k") == "member" and x.get("name") == field:
                            return expr_str(prog, f, x["base"]) if x.get("base") is not None else "?"
                return None
            if short == "Compiled_AST_Node":
                ctors = [c for c in prog.fns if c["kind"] == "ctor" and strip_targs(c.get("cls") or "").endswith("eval::Compiled_AST_Node") and not c.get("implicit") and len(c["params"]) >= 3]
                r6.anchor(bool(ctors), "Compiled_AST_Node constructor")
                c = ctors[0]
                base_inits = [i for i in c.get("inits", []) if i.get("base") or "AST_Node_Impl" in str(i.get("name", ""))] or c.get("inits", [])[:1]
                locs = [node_of(i.get("init") or {}, "location", loose=True) for i in base_inits]
                txts = [node_of(i.get("init") or {}, "text", loose=True) for i in base_inits]
                p0 = c["params"][0]["name"]
                ok = any(l is not None and p0 in l for l in locs) and any(t is not None and p0 in t for t in txts)
                r6.ob(ident, ok, "%s:%d" % (f["file"], n["l"]), f["q"], "the Compiled node's constructor takes text %s and location %s, expected both from its first parameter (the node being replaced)" % (txts, locs))
                continue
            if len(args) < 2:
                r6.ob(ident, False, "%s:%d" % (f["file"], n["l"]), f["q"], "unrecognised construction (fewer than two arguments)")
                continue
            lb = node_of(args[1], "location")
            tb = node_of(args[0], "text")
            cb = node_of(args[2], "children") if len(args) > 2 else None
            if lb is None:
                ok, why = False, "the location argument `%s` is not some node's location" % expr_str(prog, f, args[1])[:60]
            else:
                others = [b for b in (tb, cb) if b is not None]
                if others:
                    ok = all(b == lb for b in others)
                    why = "location of `%s`, text of `%s`, children of `%s`" % (lb, tb, cb)
                else:
                    ok = re.sub(r"[()\s>-]", "", lb) == "node"
                    why = "a node built from new parts takes the location of `%s`, expected the pass's own `node`" % lb
            r6.ob(ident, ok, "%s:%d" % (f["file"], n["l"]), f["q"], why + ": an error raised inside the rebuilt construct is reported at another construct's position")
    r6.require(10, "node constructions in the optimizer")

    # ------------------------------------------------------------------ R20.6 = C10 R10.1: the error object that carries the positions is the one delivered
    if not getattr(chk, "nested", False):
        from .. import core
        from . import c10
        r6 = chk.rule("R20.6", "no handler between the failing node and the caller swallows or replaces an eval_error in flight (C10 R10.1 re-decided): the object that "
                               "accumulated the call stack is the one the caller receives",
                      "the reported position is the failing construct's, and the call stack lists every enclosing call site: an error re-created further out would carry the outer position and an empty stack")
        sub = core.Check("C10", tier=chk.tier)
        sub.prog = prog
        sub.nested = True
        c10.run(sub)
        sr = [r for r in sub.rules if r.rid == "R10.1"]
        r6.anchor(bool(sr), "C10 R10.1")
        for v in [v for v in sub.violations if v["rule"] == "R10.1"]:
            r6.ob("R10.1: %s" % v["instance"], False, v["where"], v["function"], v["detail"])
        r6.ob("C10 R10.1 decided (%d obligations)" % sr[0].obligations, True, "", "", "")
        r6.require(1, "rule")

    # ------------------------------------------------------------------ R20.5
    r5 = chk.rule("R20.5", "Position::operator++ starts a new line at column 1 after '\\n' and advances the column otherwise; operator-- is its inverse",
                  "line and column are 1-based coordinates of the byte the cursor points at")
    pos = [f for f in prog.fns if strip_targs(f.get("cls") or "").endswith("ChaiScript_Parser::Position") and f["tk"] == "inst"]
    inc = [f for f in pos if f["name"] == "operator++" and len(f["params"]) == 0]
    dec = [f for f in pos if f["name"] == "operator--" and len(f["params"]) == 0]
    ctor = [f for f in pos if f["kind"] == "ctor" and len(f["params"]) == 2]
    r5.anchor(inc and dec and ctor, "Position::operator++ / operator-- / Position(begin, end)")
    chk.touched(inc + dec + ctor)

    def effects(f):
        """[(fact-about-newline or None, field, op)]"""
        fl = FnFlow(f)
        out = []
        for n in walk(f["body"]):
            tgt = op = None
            if n.get("k") == "unop" and n.get("op") in ("++", "--"):
                tgt, op = strip_casts(n["e"]), n["op"]
            elif n.get("k") == "assign" and n.get("op") == "=":
                tgt, op = strip_casts(n["lhs"]), "= " + expr_str(prog, f, n["rhs"])
            if tgt is None or tgt.get("k") not in ("member", "ref"):
                continue
            nl = None
            for a, t in atomic_facts(fl, n):
                s = expr_str(prog, f, a)
                if "10" in s or "'\\n'" in s or "\\n" in s:
                    nl = t
            out.append((nl, tgt.get("name"), op))
        return out
    ei = effects(inc[0])
    want_i = {(True, "line", "++"), (True, "col", "= 1"), (True, "m_last_col", "= col"), (False, "col", "++"), (None, "m_pos", "++")}
    got_i = set(ei)
    r5.ob("Position::operator++ effects", want_i <= got_i and len(got_i) == len(want_i), inc[0].where, inc[0]["q"], "effects (under newline?, field, op): %s" % sorted(got_i, key=str))
    ed = effects(dec[0])
    want_d = {(True, "line", "--"), (True, "col", "= m_last_col"), (False, "col", "--"), (None, "m_pos", "--")}
    got_d = set(ed)
    r5.ob("Position::operator-- effects", want_d <= got_d and len(got_d) == len(want_d), dec[0].where, dec[0]["q"], "effects: %s" % sorted(got_d, key=str))
    ini = {i.get("field"): expr_str(prog, ctor[0], i.get("init") or {}) for i in ctor[0].get("inits", [])}
    r5.ob("Position(begin, end) starts at line 1, column 1", ini.get("line") == "1" and ini.get("col") == "1", ctor[0].where, ctor[0]["q"], "initialisers: %s" % ini)
    # who may move the cursor: besides ++ / -- (checked above) no member of Position writes the pointer or the coordinates, and
    # the parser writes a coordinate directly only to restate column 1 right after it consumed a line break
    POSF = ("m_pos", "line", "col", "m_last_col")
    nwr = 0
    seenw = set()
    for g in pos + pf:
        if g["kind"] in ("ctor", "dtor") or g["name"] == "operator=" or g in inc or g in dec:
            continue
        flg = None
        for n in walk(g["body"]):
            tgt = None
            if n.get("k") == "unop" and n.get("op") in ("++", "--"):
                tgt = strip_casts(n["e"])
            elif n.get("k") == "assign":
                tgt = strip_casts(n["lhs"])
            if tgt is None or tgt.get("k") not in ("member", "ref") or tgt.get("name") not in POSF:
                continue
            if "::Position::" not in (tgt.get("q") or ""):
                continue
            ident = "%s writes Position::%s" % (strip_targs(g["q"]).split("ChaiScript_Parser::")[-1], tgt["name"])
            if ident in seenw:
                continue
            seenw.add(ident)
            nwr += 1
            ok = False
            if g not in pos and tgt["name"] == "col" and n.get("k") == "assign" and n.get("op") == "=" and strip_casts(n["rhs"]).get("v") == 1:
                flg = flg or FnFlow(g)
                facts = " ".join(expr_str(prog, g, c) for c, t in flg.facts(n) if t)
                ok = "m_cr_lf" in facts or "'\\n'" in facts or "Char_(10)" in facts
            r5.ob(ident + (" only to restate column 1 after a consumed line break" if ok else ""), ok, "%s:%d" % (g["file"], n["l"]), g["q"],
                  "the cursor is moved or its coordinates are changed outside operator++ / operator--: line and column no longer follow the text "
                  "(a bulk advance over \"\\r\\n\" leaves the line counter behind)")
    r5.note("%d direct writes to Position coordinates outside ++/-- examined" % nwr)
    # retreat sites: listed for the record
    nret = 0
    for f in pf:
        for n in walk(f["body"]):
            if (n.get("k") == "call" and n.get("op") in ("--", "-=") and "m_position" in expr_str(prog, f, n.get("obj") or (n.get("args") or [{}])[0])):
                nret += 1
    r5.note("%d cursor retreats (-- / -=) in the parser; each undoes the advance made just before it, so the single remembered column belongs to the line break re-crossed (bounds of these retreats: C01 R1.3)" % nret)
    r5.require(3, "obligations")


def helper_pushes(prog, f, handler):
    """[(call node in the handler, helper function, push node)] for helpers of the same class that are handed the caught error and append to its call stack
    unconditionally (a top-level statement of the helper)"""
    out = []
    hv = handler.get("vid")
    for c in walk(handler["body"]):
        if c.get("k") != "call" or c.get("fn") is None or c.get("name") in ("push_back", "emplace_back"):
            continue
        if not any(x.get("k") == "ref" and x.get("vid") == hv for a in c.get("args") or [] for x in walk(a)):
            continue
        g = prog.fn_by_id(f, c["fn"])
        if g is None or not g.get("body") or g.get("cls") != f.get("cls"):
            continue
        top = g["body"].get("s", []) if g["body"].get("k") == "block" else [g["body"]]
        for st in top:
            e = st.get("e") if st.get("k") in ("expr", "exprstmt") and isinstance(st.get("e"), dict) else st
            e = strip_casts(e)
            if e.get("k") == "call" and e.get("name") in ("push_back", "emplace_back") and "call_stack" in expr_str(prog, g, e.get("obj") or {}):
                out.append((c, g, e))
    return out
