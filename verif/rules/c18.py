"""C18  JSON conversion round-trips and tolerates any input.

Decided: (R18.1) the parser touches the input text only through bounds-checked accessors; (R18.2) the
recursive descent is depth-guarded; (R18.3) writer and reader escape tables are mutual inverses on the
writer's domain; (R18.4) every switch over the value kind covers all kinds, to_json tests kinds in an order
in which an earlier test cannot capture a later kind.  Not decided: numeric round trip, key order.
"""
import os

from ..ir import walk, strip_targs, AnalysisBroken, extract_unit, Program, VERIF
from ..flow import FnFlow, switch_groups, strip_casts, expr_str, always_exits, uncond_exprs, split_cond
from ..analysis import callgraph, fkey

SAFE_INPUT_MEMBERS = {"at", "substr", "size", "length", "empty", "compare"}
PARSER = "chaiscript::json::JSONParser"


def input_uses(prog, f, in_class=None):
    """Classify every use of f's `const std::string &` parameters: returns list of (node, how, ok)."""
    out = []
    spars = [i for i, p in enumerate(f["params"]) if prog.T(f, p["t"]).replace(" ", "") in
             ("conststd::basic_string<char,std::char_traits<char>,std::allocator<char>>&", "conststd::string&")]
    if not spars:
        return out
    flow = FnFlow(f)
    for n in walk(f["body"]):
        if n.get("k") == "ref" and n.get("rk") == "param" and n.get("idx") in spars:
            # find the consuming construct
            p = flow.parent(n)
            while p is not None and p.get("k") in ("cast", "defarg"):
                n2 = p
                p = flow.parent(p)
            how, ok = "other use", False
            if p is None:
                how = "bare"
            elif p.get("k") == "call" and p.get("obj") is not None and strip_casts(p["obj"]) is n:
                nm = p.get("name")
                how = "member %s" % nm
                ok = nm in SAFE_INPUT_MEMBERS
            elif p.get("k") == "call" and any(strip_casts(a) is n for a in p.get("args", [])):
                d = prog.decl(f, p.get("fn")) if p.get("fn") is not None else None
                if d is not None and d.get("cls") == (in_class or f.get("cls")):
                    how, ok = "forwarded to %s" % d["name"], True
                else:
                    how = "passed to %s" % (d["q"] if d else p.get("name"))
            elif p.get("k") == "rangefor":
                how = "iterated (unchecked iterators)"
            elif p.get("k") == "subscript":
                how = "built-in subscript"
            out.append((n, how, ok))
    return out


def run(chk):
    prog = chk.program()
    cg = callgraph(prog)
    chk.explanation = ("Rules over chaiscript::json::JSONParser, JSON and json_wrap: the input string parameter of every parser "
                       "function is consumed only by at()/substr()/size() or forwarded to another parser function (all other "
                       "accessors are violations; a positive fixture proves the rule can fire); the recursion cycle of the "
                       "descent carries a depth parameter that strictly increases around every cycle and is tested against a "
                       "limit whose failing arm throws; json_escape and parse_string tables are extracted and composed; every "
                       "switch over JSON::Class is exhaustive; to_json_object's kind tests are ordered safely.")
    chk.assume("std::string::at / substr throw std::out_of_range on a bad index (standard guarantee)")
    chk.assume("::isspace on a negative char value is tolerated by the C library in use (glibc tables cover -128..255); noted, not claimed")

    pfns = [f for f in prog.fns if f.get("cls") == PARSER]
    r1 = chk.rule("R18.1", "JSONParser reads the input only through bounds-checked accessors (at, substr, size) or forwards it to another parser function",
                  "arbitrary, malformed or truncated input can never make from_json read past the text")
    r1.anchor(len(pfns) >= 9, "functions of JSONParser (found %d)" % len(pfns))
    chk.touched(pfns)
    nuse = 0
    for f in sorted(pfns, key=lambda f: f["line"]):
        uses = input_uses(prog, f)
        by = {}
        for n, how, ok in uses:
            nuse += 1
            e = by.setdefault(how, {"ok": ok, "n": 0, "l": n["l"]})
            e["n"] += 1
        for how, e in sorted(by.items()):
            r1.ob("%s: input %s" % (strip_targs(f["q"]), how), e["ok"], "%s:%d" % (f["file"], e["l"]), f["q"],
                  "the input string is accessed by '%s' (%d times): not bounds-checked, a truncated or hostile text is read out of range" % (how, e["n"]))
    r1.note("%d uses of the input parameter classified" % nuse)
    r1.require(15, "classified input uses")
    # positive fixture: the rule must fire on a raw access
    fixture_check(chk, r1)

    # ------------------------------------------------------------------ R18.2 recursion depth
    r2 = chk.rule("R18.2", "every recursion cycle of the JSON parser passes a depth argument that increases around the cycle and is tested against a limit whose failing arm throws",
                  "deeply nested input is rejected with an exception instead of overflowing the native stack")
    keys = {fkey(f): f for f in pfns}
    sccs = [c for c in cg.sccs(keys) if len(c) > 1 or c[0] in cg.callees(c[0])]
    r2.anchor(len(sccs) >= 1, "recursive cycle among JSONParser functions")
    for comp in sccs:
        fns = [keys[k] for k in comp]
        names = sorted(f["name"] for f in fns)
        label = "{" + ",".join(names) + "}"
        # depth parameter of each function: integral by-value parameter that intra-SCC callers feed with d or d + c
        dpar = depth_params(prog, cg, fns, set(comp))
        if dpar is None:
            r2.ob("JSONParser cycle %s carries a depth parameter" % label, False, fns[0].where, fns[0]["q"],
                  "no integral parameter is threaded through all recursive calls: the descent is unbounded (stack overflow on deeply nested input)")
            continue
        r2.ob("JSONParser cycle %s carries a depth parameter" % label, True, fns[0].where, fns[0]["q"], "")
        guarded = set()
        for f in fns:
            if has_depth_guard(prog, f, dpar[fkey(f)]):
                guarded.add(fkey(f))
        # removing guarded functions must break every cycle
        rest = [k for k in comp if k not in guarded]
        left = [c for c in cg.sccs(rest) if len(c) > 1 or c[0] in [x for x in cg.callees(c[0])]]
        r2.ob("JSONParser cycle %s: every cycle passes a depth test that throws" % label, bool(guarded) and not left, fns[0].where, fns[0]["q"],
              "cycle through %s has no `if (depth > limit) throw`" % sorted(keys[k]["name"] for c in left for k in c) if left or not guarded else "")
        # removing incrementing edges must break every cycle
        inc_edges, flat_edges, bad_edges = depth_edges(prog, cg, fns, set(comp), dpar)
        r2.ob("JSONParser cycle %s: no recursive call resets or drops the depth" % label, not bad_edges, fns[0].where, fns[0]["q"],
              "recursive calls with a depth argument that is not depth / depth + c: %s" % bad_edges)
        adj = {}
        for (a, b) in flat_edges:
            adj.setdefault(a, set()).add(b)
        cyc = has_cycle(adj)
        r2.ob("JSONParser cycle %s: depth strictly increases around every cycle" % label, not cyc, fns[0].where, fns[0]["q"],
              "there is a recursion cycle along which the depth argument is passed unchanged")
    r2.require(4, "cycle obligations")

    # ------------------------------------------------------------------ R18.3 escape tables
    r3 = chk.rule("R18.3", "json_escape (writer) and parse_string (reader) escape tables are mutual inverses on the writer's domain",
                  "strings with quotes, backslashes and control characters survive to_json -> from_json")
    esc = [f for f in prog.fns if f["name"] == "json_escape" and f.get("cls") == "chaiscript::json::JSON"]
    ps = [f for f in pfns if f["name"] == "parse_string"]
    r3.anchor(len(esc) == 1 and len(ps) == 1, "JSON::json_escape and JSONParser::parse_string")
    chk.touched(esc + ps)
    wt, wdefault_raw = writer_table(esc[0])
    rt, rdefault = reader_table(ps[0])
    for c, out in sorted(wt.items()):
        ok = len(out) == 2 and out[0] == "\\" and rt.get(ord(out[1])) == c
        r3.ob("json_escape/%r -> %r -> parse_string" % (chr(c), out), ok, esc[0].where, esc[0]["q"],
              "writer emits %r for character %d but the reader maps \\%s to %r" % (out, c, out[1:], rt.get(ord(out[1])) if len(out) == 2 else None))
    # characters the writer leaves raw must not be special for the reader: the reader's only special characters are '"' and '\\'
    for special in (ord('"'), ord("\\")):
        r3.ob("json_escape/escapes reader-special %r" % chr(special), special in wt, esc[0].where, esc[0]["q"],
              "the reader treats %r specially but the writer emits it raw" % chr(special))
    r3.ob("json_escape/other characters are emitted unchanged", wdefault_raw, esc[0].where, esc[0]["q"], "default arm does not append the character itself")
    r3.require(9, "escape pairs")

    # ------------------------------------------------------------------ R18.4 kind switches
    r4 = chk.rule("R18.4", "every switch over JSON::Class covers all kinds; to_json_object tests value kinds in a safe order",
                  "every JSON value kind converts in both directions; a bool is not captured as a number, a map not as a vector")
    en = prog.enums.get("chaiscript::json::JSON::Class")
    r4.anchor(en is not None, "enum chaiscript::json::JSON::Class")
    kinds = [e["name"] for e in en["enumerators"]]
    nsw = 0
    for f in prog.fns:
        if not (f["q"].startswith("chaiscript::json::") or f["q"].startswith("chaiscript::json_wrap")):
            continue
        for sw in [n for n in walk(f["body"]) if n.get("k") == "switch"]:
            labs = [l.get("ename") for g in switch_groups(sw) for l in g["labels"] if l.get("eq", "") and "JSON::Class" in (l.get("eq") or "")]
            if not labs:
                continue
            nsw += 1
            missing = [k for k in kinds if k not in labs]
            r4.ob("%s/switch over JSON::Class is exhaustive" % strip_targs(f["q"]), not missing, "%s:%d" % (f["file"], sw["l"]), f["q"],
                  "kinds without a case: %s" % missing)
            chk.touched([f])
    tj = [f for f in prog.fns if f["name"] == "to_json_object" and f["q"].startswith("chaiscript::json_wrap")]
    r4.anchor(len(tj) == 1, "json_wrap::to_json_object")
    order = kind_test_order(prog, tj[0])
    # the only order-sensitive pair: bool is an arithmetic type, so a number probe placed before the bool probe
    # must itself reject bool (Boxed_Number's validating constructor does)
    if "number" in order and "bool" in order and order.index("number") < order.index("bool"):
        r4.ob("to_json_object/number probe (tested before bool) rejects bool", number_rejects_bool(prog), tj[0].where, tj[0]["q"],
              "kind test order is %s and Boxed_Number's validating constructor no longer throws for bool: true/false would be written as 1/0" % order)
    else:
        r4.ob("to_json_object/bool probed before number", "bool" in order and "number" in order, tj[0].where, tj[0]["q"], "kind test order is %s" % order)
    r4.ob("to_json_object/tests all of map, vector, number, bool, string, object, null", set(order) >= {"map", "vector", "number", "bool", "string", "object", "null"},
          tj[0].where, tj[0]["q"], "kinds tested: %s" % order)
    r4.require(5, "kind obligations")

    # ------------------------------------------------------------------ R18.5 the converter keeps no state between calls
    r5 = chk.rule("R18.5", "the JSON reader and writer keep no state between calls: no object with static or thread storage duration (other than compile-time constants) is declared in "
                           "chaiscript::json / json_wrap",
                  "from_json(to_json(v)) == v for every call: what an earlier, possibly rejected, input left behind cannot become part of a later result")
    nst = 0
    for key, st_ in sorted(prog.statics.items(), key=lambda kv: (kv[1]["file"], kv[1]["line"])):
        if not (st_["q"].startswith("chaiscript::json::") or st_["q"].startswith("chaiscript::json_wrap") or "utility/json" in st_["file"]):
            continue
        nst += 1
        t = st_["type"].strip()
        ok = bool(st_.get("constexpr")) or (st_.get("const") and ("char" in t or t.replace("const ", "") in ("int", "bool", "double", "unsigned long", "size_t")))
        r5.ob("static %s : %s" % (strip_targs(st_["q"]), t[:50]), ok, "%s:%d" % (st_["file"], st_["line"]), st_.get("infn", ""),
              "%s %s survives the call that wrote it: after an input is rejected half-way (exception), the next conversion on this thread starts from what was left in it" % (
                  "thread_local" if st_.get("tls") else "static", st_["q"]))
    r5.ob("static/thread_local objects in the JSON converter: %d, all compile-time constants" % nst, True, "", "", "")
    r5.require(1, "obligation")

    # ------------------------------------------------------------------ R18.6 nothing escapes a noexcept function / destructor of the converter
    from .c18n import noexcept_rule
    noexcept_rule(chk, prog)


# =============================================================================== helpers

def fixture_check(chk, rule):
    src = os.path.join(VERIF, "fixtures", "c18_raw_index.cpp")
    if not os.path.exists(src):
        raise AnalysisBroken("C18 R18.1: positive fixture missing")
    prefix = extract_unit("fixture_c18", src, [], extra_roots=[os.path.join(VERIF, "fixtures") + "/"])
    fp = Program()
    fp.load_unit(prefix, "fixture_c18")
    fp.index()
    fs = [f for f in fp.fns if f.get("cls") == "verif_fixture::RawParser"]
    bad = []
    for f in fs:
        for n, how, ok in input_uses(fp, f):
            if not ok:
                bad.append(how)
    want = {"member operator[]", "member data", "iterated (unchecked iterators)", "member begin"}
    if not (want & set(bad)) or len(set(bad)) < 3:
        raise AnalysisBroken("C18 R18.1: the positive fixture (raw operator[] / data() / iteration on the input) is not flagged: %s" % sorted(set(bad)))
    rule.note("positive fixture fixtures/c18_raw_index.cpp flagged as expected: %s" % sorted(set(bad)))


def depth_params(prog, cg, fns, comp):
    """{fkey: param index} such that every intra-SCC call passes caller_depth (+ const) into the callee's depth parameter."""
    cands = {}
    for f in fns:
        cands[fkey(f)] = [i for i, p in enumerate(f["params"]) if prog.T(f, p["t"]).replace("const ", "") in
                          ("unsigned long", "int", "unsigned int", "long", "size_t", "std::size_t")]
        if not cands[fkey(f)]:
            return None
    # try to find a consistent assignment (few candidates: brute force)
    import itertools
    keys = [fkey(f) for f in fns]
    byk = {fkey(f): f for f in fns}
    for combo in itertools.product(*[cands[k] for k in keys]):
        assign = dict(zip(keys, combo))
        ok = True
        for k in keys:
            f = byk[k]
            for callee, node, kind in cg.edges.get(k, []):
                if callee in comp and kind == "call":
                    di = assign[callee]
                    args = node.get("args", [])
                    if di >= len(args):
                        ok = False
                        break
                    if depth_delta(f, args[di], assign[k]) is None:
                        ok = False
                        break
            if not ok:
                break
        if ok:
            return assign
    return None


def depth_delta(f, e, dpar):
    """e is `d` (0) or `d + c` / `c + d` (c>0) / `++`... returns delta or None"""
    e = strip_casts(e)
    while e.get("k") == "defarg":
        return None
    if e.get("k") == "ref" and e.get("rk") == "param" and e.get("idx") == dpar:
        return 0
    if e.get("k") == "binop" and e.get("op") == "+":
        l, r = strip_casts(e["lhs"]), strip_casts(e["rhs"])
        for a, b in ((l, r), (r, l)):
            if a.get("k") == "ref" and a.get("rk") == "param" and a.get("idx") == dpar and b.get("k") == "lit" and isinstance(b.get("v"), int) and b["v"] > 0:
                return b["v"]
    return None


def depth_edges(prog, cg, fns, comp, dpar):
    inc, flat, bad = [], [], []
    for f in fns:
        k = fkey(f)
        for callee, node, kind in cg.edges.get(k, []):
            if callee in comp and kind == "call":
                d = depth_delta(f, node["args"][dpar[callee]], dpar[k])
                if d is None:
                    bad.append("%s -> %s" % (f["name"], node.get("name")))
                elif d > 0:
                    inc.append((k, callee))
                else:
                    flat.append((k, callee))
    return inc, flat, bad


def has_cycle(adj):
    color = {}

    def dfs(u):
        color[u] = 1
        for v in adj.get(u, ()):
            if color.get(v) == 1:
                return True
            if color.get(v) is None and dfs(v):
                return True
        color[u] = 2
        return False
    return any(color.get(u) is None and dfs(u) for u in list(adj))


def has_depth_guard(prog, f, dpar):
    for n in uncond_exprs(f["body"]):
        if n.get("k") == "if" and not n.get("constexpr") and always_exits(n.get("then")) and any(x.get("k") == "throw" for x in walk(n["then"])):
            for a, t in split_cond(n["cond"], True):
                a = strip_casts(a)
                if a.get("k") == "binop" and a.get("op") in (">", ">=", "<", "<="):
                    l, r = strip_casts(a["lhs"]), strip_casts(a["rhs"])
                    dl = l.get("k") == "ref" and l.get("rk") == "param" and l.get("idx") == dpar
                    dr = r.get("k") == "ref" and r.get("rk") == "param" and r.get("idx") == dpar
                    if (dl and a["op"] in (">", ">=")) or (dr and a["op"] in ("<", "<=")):
                        return True
    return False


def writer_table(f):
    """{char code: emitted string}, default-raw flag from json_escape's switch"""
    sws = [n for n in walk(f["body"]) if n.get("k") == "switch"]
    if len(sws) != 1:
        raise AnalysisBroken("C18 R18.3: json_escape is no longer a single switch")
    tab = {}
    default_raw = False
    for g in switch_groups(sws[0]):
        outs = []
        for s in g["stmts"]:
            for x in walk(s):
                if x.get("k") == "call" and x.get("op") == "+=":
                    args = x.get("args", [])
                    a = strip_casts(args[-1]) if args else {}
                    if a.get("k") == "lit" and a.get("lt") == "string":
                        outs.append(a["v"])
                    elif a.get("k") == "ref":
                        outs.append(("raw", a.get("name")))
        for lab in g["labels"]:
            if lab.get("default"):
                default_raw = len(outs) == 1 and isinstance(outs[0], tuple)
            elif lab.get("v") is not None and len(outs) == 1 and isinstance(outs[0], str):
                tab[lab["v"]] = outs[0]
            elif lab.get("v") is not None:
                tab[lab["v"]] = "?"
    return tab, default_raw


def reader_table(f):
    """{escape letter code: produced char code} from the switch inside parse_string's backslash arm"""
    sws = [n for n in walk(f["body"]) if n.get("k") == "switch"]
    if len(sws) != 1:
        raise AnalysisBroken("C18 R18.3: parse_string is no longer a single switch")
    tab = {}
    for g in switch_groups(sws[0]):
        vals = []
        for s in g["stmts"]:
            for x in walk(s):
                if x.get("k") == "call" and x.get("op") == "+=":
                    a = strip_casts(x["args"][-1]) if x.get("args") else {}
                    if a.get("k") == "lit" and a.get("lt") == "char":
                        vals.append(a["v"])
                    else:
                        vals.append(None)
        for lab in g["labels"]:
            if lab.get("v") is not None and len(vals) == 1 and vals[0] is not None:
                tab[lab["v"]] = vals[0]
    return tab, None


def kind_test_order(prog, f):
    """Order in which to_json_object probes the value's kind (by the cast / construction attempted in each try)."""
    order = []
    for s in f["body"].get("s", []):
        probe = s
        text = None
        for x in walk(probe):
            if x.get("k") == "call" and x.get("name") == "boxed_cast":
                d = prog.decl(f, x.get("fn"))
                t = (d.get("targs") or ["?"])[0] if d else "?"
                if "std::map<" in t:
                    text = "map"
                elif "std::vector<" in t:
                    text = "vector"
                elif t.strip() == "bool":
                    text = "bool"
                elif "basic_string" in t:
                    text = "string"
                elif "Dynamic_Object" in t:
                    text = "object"
                break
            if x.get("k") == "construct" and "Boxed_Number" in prog.T(f, x.get("t")):
                text = "number"
                break
            if x.get("k") == "call" and x.get("name") == "is_null":
                text = "null"
                break
        if text and text not in order:
            order.append(text)
    return order


def number_rejects_bool(prog):
    """Boxed_Number's validating constructor throws for bool"""
    vs = [f for f in prog.named("validate_boxed_number") if f.get("cls") == "chaiscript::Boxed_Number"]
    if len(vs) != 1:
        return False
    f = vs[0]
    for n in uncond_exprs(f["body"]):
        if n.get("k") == "if" and always_exits(n.get("then")) and any(x.get("k") == "throw" for x in walk(n["then"])):
            for x in walk(n["cond"]):
                if x.get("k") == "call" and x.get("name") == "user_type":
                    d = prog.decl(f, x.get("fn"))
                    if d and d.get("targs") == ["bool"]:
                        return True
    return False
