"""C15  get_state / set_state restore the global environment exactly.

Decided: completeness of what is saved/restored and immutability of snapshots against later engine
activity.  Not decided: a step-by-step model of visible names.
"""
from ..ir import walk, strip_targs, AnalysisBroken
from ..flow import FnFlow, strip_casts, expr_str
from ..paths import PathResolver
from . import c13

CB = "chaiscript::ChaiScript_Basic"
DE = "chaiscript::detail::Dispatch_Engine"


def run(chk):
    prog = chk.program()
    chk.explanation = ("Completeness rules over the two State records and their get/set functions, a who-may-write rule over the "
                       "engine's registries (everything an add*/set_global path writes lies inside the saved state), and the "
                       "immutability of published overload lists shared by snapshots (with C13 R13.6).")
    chk.assume("Boxed_Value / Proxy_Function handles inside a snapshot share their objects with the live engine by design; the property speaks of which names are visible, not of the current values of shared global objects")

    # ------------------------------------------------------------------ R15.1
    r1 = chk.rule("R15.1", "every field of ChaiScript_Basic::State is filled by get_state from the live member and written back by set_state; the engine's get_state/set_state copy m_state whole",
                  "after set_state(s) functions, globals, type names, used-file records and active modules are those present when s was taken")
    st = prog.records.get(CB + "::State")
    r1.anchor(st is not None, "record ChaiScript_Basic::State")
    gs = [f for f in prog.fns if f["name"] == "get_state" and f.get("cls") == CB]
    ss = [f for f in prog.fns if f["name"] == "set_state" and f.get("cls") == CB]
    r1.anchor(len(gs) == 1 and len(ss) == 1, "ChaiScript_Basic::get_state / set_state")
    chk.touched(gs + ss)
    g, s = gs[0], ss[0]
    gassign = {}
    gnode, snode = {}, {}
    for n in walk(g["body"]):
        tgt, src = assignment(n)
        if tgt is not None and tgt.get("k") == "member" and tgt.get("q", "").startswith(CB + "::State::"):
            gassign[tgt["name"]] = src
            gnode[tgt["name"]] = n
    if not gassign:
        # aggregate initialisation `State snapshot{a, b, c};`: the initialisers belong to the fields in declaration order
        for n in walk(g["body"]):
            if n.get("k") in ("construct", "initlist") and prog.T(g, n.get("t")).replace("const ", "").strip() == CB + "::State" and len(n.get("args") or []) == len(st["fields"]):
                for fl_, a_ in zip(st["fields"], n["args"]):
                    gassign[fl_["name"]] = a_
                    gnode[fl_["name"]] = n
                break
    sassign = {}
    for n in walk(s["body"]):
        tgt, src = assignment(n)
        if src is not None:
            for x in walk(src):
                if x.get("k") == "member" and x.get("q", "").startswith(CB + "::State::"):
                    sassign[x["name"]] = tgt
                    snode[x["name"]] = n
        if n.get("k") == "call" and n.get("name") == "set_state":
            for x in walk(n):
                if x.get("k") == "member" and x.get("q", "").startswith(CB + "::State::"):
                    sassign[x["name"]] = n
                    snode[x["name"]] = n
    for fl in st["fields"]:
        nm = fl["name"]
        gsrc = expr_str(prog, g, gassign[nm]) if nm in gassign else None
        sdst = expr_str(prog, s, sassign[nm]) if nm in sassign else None
        ok = gsrc is not None and sdst is not None
        # same member on both sides
        if ok:
            key = nm.replace("engine_state", "m_engine").replace("used_files", "m_used_files").replace("active_loaded_modules", "m_active_loaded_modules")
            ok = key in gsrc and key in sdst
        r1.ob("ChaiScript_Basic::State::%s saved by get_state and restored by set_state" % nm, ok, "%s:%d" % (st["file"], fl["l"]), CB + "::State",
              "field %s: get_state reads %s, set_state writes %s" % (nm, gsrc, sdst))
        # the copy back must happen on every path: a restore that is skipped under some condition leaves the live record as it was
        for side, fn_, table in (("get_state", g, gnode), ("set_state", s, snode)):
            node = table.get(nm)
            if node is None:
                continue
            fl_ = FnFlow(fn_)
            stmt = node
            conds = []
            tgt_, src_ = assignment(node)
            for a in fl_.ancestors(node):
                if a.get("k") == "if" and tgt_ is not None and src_ is not None:
                    # `if (a != b) a = b;` is the same as copying always
                    c_ = strip_casts(a.get("cond") or {})
                    ops = (c_.get("args") if c_.get("k") == "call" else [c_.get("lhs"), c_.get("rhs")]) or []
                    if c_.get("op") == "!=" and len(ops) == 2 and {expr_str(prog, fn_, strip_casts(o)) for o in ops} == {expr_str(prog, fn_, strip_casts(tgt_)), expr_str(prog, fn_, strip_casts(src_))}:
                        continue
                if a.get("k") in ("if", "while", "for", "do", "switch", "cond", "rangefor", "try"):
                    conds.append("%s at line %d" % (a["k"], a["l"]))
                elif a.get("k") == "binop" and a.get("op") in ("&&", "||"):
                    conds.append("%s at line %d" % (a["op"], a["l"]))
            r1.ob("ChaiScript_Basic::State::%s: %s copies it unconditionally" % (nm, side), not conds, "%s:%d" % (fn_["file"], node.get("l", 0)), fn_["q"],
                  "the copy of %s is nested under %s: when the condition fails the record keeps the contents it had, which need not be those of the snapshot" % (nm, conds))
    egs = [f for f in prog.fns if f["name"] == "get_state" and f.get("cls") == DE]
    ess = [f for f in prog.fns if f["name"] == "set_state" and f.get("cls") == DE]
    r1.anchor(len(egs) == 1 and len(ess) == 1, "Dispatch_Engine::get_state / set_state")
    chk.touched(egs + ess)
    rets = [n for n in walk(egs[0]["body"]) if n.get("k") == "return"]
    okg = len(rets) == 1 and strip_casts(rets[0]["e"]).get("k") in ("member", "construct") and "m_state" in expr_str(prog, egs[0], rets[0]["e"])
    r1.ob("Dispatch_Engine::get_state returns a copy of the whole m_state", okg and prog.T(egs[0], egs[0]["ret"]).endswith("State"), egs[0].where, egs[0]["q"], "does not return m_state by value")
    asg = [n for n in walk(ess[0]["body"]) if assignment(n)[0] is not None and strip_casts(assignment(n)[0]).get("name") == "m_state"]
    r1.ob("Dispatch_Engine::set_state assigns the whole m_state", len(asg) == 1, ess[0].where, ess[0]["q"], "does not assign m_state")
    r1.require(5, "state fields")

    # ------------------------------------------------------------------ R15.2
    r2 = chk.rule("R15.2", "everything the engine's registration paths write lies inside the saved state (or is a conversion, a per-thread store or an atomic cache)",
                  "everything added since the snapshot is gone after set_state and may be added again")
    allowed_outside = {
        DE: {"m_conversions": "type conversions are documented as not part of the state", "m_stack_holder": "per-thread locals are not disturbed by set_state",
             "m_method_missing_loc": "atomic lookup hint, validated against the name on use"},
        CB: {"m_loaded_modules": "cache of loaded module objects; whether a module is applied is decided by m_active_loaded_modules, which is saved",
             "m_namespace_generators": "generators only run when a script imports the namespace, which then creates a global (saved)",
             "m_engine": "the dispatch engine itself; its state is saved as engine_state"}}
    saved = {DE: {"m_state"}, CB: {"m_used_files", "m_active_loaded_modules"}}
    for cls in (DE, CB):
        rec = prog.records[cls]
        written = {}
        for f in prog.fns:
            if f.get("cls") != cls and not f["q"].startswith(cls + "::<lambda"):
                continue
            if f["kind"] in ("ctor", "dtor") or f["tk"] == "pattern":
                continue
            flow = None
            pr = PathResolver(prog, f)
            for n in walk(f["body"]):
                if n.get("k") not in ("member", "ref"):
                    continue
                if n.get("k") == "ref" and n.get("rk") not in ("local", "binding", "field"):
                    continue
                p = pr.path(n)
                if not p:
                    continue
                flds = [x for x in p if x[0] == "field" and x[1].startswith(cls + "::") and x[1].count("::") == cls.count("::") + 1]
                if not flds:
                    continue
                if flow is None:
                    flow = FnFlow(f)
                par = flow.parent(n)
                if par is not None and par.get("k") == "member" and strip_casts(par.get("base")) is n:
                    continue
                if c13.classify_use(prog, f, flow, n) == "write":
                    top = flds[0][2]
                    if cls == CB and top == "m_engine":
                        continue
                    written.setdefault(top, (f, n))
        short = cls.split("::")[-1]
        for fl in rec["fields"]:
            nm = fl["name"]
            if nm in written:
                f, n = written[nm]
                ok = nm in saved[cls] or nm in allowed_outside[cls]
                r2.ob("%s::%s (written by %s) is %s" % (short, nm, f["name"], "inside the saved state" if nm in saved[cls] else allowed_outside[cls].get(nm, "NOT restorable")), ok,
                      "%s:%d" % (f["file"], n["l"]), f["q"], "registration state kept in %s is neither saved by get_state nor restored by set_state" % nm)
    r2.require(5, "written engine fields")

    # ------------------------------------------------------------------ R15.3 / R15.4
    r3 = chk.rule("R15.3", "snapshots cannot be changed by later engine activity: overload lists are replaced, never edited in place (C13 R13.6); set_state / get_state touch no per-thread storage and hold the engine lock in the right mode",
                  "saved states stay valid however the engine changes later; restoring does not disturb per-thread locals")
    # re-run the published-list rule through C13's helper on the engine's functions
    nwrites = 0
    nreach = 0
    for f in prog.fns:
        if f["tk"] == "pattern" or not (f.get("cls") == DE or f["q"].startswith(DE + "::")):
            continue
        pr = PathResolver(prog, f)
        flow = None
        for n in walk(f["body"]):
            if n.get("k") not in ("member", "call", "ref"):
                continue
            if n.get("k") == "ref" and n.get("rk") not in ("local", "binding"):
                continue
            p = pr.path(n)
            if not c13.published_list(p):
                continue
            if flow is None:
                flow = FnFlow(f)
            par = flow.parent(n)
            if par is not None and par.get("k") == "member" and strip_casts(par.get("base")) is n:
                continue
            if par is not None and par.get("k") == "call" and par.get("obj") is n and c13.published_list(pr.path(par)):
                continue
            nreach += 1
            kind = c13.classify_use(prog, f, flow, n)
            if kind == "read" and par is not None and par.get("k") == "call" and par.get("name") in ("begin", "end"):
                gp = flow.parent(par)
                while gp is not None and gp.get("k") in ("cast", "construct"):
                    gp = flow.parent(gp)
                if gp is not None and gp.get("k") == "call" and gp.get("name") in ("sort", "stable_sort", "reverse", "rotate", "remove_if", "unique", "fill", "shuffle"):
                    kind = "write"
            if kind == "write":
                nwrites += 1
                r3.ob("%s edits an overload list that snapshots share" % strip_targs(f["q"]), False, "%s:%d" % (f["file"], n["l"]), f["q"],
                      "a State taken earlier holds the same vector through its shared_ptr: adding an overload later changes the saved state")
    r3.ob("published overload lists are never edited in place (%d accesses, all reads)" % nreach, nwrites == 0 and nreach >= 2, "", "", "")
    for f in (gs[0], ss[0], egs[0], ess[0]):
        bad = [expr_str(prog, f, n) for n in walk(f["body"]) if n.get("k") == "member" and "Thread_Storage<" in prog.T(f, n.get("t"))]
        r3.ob("%s touches no per-thread storage" % strip_targs(f["q"]), not bad, f.where, f["q"], "accesses %s" % bad)
        li = c13.LockInfo(prog, f)
        modes = sorted((mq.split("::")[-1], mode) for (_, mq, mode, _) in li.locks.values())
        writes = f["name"] == "set_state"
        ok = any(mode == "unique" for _, mode in modes) if writes else bool(modes)
        r3.ob("%s holds %s" % (strip_targs(f["q"]), "a unique lock while replacing the state" if writes else "a lock while copying the state"), ok, f.where, f["q"], "locks: %s" % modes)
    r3.require(8, "obligations")

    # ------------------------------------------------------------------ R15.4
    r4 = chk.rule("R15.4", "lookup positions cached outside the saved state (per-node hints, the method_missing hint) are used only after the key at that position has been compared with the name",
                  "after set_state a name resolves to the function of that name, or to nothing - never to whatever now occupies a remembered slot")
    from .c04 import hinted_find
    hinted_find(chk, r4, prog)
    r4.require(1, "hinted returns")


def assignment(n):
    """(target expr, source expr) for `a = b` written as built-in assignment or operator= call"""
    if n.get("k") == "assign" and n.get("op") == "=":
        return strip_casts(n["lhs"]), n["rhs"]
    if n.get("k") == "call" and n.get("op") == "=" and n.get("obj") is not None and n.get("args"):
        return strip_casts(n["obj"]), n["args"][0]
    return None, None
