"""C09  Every evaluation leaves the engine's scope/call stack as it found it.

Argument (complete for stack *shape*): every function whose net effect on the shape of the per-thread
Stack_Holder (stacks, stacks.back(), call_params, call_depth) is non-zero is either a primitive of the
holder/engine or the constructor/destructor of an RAII guard whose destructor undoes exactly what its
constructor did; primitives are called from nowhere else; guards exist only as automatic objects, so the
C++ language runs the matching destructor on every exit, normal or exceptional.
"""
import re
from collections import Counter

from ..ir import walk, AnalysisBroken, strip_targs
from ..flow import FnFlow, strip_casts, expr_str, uncond_exprs
from ..paths import PathResolver, has_field, steps_after_field, path_str
from ..analysis import callgraph, exception_flow, fkey, UNKNOWN

HOLDER = "chaiscript::detail::Stack_Holder"
F_STACKS = HOLDER + "::stacks"
F_PARAMS = HOLDER + "::call_params"
F_DEPTH = HOLDER + "::call_depth"
PUSH = {"emplace_back": 1, "push_back": 1, "pop_back": -1}
OTHER_MUT = {"clear", "erase", "insert", "resize", "assign", "operator=", "emplace", "swap", "reserve", "shrink_to_fit"}
RESOURCE_ONLY = {"std::bad_alloc", "std::length_error"}


def shape_slot(path):
    """Which shape counter does a container path denote?  None if it is below the shape level (contents)."""
    if has_field(path, F_STACKS):
        rest = steps_after_field(path, F_STACKS)
        elems = [s for s in rest if s[0] == "elem"]
        if any(s[0] == "field" for s in rest):
            return None
        if len(elems) == 0:
            return "stacks"
        if len(elems) == 1:
            return "stacks.back()"
        return None
    if has_field(path, F_PARAMS):
        rest = steps_after_field(path, F_PARAMS)
        elems = [s for s in rest if s[0] == "elem"]
        if any(s[0] == "field" for s in rest):
            return None
        if len(elems) == 0:
            return "call_params"
        if len(elems) == 1:
            return "call_params.back() (saved parameters)"
        return None
    if has_field(path, F_DEPTH):
        return "call_depth"
    return None


def direct_effects(prog, f):
    """(Counter of slot -> net count, list of (node, slot, what) 'other' writes) performed directly in f."""
    eff = Counter()
    other = []
    pr = PathResolver(prog, f)
    uncond = {id(x) for x in uncond_exprs(f["body"])}
    for n in walk(f["body"]):
        k = n.get("k")
        if k == "call" and n.get("obj") is not None:
            nm = n.get("name")
            if nm in PUSH or nm in OTHER_MUT:
                p = pr.path(n["obj"])
                slot = shape_slot(p) if p else None
                if slot is None:
                    continue
                if slot.startswith("call_params.back()"):
                    # contents of the saved-parameter list: tracked by R9.4's clear/enable clause, not shape
                    other.append((n, slot, nm))
                    continue
                if nm in PUSH:
                    eff[slot if id(n) in uncond else "conditional " + slot] += PUSH[nm]
                else:
                    other.append((n, slot, nm))
        elif k == "unop" and n.get("op") in ("++", "--"):
            p = pr.path(n.get("e"))
            if p and shape_slot(p) == "call_depth":
                eff["call_depth" if id(n) in uncond else "conditional call_depth"] += 1 if n["op"] == "++" else -1
        elif k == "assign":
            p = pr.path(n.get("lhs"))
            slot = shape_slot(p) if p else None
            if slot:
                other.append((n, slot, "assignment " + n.get("op", "=")))
    return eff, other


def run(chk):
    prog = chk.program()
    cg = callgraph(prog)
    chk.explanation = ("Effect analysis of every function body on the shape of the per-thread Stack_Holder "
                       "(push/pop of stacks, stacks.back(), call_params; ++/-- of call_depth), summarised through the resolved "
                       "call graph; who-may-call and who-may-write rules confine non-zero effects to RAII guard "
                       "constructors/destructors and the holder/engine primitives; guard pairing and 'guards are automatic "
                       "objects only' make the restoration hold on every exit by the C++ destructor guarantee.")
    chk.assume("C++ runs destructors of automatic objects on every exit from their scope (normal, return, break, exception)")
    chk.assume("bad_alloc/length_error (resource exhaustion) between an open and the end of a guard constructor is out of scope")

    rec = prog.records.get(HOLDER)
    r94 = chk.rule("R9.4", "stack-shape fields of Stack_Holder are written only by members of Stack_Holder / the engine that owns it",
                   "nothing outside the primitives can change the shape of the scope/call stacks")
    r94.anchor(rec is not None, "record " + HOLDER)
    fields = {fl["name"] for fl in rec["fields"]}
    r94.anchor({"stacks", "call_params", "call_depth"} <= fields, "fields stacks/call_params/call_depth of Stack_Holder (have %s)" % sorted(fields))
    for fl in rec["fields"]:
        r94.ob("%s::%s classified" % (HOLDER, fl["name"]), fl["name"] in ("stacks", "call_params", "call_depth"),
               "%s:%d" % (rec["file"], fl["l"]), HOLDER,
               "new field %s of Stack_Holder is not classified as shape/non-shape state" % fl["name"])

    # ---- direct effects of every function
    direct = {}
    others = {}
    for f in prog.fns:
        if f["tk"] == "pattern":
            continue
        e, o = direct_effects(prog, f)
        if e or o:
            direct[fkey(f)] = e
            others[fkey(f)] = o
    owner_classes = {HOLDER}
    # the class holding the Thread_Storage<Stack_Holder>
    for q, r in prog.records.items():
        for fl in r["fields"]:
            if "Thread_Storage<chaiscript::detail::Stack_Holder>" in prog.T(r["unit"], fl["t"]):
                owner_classes.add(q)
    r94.anchor(len(owner_classes) >= 2, "class owning Thread_Storage<Stack_Holder>")
    fn_of = {fkey(f): f for f in prog.fns}
    for k in sorted(direct, key=lambda k: fn_of[k]["q"]):
        f = fn_of[k]
        chk.touched([f])
        slots = sorted(set(direct[k]) | {s for _, s, _ in others[k]})
        r94.ob("%s writes %s" % (f["q"], ",".join(slots)), f.get("cls") in owner_classes, f.where, f["q"],
               "function outside %s writes stack shape state %s directly" % (sorted(owner_classes), slots))
    # absolute writes: the shape counters move only by the paired primitives (push/pop, ++/--); the saved-parameter list is emptied only where
    # the call depth returns to 0 (R9.5 decides the condition).  `call_depth = 0`, `stacks.clear()`, `call_params.back().clear()` anywhere else
    # break the pairing that the guards rely on: an enclosing guard's destructor then pops / decrements from the wrong level.
    nabs = 0
    for k in sorted(others, key=lambda k: fn_of[k]["q"]):
        f = fn_of[k]
        for n, slot, what in others[k]:
            if f["kind"] == "ctor" and f.get("cls") == HOLDER:
                continue
            nabs += 1
            if slot.startswith("call_params.back()"):
                if what in ("insert", "push_back", "emplace_back", "emplace"):
                    continue          # saving one more value never changes the shape
                okw = f["name"] == "pop_function_call" and what == "clear"
                r94.ob("%s: %s of the saved-parameter list" % (strip_targs(f["q"]), what), okw, "%s:%d" % (f["file"], n["l"]), f["q"],
                       "the innermost saved-parameter list is emptied outside pop_function_call: arguments of calls that are still running are released")
            else:
                r94.ob("%s: %s on %s" % (strip_targs(f["q"]), what, slot), False, "%s:%d" % (f["file"], n["l"]), f["q"],
                       "%s is set absolutely (`%s`) instead of by the paired primitives: guards that are still alive further out will pop / decrement "
                       "from the wrong level when they unwind (e.g. call depth -1 after a failed nested eval that the script caught)" % (slot, expr_str(prog, f, n)[:60]))
    r94.note("%d absolute / content writes examined" % nabs)
    r94.require(8, "direct writers + fields")

    # ---- summaries through the call graph (guard ctor/dtor of automatic objects cancel, justified by R9.2/R9.3)
    # 1. candidate guard classes: classes (outside the owners) whose ctor or dtor calls something with an effect
    summary = {k: Counter(v) for k, v in direct.items()}
    changed = True
    rounds = 0
    while changed and rounds < 30:
        changed = False
        rounds += 1
        for k, edges in cg.edges.items():
            f = fn_of.get(k)
            if f is None or f["tk"] == "pattern":
                continue
            tot = Counter(direct.get(k, Counter()))
            for callee, node, kind in edges:
                if callee is None or callee == k:
                    continue
                cf = fn_of.get(callee)
                if cf is None:
                    continue
                if kind in ("ctor", "dtor") and is_guard_candidate(cf, owner_classes):
                    continue
                s = summary.get(callee)
                if s:
                    tot.update(s)
            tot = Counter({a: b for a, b in tot.items() if b != 0})
            if tot != summary.get(k, Counter()):
                summary[k] = tot
                changed = True
    nonzero = {k: v for k, v in summary.items() if v}

    # ---- guard classes
    guard_classes = {}
    for k, v in nonzero.items():
        f = fn_of[k]
        if f["kind"] in ("ctor", "dtor") and f.get("cls") not in owner_classes:
            guard_classes.setdefault(f["cls"], {})[f["kind"] + ":" + str(len(f["params"]))] = f
    r92 = chk.rule("R9.2", "every guard class: the destructor undoes exactly what each constructor did, on the same holder; nothing that can throw follows the open inside the constructor; destructors cannot throw",
                   "an opened scope / stack / call frame is closed exactly once")
    ef = exception_flow(prog)
    for cls, members in sorted(guard_classes.items()):
        ctors = [f for kk, f in members.items() if kk.startswith("ctor")]
        # all user constructors of the class (incl. ones with zero effect would be a bug too)
        all_ctors = [f for f in prog.fns if f.get("cls") == cls and f["kind"] == "ctor" and not f.get("implicit")]
        dtors = [f for f in prog.fns if f.get("cls") == cls and f["kind"] == "dtor"]
        chk.touched(all_ctors + dtors)
        short = strip_targs(cls)
        if len(dtors) != 1:
            r92.ob("%s/has a destructor with a body" % short, False, "", cls, "guard class without user destructor")
            continue
        d = dtors[0]
        ds = summary.get(fkey(d), Counter())
        for c in all_ctors:
            cs = summary.get(fkey(c), Counter())
            neg = Counter({a: -b for a, b in ds.items()})
            ok = dict(cs) == dict(neg) and bool(cs)
            r92.ob("%s/ctor(%d) effect %s is undone by dtor effect %s" % (short, len(c["params"]), fmt(cs), fmt(ds)), ok, c.where, c["q"],
                   "constructor effect %s, destructor effect %s: not inverse" % (fmt(cs), fmt(ds)))
            # same holder expression
            ch, dh = holder_exprs(prog, c, nonzero, fn_of), holder_exprs(prog, d, nonzero, fn_of)
            r92.ob("%s/ctor(%d) and dtor act on the same holder" % (short, len(c["params"])), ch == dh and len(ch) == 1, c.where, c["q"],
                   "holder expressions differ: ctor %s, dtor %s" % (sorted(ch), sorted(dh)))
            # nothing throwing after the open
            bad = throwing_after_open(prog, ef, c, nonzero, fn_of)
            allowed = [b for b in bad if b[1] in CTOR_ALLOW.get(short, ())]
            bad = [b for b in bad if b[1] not in CTOR_ALLOW.get(short, ())]
            r92.ob("%s/ctor(%d) nothing can throw after the open" % (short, len(c["params"])), not bad, c.where, c["q"],
                   "after the open, %s may throw %s: the destructor will not run and the scope leaks" % (
                       bad[0][1] if bad else "", sorted(bad[0][2]) if bad else ""))
            for a in allowed:
                r92.note("allow-listed in %s ctor: %s may throw %s -- %s" % (short, a[1], sorted(a[2]), CTOR_ALLOW[short][a[1]]))
        esc = getattr(ef, "noexcept_escape", {}).get(fkey(d), set()) - RESOURCE_ONLY
        r92.ob("%s/dtor cannot throw" % short, not esc, d.where, d["q"], "destructor may throw %s (terminates the process during unwinding)" % sorted(esc))
        # copy / move constructors that are defaulted or user-provided and *used* are checked by R9.3
    r92.require(12, "guard obligations")

    # ---- R9.1 who-may-call
    r91 = chk.rule("R9.1", "functions with a non-zero net effect on stack shape are called only from guard constructors/destructors and from other primitives of the owner classes",
                   "no open without a guaranteed close")
    ncalls = 0
    for k, edges in sorted(cg.edges.items(), key=lambda kv: fn_of[kv[0]]["q"] if kv[0] in fn_of else ""):
        f = fn_of.get(k)
        if f is None or f["tk"] == "pattern":
            continue
        for callee, node, kind in edges:
            if callee is None or callee not in nonzero:
                continue
            cf = fn_of[callee]
            if kind in ("ctor", "dtor") and cf.get("cls") in guard_classes:
                continue  # creating a guard object: R9.3
            ncalls += 1
            ok = (f.get("cls") in guard_classes and f["kind"] in ("ctor", "dtor")) or \
                 (f.get("cls") in owner_classes and (k in nonzero or f["kind"] == "ctor"))
            r91.ob("%s calls %s" % (strip_targs(f["q"]), strip_targs(cf["q"])), ok, "%s:%d" % (f["file"], node["l"]), f["q"],
                   "%s has net stack effect %s and is called outside an RAII guard: an exception or early exit between this call "
                   "and its counterpart leaves the stack changed" % (cf["q"], fmt(nonzero[callee])))
            chk.touched([f])
    r91.require(10, "calls of shape-changing functions")

    # ---- R9.3 guards are automatic objects only
    r93 = chk.rule("R9.3", "objects of guard types exist only as automatic local variables: no heap, member, static, temporary, copy or move",
                   "the destructor (the close) runs exactly once, at scope exit")
    nobj = 0
    for f in prog.fns:
        if f["tk"] == "pattern":
            continue
        local_inits = set()
        for n in walk(f["body"]):
            if n.get("k") == "decl":
                for v in n.get("vars", []):
                    t = norm(prog.T(f, v["t"]))
                    wrapped = [g_ for g_ in guard_classes if t != g_ and re.search(r"[<, ]%s[>, ]" % re.escape(g_), t)]
                    if wrapped:
                        r93.ob("%s/local %s wraps a guard: %s" % (strip_targs(f["q"]), v["name"], t[:60]), False, "%s:%d" % (f["file"], v["l"]), f["q"],
                               "a guard inside optional/unique_ptr/a container is constructed (or not) and destroyed under program control: the close is no longer tied to scope exit on every path, "
                               "and code that ran with the guard in one call runs without it in another")
                        chk.touched([f])
                    if t in guard_classes:
                        nobj += 1
                        ok = not v.get("static") and not v.get("ref") and not v.get("tls")
                        init = strip_casts(v.get("init")) if v.get("init") else None
                        if init is not None and init.get("k") == "construct":
                            local_inits.add(id(init))
                            if init.get("copy"):
                                ok = False
                        r93.ob("%s/local %s : %s" % (strip_targs(f["q"]), v["name"], t.split("::")[-1]), ok, "%s:%d" % (f["file"], v["l"]), f["q"],
                               "guard object is static/reference/copy-constructed")
                        chk.touched([f])
        for n in walk(f["body"]):
            if n.get("k") == "construct" and norm(prog.T(f, n.get("t"))) in guard_classes and id(n) not in local_inits:
                if f.get("cls") in guard_classes:
                    continue
                r93.ob("%s/non-local construction of %s" % (strip_targs(f["q"]), norm(prog.T(f, n["t"])).split("::")[-1]), False,
                       "%s:%d" % (f["file"], n["l"]), f["q"], "guard constructed as a temporary / copied / moved")
            if n.get("k") == "new" and norm(prog.T(f, n.get("t"))) in guard_classes:
                r93.ob("%s/new %s" % (strip_targs(f["q"]), norm(prog.T(f, n["t"])).split("::")[-1]), False, "%s:%d" % (f["file"], n["l"]), f["q"],
                       "guard allocated on the heap")
    for q, r in prog.records.items():
        for fl in r["fields"]:
            t = norm(prog.T(r["unit"], fl["t"]))
            if t in guard_classes or any(t.startswith(pfx) and g in t for g in guard_classes for pfx in ("std::unique_ptr<", "std::shared_ptr<", "std::optional<", "std::vector<")):
                r93.ob("%s::%s holds a guard" % (q, fl["name"]), False, "%s:%d" % (r["file"], fl["l"]), q, "guard stored in a data member")
    for s in prog.statics.values():
        if norm(s["type"]) in guard_classes:
            r93.ob("static %s holds a guard" % s["q"], False, "%s:%d" % (s["file"], s["line"]), s["q"], "guard with static storage duration")
    r93.note("guard classes derived from effects: %s" % sorted(strip_targs(c) for c in guard_classes))
    r93.require(20, "guard objects")

    # ---- R9.5 add_object inserts into the top scope only; pops cannot throw
    r95 = chk.rule("R9.5", "declaring a variable inserts into the innermost scope of the current stack only; saved parameters are cleared and conversion saves toggled when the call depth returns to / leaves 0",
                   "declarations never outlive their block; saved-parameter lists return to their pre-call shape")
    adders = [f for f in prog.fns if f["name"] in ("add_object", "add_get_object") and f.get("cls") in owner_classes and f["tk"] != "pattern"]
    r95.anchor(adders, "add_object / add_get_object")
    for f in adders:
        pr = PathResolver(prog, f)
        ins = [n for n in walk(f["body"]) if n.get("k") == "call" and n.get("name") in ("insert", "emplace", "insert_or_assign", "operator[]", "emplace_back", "push_back") and n.get("obj") is not None]
        mine = []
        for n in ins:
            p = pr.path(n["obj"])
            if p and has_field(p, F_STACKS):
                mine.append((n, p))
        if not mine:
            # forwarder
            fw = [n for n in walk(f["body"]) if n.get("k") == "call" and n.get("name") in ("add_object", "add_get_object")]
            r95.ob("%s/%d forwards" % (strip_targs(f["q"]), len(f["params"])), len(fw) == 1, f.where, f["q"], "neither inserts into the stack nor forwards to the inserting overload")
            continue
        for n, p in mine:
            rest = steps_after_field(p, F_STACKS)
            elems = [s[1] for s in rest if s[0] == "elem"]
            ok = elems == ["back", "back"]
            r95.ob("%s/%d inserts into %s" % (strip_targs(f["q"]), len(f["params"]), path_str(p)), ok, "%s:%d" % (f["file"], n["l"]), f["q"],
                   "inserts into %s, not into stacks.back().back() (the innermost scope of the current stack)" % path_str(p))
    chk.touched(adders)
    # call depth discipline
    for name, want_cmp, toggles in (("new_function_call", "==", True), ("pop_function_call", "==", False)):
        fs = [f for f in prog.fns if f["name"] == name and f.get("cls") in owner_classes and len(f["params"]) == 2]
        r95.anchor(len(fs) == 1, name + "(Stack_Holder&, Conversion_Saves&)")
        f = fs[0]
        chk.touched(fs)
        flow = FnFlow(f)
        pr = PathResolver(prog, f)
        calls = [n for n in walk(f["body"]) if n.get("k") == "call" and n.get("name") == "enable_conversion_saves"]
        ok = False
        from ..paths import ref_inits as _ri
        flocals = _ri(f)
        why = "conversion saves are not %s under `call_depth == 0`" % ("enabled" if toggles else "disabled")
        for c in calls:
            flag = strip_casts(c["args"][-1])
            from ..flow import atomic_facts
            facts = list(atomic_facts(flow, c))
            zero = any(depth_is_zero(a, t, pr, flocals) for a, t in facts)
            if zero and flag.get("k") == "lit" and bool(flag.get("v")) == toggles:
                # position relative to the ++ / --
                incs = [n for n in walk(f["body"]) if n.get("k") == "unop" and n.get("op") in ("++", "--")]
                if len(incs) == 1:
                    before = incs[0]["l"] > c["l"]
                    ok = before if toggles else not before
                    why = "depth test on the wrong side of the %s" % incs[0]["op"]
        r95.ob("%s/conversion saves %s at depth 0" % (strip_targs(f["q"]), "enabled" if toggles else "disabled"), ok, f.where, f["q"], why)
        if not toggles:
            clears = [n for n in walk(f["body"]) if n.get("k") == "call" and n.get("name") == "clear" and n.get("obj") is not None and
                      (shape_slot(pr.path(n["obj"]) or []) or "").startswith("call_params.back()")]
            okc = False
            for c in clears:
                facts = list(atomic_facts(flow, c))
                okc = okc or any(depth_is_zero(a, t, pr, flocals) for a, t in facts)
            r95.ob("%s/saved parameters cleared when depth returns to 0" % strip_targs(f["q"]), okc, f.where, f["q"],
                   "call_params.back() is not cleared under `call_depth == 0`")
    r95.require(6, "obligations")

    # ------------------------------------------------------------------ R9.6 = C02 R2.2: a block gives up its scope only when nothing in it declares into that scope
    if not getattr(chk, "nested", False):
        from .. import core
        from . import c02
        r96 = chk.rule("R9.6", "the optimizer removes a block's scope only when nothing evaluated inside the block declares into that scope: the declaration search agrees with the evaluator, "
                               "child by child (C02 R2.2 re-decided)",
                       "nothing declared inside a block remains visible after it: a block whose scope was optimised away would leave its declarations in the enclosing scope")
        sub = core.Check("C02", tier=chk.tier)
        sub.prog = prog
        sub.nested = True
        c02.run(sub)
        sr = [r for r in sub.rules if r.rid == "R2.2"]
        r96.anchor(bool(sr), "C02 R2.2")
        bad = [v for v in sub.violations if v["rule"] == "R2.2"]
        for v in bad:
            r96.ob("R2.2: %s" % v["instance"], False, v["where"], v["function"], v["detail"])
        r96.ob("C02 R2.2 decided (%d obligations)" % sr[0].obligations, True, "", "", "")
        chk.fn_touched |= sub.fn_touched
        r96.require(1, "rule")


CTOR_ALLOW = {
    "chaiscript::detail::Dispatch_Engine::call_member::<lambda#1>::This_Foist": {
        "add_object": "inserts \"__this\" into the scope opened one statement earlier, which is empty: the only non-resource "
                      "failure of add_object (name_conflict_error) cannot occur",
    },
}


def is_guard_candidate(f, owner_classes):
    return f["kind"] in ("ctor", "dtor") and f.get("cls") not in owner_classes


def fmt(c):
    return "{" + ", ".join("%s:%+d" % (a, b) for a, b in sorted(c.items())) + "}"


def norm(t):
    return t.replace("const ", "").replace(" &", "").replace("&", "").strip()


def holder_exprs(prog, f, nonzero, fn_of):
    """printed holder argument of each call to a shape-changing function in f"""
    out = set()
    u = f["unit"]
    for n in walk(f["body"]):
        if n.get("k") == "call" and n.get("fn") is not None:
            tgt = prog._by_id.get((u, n["fn"]))
            if tgt is not None and fkey(tgt) in nonzero:
                if n.get("args"):
                    out.add(expr_str(prog, f, n["args"][0]))
                else:
                    out.add(expr_str(prog, f, n.get("obj")) if n.get("obj") is not None else "this")
    return out


def throwing_after_open(prog, ef, c, nonzero, fn_of):
    """calls in ctor c sequenced after the first shape-changing call that may throw (non-resource)"""
    u = c["unit"]
    seen_open = False
    bad = []
    for n in walk(c["body"]):
        if n.get("k") not in ("call", "construct"):
            continue
        if n.get("fn") is None:
            continue
        tgt = prog._by_id.get((u, n["fn"]))
        if tgt is not None and fkey(tgt) in nonzero:
            seen_open = True
            continue
        if not seen_open:
            continue
        th = ef.node_throws(c, n) or set()
        th = set(th) - RESOURCE_ONLY
        if th:
            d = prog.decls.get((u, n["fn"]))
            bad.append((n, d["name"] if d else "?", th))
    return bad


def depth_is_zero(a, t, pr, flocals, depth=0):
    """fact (a, t) establishes call_depth == 0: `call_depth == 0` true, `call_depth != 0` false, or a bool local initialised with one of them"""
    a = strip_casts(a)
    while a.get("k") == "paren":
        a = strip_casts(a["e"])
    if a.get("k") == "ref" and a.get("rk") == "local" and depth < 3:
        v = flocals.get(a.get("vid"))
        if v is not None and v.get("init") is not None:
            return depth_is_zero(v["init"], t, pr, flocals, depth + 1)
        return False
    if a.get("k") == "unop" and a.get("op") == "!":
        return depth_is_zero(a["e"], not t, pr, flocals, depth + 1)
    if a.get("k") == "binop" and a.get("op") in ("==", "!="):
        for x, y in ((a["lhs"], a["rhs"]), (a["rhs"], a["lhs"])):
            if shape_slot(pr.path(x) or []) == "call_depth" and strip_casts(y).get("v") == 0:
                return bool(t) if a["op"] == "==" else not t
    return False
