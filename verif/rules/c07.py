"""C07  Const values cannot be modified from script.

Decided: every route to a mutable pointer into a boxed object passes a const check, and every value that
must be const is created const.  (R7.3/R7.6 overlap with C05/C06 kernels and are judged here as well.)
"""
from ..ir import walk, strip_targs, AnalysisBroken
from ..flow import FnFlow, strip_casts, expr_str, always_exits, atomic_facts, same_var, uncond_exprs, split_cond
from ..paths import PathResolver, ref_inits
from ..analysis import fkey

BV = "chaiscript::Boxed_Value"
DATA = BV + "::Data"


def walk_fn(f):
    for i in f.get("inits", []):
        if i.get("init") is not None:
            yield from walk(i["init"])
    yield from walk(f["body"])


def is_call_to(prog, f, n, name, cls=None):
    if n.get("k") != "call" or n.get("name") != name:
        return False
    if cls is None:
        return True
    d = prog.decl(f, n.get("fn")) if n.get("fn") is not None else None
    return d is not None and d.get("cls") == cls


def receiver_is_const_checked(prog, f, flow, n, recv):
    """facts at n imply recv.is_const() == false  or recv.is_undef() == true (an undefined value has no object)"""
    def atom_safe(a, t):
        a = strip_casts(a)
        if a.get("k") != "call" or a.get("obj") is None:
            return False
        if same_var(a["obj"], recv):
            return (a.get("name") == "is_const" and not t) or (a.get("name") == "is_undef" and t)
        o = strip_casts(a["obj"])
        if a.get("name") == "is_const" and not t and o.get("k") == "call" and o.get("name") == "get_type_info" and o.get("obj") is not None and same_var(o["obj"], recv):
            return True
        return False

    def implies_safe(c, t):
        c = strip_casts(c)
        if not isinstance(c, dict):
            return False
        if c.get("k") == "unop" and c.get("op") == "!":
            return implies_safe(c["e"], not t)
        if c.get("k") == "binop" and c.get("op") in ("&&", "||"):
            conj = (c["op"] == "&&") == t      # true-&& / false-|| : all parts known; else only one of them
            parts = [implies_safe(c["lhs"], t), implies_safe(c["rhs"], t)]
            return any(parts) if conj else all(parts)
        return atom_safe(c, t)

    return any(implies_safe(c, t) for c, t in flow.facts(n))


def run(chk):
    prog = chk.program()
    chk.explanation = ("Who-may-write / check-dominates-use rules over Boxed_Value, the cast kernel, the arithmetic kernel, the "
                       "assignment and prefix nodes, constant construction in parser and optimizer, and the return-value "
                       "handlers, in all their template instantiations: the mutable data pointer of a boxed object is null "
                       "whenever its type is const and is written nowhere else; every consumer of get_ptr() checks constness or "
                       "null before writing; every const-removing cast is inventoried; assignment paths are dominated by the "
                       "const test; literals and folded constants are created const; const returns are boxed const.")
    chk.assume("C++ const-correctness: without a cast, code cannot write through a const-qualified pointer or reference")

    # ------------------------------------------------------------------ R7.1
    r1 = chk.rule("R7.1", "Boxed_Value's mutable data pointer is null for const types and is written only by the Data constructor, Data's whole-object assignment and the shared_ptr& sentinel (non-const only); get_ptr() returns exactly that pointer",
                  "no mutable pointer to a const object exists inside a Boxed_Value")
    ctors = [f for f in prog.fns if f.get("cls") == DATA and f["kind"] == "ctor" and not f.get("implicit") and not f.get("defaulted")]
    r1.anchor(len(ctors) >= 1, "Boxed_Value::Data constructor")
    data_ptr_helpers = {}

    def null_when_const(e):
        e = strip_casts(e)
        if e.get("k") != "cond":
            return False
        cnd, a = strip_casts(e["c"]), strip_casts(e["a"])
        return cnd.get("k") == "call" and cnd.get("name") == "is_const" and a.get("k") == "lit" and a.get("lt") == "nullptr"
    for c in ctors:
        ini = [i for i in c.get("inits", []) if i.get("field") == "m_data_ptr"]
        ok = False
        why = "m_data_ptr is not initialised as `ti.is_const() ? nullptr : ptr`"
        if ini:
            e = strip_casts(ini[0]["init"])
            if null_when_const(e):
                ok = True
            elif e.get("k") == "call" and e.get("fn") is not None:
                # the choice made in a helper of Data: every return of it is nullptr, the conditional itself, or reached only with `is_const()` false
                g = prog.fn_by_id(c, e["fn"])
                if g is not None and g.get("cls") == DATA and g.get("body"):
                    gflow = FnFlow(g)
                    grets = [n for n in walk(g["body"]) if n.get("k") == "return" and n.get("e") is not None]

                    def ret_ok(rt):
                        x = strip_casts(rt["e"])
                        if (x.get("k") == "lit" and x.get("lt") == "nullptr") or null_when_const(x):
                            return True
                        return any((not t) and strip_casts(a).get("k") == "call" and strip_casts(a).get("name") == "is_const" for a, t in atomic_facts(gflow, rt))
                    if grets and all(ret_ok(rt) for rt in grets):
                        ok = True
                        data_ptr_helpers[strip_targs(g["q"])] = g
                        chk.touched([g])
        r1.ob("Boxed_Value::Data::Data/m_data_ptr null when the type is const", ok, c.where, c["q"], why)
    chk.touched(ctors)
    gp = [f for f in prog.fns if f.get("cls") == BV and f["name"] == "get_ptr"]
    r1.anchor(len(gp) == 1, "Boxed_Value::get_ptr")
    rets = [n for n in walk(gp[0]["body"]) if n.get("k") == "return"]
    okg = len(rets) == 1 and strip_casts(rets[0]["e"]).get("k") == "member" and strip_casts(rets[0]["e"]).get("name") == "m_data_ptr"
    r1.ob("Boxed_Value::get_ptr returns m_data_ptr", okg, gp[0].where, gp[0]["q"], "get_ptr returns something other than the checked mutable pointer")
    writers = {}
    for f in prog.fns:
        if f["tk"] == "pattern" or not f["file"].startswith("include/"):
            continue
        for n in walk_fn(f):
            if n.get("k") == "assign" and strip_casts(n["lhs"]).get("k") == "member" and strip_casts(n["lhs"]).get("q") == DATA + "::m_data_ptr":
                writers.setdefault(strip_targs(f["q"]), (f, n))
    allowed = {DATA + "::operator=": "whole-object copy: type info and pointers copied together from a valid Data",
               BV + "::pointer_sentinel::Sentinel::~Sentinel": "re-reads the pointer of a shared_ptr<T>& handed out for a non-const T (checked below)"}
    for q, (f, n) in sorted(writers.items()):
        r1.ob("%s writes m_data_ptr" % q, q in allowed, "%s:%d" % (f["file"], n["l"]), f["q"],
              "m_data_ptr is assigned outside the enumerated writers: a const object could acquire a mutable pointer")
        chk.touched([f])
    # Data::operator= copies m_type_info from the same rhs
    ops = [f for f in prog.fns if f.get("cls") == DATA and f["name"] == "operator=" and not f.get("defaulted")]
    for f in ops:
        assigned = {strip_casts(n["lhs"]).get("name"): strip_casts(n["rhs"]) for n in walk(f["body"]) if n.get("k") in ("assign", "call") and n.get("k") == "assign"}
        # class-typed members are assigned through operator= calls
        for n in walk(f["body"]):
            if n.get("k") == "call" and n.get("op") == "=" and n.get("obj") is not None and strip_casts(n["obj"]).get("k") == "member":
                assigned[strip_casts(n["obj"])["name"]] = strip_casts(n["args"][0]) if n.get("args") else {}
        ok = all(k in assigned for k in ("m_type_info", "m_data_ptr", "m_const_data_ptr"))
        r1.ob("Boxed_Value::Data::operator= copies type info and both pointers together", ok, f.where, f["q"], "assigned members: %s" % sorted(assigned))
    # sentinel only for non-const T
    sent_calls = []
    for f in prog.fns:
        if f["tk"] == "pattern":
            continue
        for n in walk(f["body"]):
            if is_call_to(prog, f, n, "pointer_sentinel"):
                sent_calls.append((f, n))
    for f, n in sent_calls:
        d = prog.decl(f, n.get("fn"))
        targ = (d.get("targs") or ["?"])[0] if d else "?"
        ok = strip_targs(f["q"]) == "chaiscript::detail::Cast_Helper_Inner::cast" and not targ.startswith("const ")
        r1.ob("pointer_sentinel<%s> used only by the shared_ptr<T>& cast for non-const T" % targ.split("::")[-1][:30], ok, "%s:%d" % (f["file"], n["l"]), f["q"],
              "pointer_sentinel (which rewrites m_data_ptr) instantiated for %s in %s" % (targ, f["q"][:80]))
    r1.require(6, "obligations")

    # ------------------------------------------------------------------ R7.2 const-removal inventory
    r2 = chk.rule("R7.2", "every cast that removes const inside the library is on the allow-list (one named function each, with reason)",
                  "const can only be cast away where a check protects it")
    ALLOW2 = {
        DATA + "::Data": "the const_cast feeding m_data_ptr, neutralised by the is_const() ? nullptr test (R7.1)",
        "chaiscript::detail::Cast_Helper_Inner::cast": "Cast_Helper_Inner<Boxed_Value&>: casts the *handle* (the Boxed_Value object), not the boxed data",
        "chaiscript::bootstrap::shared_ptr_unconst_clone": "clone of a Proxy_Function handle (functions are immutable objects)",
    }
    seen = {}
    for f in prog.fns:
        if f["tk"] == "pattern" or not f["file"].startswith("include/"):
            continue
        for n in walk_fn(f):
            removed = None
            if n.get("k") == "cast" and n.get("ck") in ("const", "cstyle", "reinterpret", "functional"):
                fr, to = prog.T(f, n.get("from")), prog.T(f, n.get("t"))
                if drops_const(fr, to):
                    removed = "%s_cast from '%s' to '%s'" % (n["ck"], fr[:60], to[:60])
            elif n.get("k") == "call" and n.get("name") == "const_pointer_cast":
                d = prog.decl(f, n.get("fn"))
                targ = (d.get("targs") or ["?"])[0] if d else "?"
                if not targ.startswith("const "):
                    removed = "const_pointer_cast<%s>" % targ[:60]
            if removed:
                q = strip_targs(f["q"])
                if q == "chaiscript::detail::Cast_Helper_Inner::cast" and f.get("cls") != "chaiscript::detail::Cast_Helper_Inner<chaiscript::Boxed_Value &>":
                    q = "chaiscript::detail::Cast_Helper_Inner<T>::cast (a data cast, not the Boxed_Value& handle cast)"
                if q not in seen:
                    seen[q] = (f, n, removed)
    # a helper of Data that R7.1 found to feed m_data_ptr and to return non-null only with is_const() false stands where the constructor stood,
    # provided nothing but the Data constructor calls it
    for hq, g in data_ptr_helpers.items():
        callers = {strip_targs(f["q"]) for f in prog.fns if f["tk"] != "pattern" for n in walk_fn(f)
                   if n.get("k") == "call" and n.get("fn") is not None and strip_targs((prog.decl(f, n["fn"]) or {}).get("q") or "") == hq}
        if callers <= {DATA + "::Data"}:
            ALLOW2[hq] = "helper of the Data constructor: returns the pointer only with is_const() false (R7.1), called from nowhere else"
    for q, (f, n, removed) in sorted(seen.items()):
        r2.ob("%s removes const" % q, q in ALLOW2, "%s:%d" % (f["file"], n["l"]), f["q"], "%s: not on the allow-list" % removed)
        chk.touched([f])
    r2.require(3, "const-removing casts")

    # ------------------------------------------------------------------ R7.3 consumers of get_ptr
    r3 = chk.rule("R7.3", "every consumer of Boxed_Value::get_ptr() passes the pointer to the const-checking verifier or dereferences it only under a null check",
                  "arithmetic compound assignment / ++ / -- and reference casts cannot write into a const object")
    agg = {}
    # a helper that only hands the pointer on (`return static_cast<T *>(bv.get_ptr());`) is no consumer: its callers are, and are judged the same way
    forwarders = {}
    for _round in range(3):
        agg = {}
        grew = False
        for f in prog.fns:
            if f["tk"] == "pattern":
                continue
            flow = None
            for n in walk_fn(f):
                if not is_call_to(prog, f, n, "get_ptr", BV):
                    d = prog.decl(f, n.get("fn")) if n.get("k") == "call" and n.get("fn") is not None and forwarders else None
                    if d is None or strip_targs(d.get("q") or "") not in forwarders:
                        continue
                if flow is None:
                    flow = FnFlow(f)
                    locs = ref_inits(f)
                ok, how = consumer_ok(prog, f, flow, locs, n)
                q = strip_targs(f["q"])
                if ok is None:
                    if q not in forwarders:
                        forwarders[q] = f
                        grew = True
                    ok = True
                e = agg.setdefault(q, {"ok": True, "where": "%s:%d" % (f["file"], n["l"]), "fn": f["q"], "n": 0, "how": how})
                e["n"] += 1
                if not ok and e["ok"]:
                    e.update(ok=False, where="%s:%d" % (f["file"], n["l"]), fn=f["q"], how=how)
                chk.touched([f])
        if not grew:
            break
    for q, e in sorted(agg.items()):
        r3.ob("%s consumes get_ptr() safely (%s)" % (q, e["how"] if e["ok"] else "UNSAFE"), e["ok"], e["where"], e["fn"],
              "the mutable pointer is used without the const-checking verifier or a null test: %s [%d sites]" % (e["how"], e["n"]))
    r3.require(2, "get_ptr consumers")

    # ------------------------------------------------------------------ R7.6 verifier overloads
    r6 = chk.rule("R7.6", "the non-const overloads of verify_type / verify_type_no_throw return the pointer only under `!ob.is_const()` and a type comparison",
                  "T&, T*, T&& and reference_wrapper<T> casts of a const object fail")
    vs = [f for f in prog.fns if f["name"] in ("verify_type", "verify_type_no_throw") and f["q"].startswith("chaiscript::detail::") and f["tk"] == "inst"]
    r6.anchor(len(vs) >= 4, "instantiations of verify_type*")
    seen6 = set()
    for f in vs:
        pt = prog.T(f, f["params"][2]["t"])
        mutable = not pt.startswith("const ")
        key = (f["name"], mutable)
        if key in seen6:
            continue
        seen6.add(key)
        flow = FnFlow(f)
        rets = [n for n in walk(f["body"]) if n.get("k") == "return"]
        ok = bool(rets)
        why = ""
        for rt in rets:
            facts = list(atomic_facts(flow, rt))
            has_type = any(t and any(x.get("k") == "call" and x.get("name") in ("operator==", "bare_equal_type_info") for x in walk(a)) for a, t in facts)
            has_const = any((not t) and strip_casts(a).get("k") == "call" and strip_casts(a).get("name") == "is_const" for a, t in facts)
            if not has_type:
                ok, why = False, "pointer returned without a type comparison"
            if mutable and not has_const:
                ok, why = False, "mutable pointer returned without the `!ob.is_const()` test"
        r6.ob("chaiscript::detail::%s(%s pointer)" % (f["name"], "mutable" if mutable else "const"), ok, f.where, f["q"], why)
        chk.touched([f])
    r6.require(4, "verifier overloads")

    # ------------------------------------------------------------------ R7.4 / R7.5 assignment paths
    r4 = chk.rule("R7.4", "in Equation and Prefix nodes the const / temporary tests dominate every mutating continuation; every Boxed_Value::assign has a receiver known undefined or non-const",
                  "=, :=, compound assignment, ++ and -- on a const value fail with an error")
    eqs = [f for f in prog.fns if strip_targs(f.get("cls") or "") == "chaiscript::eval::Equation_AST_Node" and f["name"] == "eval_internal" and f["tk"] == "inst"]
    r4.anchor(eqs, "Equation_AST_Node::eval_internal")
    f = eqs[0]
    chk.touched(eqs[:1])
    flow = FnFlow(f)
    nmut = 0
    for n in walk(f["body"]):
        if n.get("k") == "call" and n.get("name") in ("do_oper", "assign", "call_function"):
            nmut += 1
            # the assigned-to operand is params[0]
            ok = False
            for a, t in atomic_facts(flow, n):
                a = strip_casts(a)
                if a.get("k") == "call" and a.get("name") == "is_const" and not t and "params" in expr_str(prog, f, a.get("obj")) and "0" in expr_str(prog, f, a.get("obj")):
                    ok = True
            r4.ob("Equation::eval_internal/%s after the is_const() test on the left operand" % n["name"], ok, "%s:%d" % (f["file"], n["l"]), f["q"],
                  "mutating continuation %s is not dominated by `if (params[0].is_const()) throw`" % expr_str(prog, f, n)[:60])
    pfs = [f for f in prog.fns if strip_targs(f.get("cls") or "") == "chaiscript::eval::Prefix_AST_Node" and f["name"] == "eval_internal" and f["tk"] == "inst"]
    r4.anchor(pfs, "Prefix_AST_Node::eval_internal")
    f = pfs[0]
    chk.touched(pfs[:1])
    flow = FnFlow(f)
    for n in walk(f["body"]):
        if n.get("k") == "call" and n.get("name") == "do_oper":
            # facts: NOT((++ or --) and is_const)  -- appears as a preceding `if (...) throw`
            ok = False
            for blk in flow.ancestors(n):
                if blk.get("k") != "block":
                    continue
                for s in blk.get("s", []):
                    if s.get("k") == "if" and always_exits(s.get("then")) and s["l"] <= n["l"]:
                        c = expr_str(prog, f, s["cond"])
                        # a named flag (`const bool modifies = oper == ++ || oper == --`) stands for its initialiser
                        plocs = ref_inits(f)
                        for x in walk(s["cond"]):
                            if x.get("k") == "ref" and x.get("rk") == "local":
                                v = plocs.get(x.get("vid"))
                                if v is not None and v.get("init") is not None and not any(y.get("k") == "assign" and strip_casts(y["lhs"]).get("vid") == x.get("vid") for y in walk(f["body"])):
                                    c += " <- " + expr_str(prog, f, v["init"])
                        if "is_const" in c and "pre_increment" in c and "pre_decrement" in c and "&&" in c:
                            ok = True
            r4.ob("Prefix::eval_internal/do_oper after the (++|--) && is_const() test", ok, "%s:%d" % (f["file"], n["l"]), f["q"],
                  "arithmetic ++/-- reaches the kernel without the const test")
    # Boxed_Value::assign call sites
    nassign = 0
    for f in prog.fns:
        if f["tk"] == "pattern" or not f["file"].startswith("include/"):
            continue
        flow = None
        for n in walk(f["body"]):
            if is_call_to(prog, f, n, "assign", BV) and n.get("obj") is not None:
                if flow is None:
                    flow = FnFlow(f)
                nassign += 1
                ok = receiver_is_const_checked(prog, f, flow, n, n["obj"])
                r4.ob("%s: %s.assign(..) on a receiver known undefined or non-const" % (strip_targs(f["q"]), expr_str(prog, f, n["obj"])[:30]), ok,
                      "%s:%d" % (f["file"], n["l"]), f["q"], "Boxed_Value::assign overwrites the receiver's data in place; no dominating is_undef() / !is_const() test")
                chk.touched([f])
    r4.require(8, "assignment obligations")

    # ------------------------------------------------------------------ R7.8 constants are const
    r8 = chk.rule("R7.8", "every value stored in a Constant node (parser literals, optimizer folds) originates from const_var / buildInt / buildFloat / the arithmetic kernel",
                  "literals and folded constants keep their value whatever a script does to what they evaluate to")
    sites = {}
    for f in prog.fns:
        if f["tk"] == "pattern" or not (f["q"].startswith("chaiscript::parser::") or f["q"].startswith("chaiscript::optimizer::")):
            continue
        for n in walk(f["body"]):
            if n.get("k") != "call" or n.get("name") not in ("make_node", "make_unique"):
                continue
            d = prog.decl(f, n.get("fn")) if n.get("fn") is not None else None
            if d is None or not any("Constant_AST_Node<" in t for t in (d.get("targs") or [])[:2]):
                continue
            val = n["args"][-1] if n.get("args") else None
            origin = const_origin(prog, f, val, ref_inits(f))
            if origin[1].startswith("parameter "):
                continue      # forwarding helper (make_node): judged at its callers
            ident = "%s: Constant node value %s" % (strip_targs(f["q"]), origin[1])
            e = sites.setdefault(ident, {"ok": origin[0], "where": "%s:%d" % (f["file"], n["l"]), "fn": f["q"]})
            if not origin[0]:
                e["ok"] = False
            chk.touched([f])
    ALLOW8 = {
        "Boxed_Value{make_shared()}": "the `_` bind placeholder: an object of an internal marker type with no mutating interface",
        "Boxed_Value{true}@For_Guards": "implicit `true` condition of `for(;;)`: evaluated only as a loop condition, never reachable as an lvalue",
    }
    for ident, e in sorted(sites.items()):
        ok = e["ok"]
        if not ok:
            if "Placeholder" in ident or ("Boxed_Value{make_shared" in ident and "::Id" in ident):
                ok = True
                r8.note("allow-listed: %s -- %s" % (ident, ALLOW8["Boxed_Value{make_shared()}"]))
            elif "For_Guards" in ident and "boxed_value{true" in ident.lower():
                ok = True
                r8.note("allow-listed: %s -- %s" % (ident, ALLOW8["Boxed_Value{true}@For_Guards"]))
        r8.ob(ident, ok, e["where"], e["fn"], "a non-const Boxed_Value is stored in a Constant node: `var r := <this constant>; r = other` rewrites the syntax tree")
    r8.require(8, "Constant node constructions")

    # supporting obligation: the arithmetic kernel, which R7.8 accepts as an origin (the optimizer stores its results in Constant nodes),
    # hands out a fresh result only as const_var(..) - never mutable, never marked as a temporary that a declaration may adopt
    kern = [f for f in prog.fns if f["tk"] != "pattern" and f["file"].endswith("dispatchkit/boxed_number.hpp") and
            (((f.get("cls") or "") == "chaiscript::Boxed_Number" and f["name"] in ("go", "oper")) or strip_targs(f["q"]).startswith("chaiscript::Boxed_Number::oper::<lambda"))]
    r8.anchor(len(kern) >= 20, "instantiations of the arithmetic kernel Boxed_Number::go / oper (found %d)" % len(kern))
    chk.touched(kern)
    kbad = {}
    nret = 0
    for f in kern:
        locs = ref_inits(f)
        for n in walk(f["body"]):
            if n.get("k") != "return" or n.get("e") is None:
                continue
            e = strip_casts(n["e"])
            while e.get("k") == "construct" and e.get("copy") and e.get("args"):
                e = strip_casts(e["args"][0])
            if "Boxed_Value" not in prog.T(f, e.get("t")) and not (e.get("k") == "call" and e.get("name") in ("const_var", "visit", "go")):
                continue
            nret += 1
            if e.get("k") == "call" and e.get("name") in ("const_var", "const_var_impl"):
                continue        # fresh result, const
            if e.get("k") == "ref" and e.get("rk") in ("param", "capture") and e.get("name") in ("t_bv", "t_lhs"):
                continue        # the left operand itself, after an in-place operation
            if e.get("k") == "call" and (e.get("name") in ("visit", "go") or (e.get("name") == "operator()" or e.get("op") == "()")):
                continue        # forwards the result of the kernel's own visitor
            kbad.setdefault(expr_str(prog, f, n["e"])[:50], (f, n))
    r8.ob("Boxed_Number::go/oper: a fresh arithmetic result is handed out only as const_var(..) (%d returns in %d instantiations)" % (nret, len(kern)), not kbad,
          "%s:%d" % (kbad[sorted(kbad)[0]][0]["file"], kbad[sorted(kbad)[0]][1]["l"]) if kbad else kern[0].where, kern[0]["q"],
          "the kernel returns %s: the optimizer folds literals through this kernel and stores the result in a Constant node, so a mutable or temporary-marked result "
          "is adopted by the first `var x = <literal expression>` and every later in-place operation on x rewrites the constant in the syntax tree" % sorted(kbad))

    # ------------------------------------------------------------------ R7.9 const returns / const_var / add_global_const
    r9 = chk.rule("R7.9", "const return forms are boxed const; const_var adds const; add_global_const refuses non-const values",
                  "a C++ object shared by const reference / const pointer / shared_ptr<const T> cannot be modified from script")
    seen9 = set()
    for f in prog.fns:
        if f["tk"] != "inst" or not strip_targs(f.get("cls") or "").startswith("chaiscript::dispatch::detail::Handle_Return"):
            continue
        cls = f["cls"]
        ret = first_targ(cls[cls.index("<") + 1:cls.rindex(">")])
        form = return_form(ret)
        if form is None:
            continue
        for n in walk(f["body"]):
            if n.get("k") == "construct" and prog.T(f, n.get("t")) == BV and n.get("args"):
                d = prog.decl(f, n.get("fn"))
                targ = (d.get("targs") or [""])[0] if d else ""
                at = targ or prog.T(f, strip_casts(n["args"][0]).get("t"))
                ok = boxed_const(at)
                key = (form, ok)
                if key in seen9:
                    continue
                seen9.add(key)
                r9.ob("Handle_Return<%s> boxes a const-qualified referent" % form, ok, "%s:%d" % (f["file"], n["l"]), f["q"],
                      "return type %s is boxed as %s: script receives a mutable handle to a const C++ object" % (ret[:60], at[:80]))
                chk.touched([f])
    # R7.7 data members of a const object are handed out const
    seen7 = set()
    for f in prog.fns:
        if f["tk"] != "inst" or strip_targs(f.get("cls") or "") != "chaiscript::dispatch::Attribute_Access":
            continue
        if f["name"] == "do_call_impl" and prog.T(f, f["params"][0]["t"]).startswith("const "):
            for n in walk(f["body"]):
                if n.get("k") == "call" and n.get("name") == "handle":
                    d = prog.decl(f, n.get("fn"))
                    hc = d.get("cls", "") if d else ""
                    arg = first_targ(hc[hc.index("<") + 1:hc.rindex(">")]) if "<" in hc else ""
                    ok = arg.startswith("const ") or arg.endswith("const")
                    if arg in ("chaiscript::Boxed_Value", "chaiscript::Boxed_Number"):
                        # a member that is itself a Boxed_Value handle: constness of handles is shallow by design
                        # (like shared_ptr); noted in DESIGN.md, not part of the claim
                        continue
                    if ok in seen7:
                        continue
                    seen7.add(ok)
                    r9.ob("Attribute_Access::do_call_impl(const Class*) returns the member through a const Handle_Return", ok, "%s:%d" % (f["file"], n["l"]), f["q"],
                          "data member of a const object returned through Handle_Return<%s>" % arg[:60])
                    chk.touched([f])
        if f["name"] == "do_call":
            flow = FnFlow(f)
            for n in walk(f["body"]):
                if n.get("k") == "call" and n.get("name") == "boxed_cast":
                    d = prog.decl(f, n.get("fn"))
                    targ = (d.get("targs") or ["?"])[0] if d else "?"
                    const_arm = any(t and strip_casts(a).get("k") == "call" and strip_casts(a).get("name") == "is_const" for a, t in atomic_facts(flow, n))
                    ok = targ.startswith("const ") if const_arm else True
                    key = ("do_call", const_arm, ok)
                    if key in seen7:
                        continue
                    seen7.add(key)
                    r9.ob("Attribute_Access::do_call/%s arm casts the object to %s" % ("const" if const_arm else "non-const", "const Class*" if const_arm else "Class* (const objects fail the cast)"),
                          ok, "%s:%d" % (f["file"], n["l"]), f["q"], "const object cast to %s" % targ[:60])
                    chk.touched([f])
    cvs = [f for f in prog.fns if f["name"] == "const_var_impl" and f["tk"] == "inst"]
    seenc = set()
    for f in cvs:
        for n in walk(f["body"]):
            if n.get("k") == "construct" and prog.T(f, n.get("t")) == BV and n.get("args"):
                d = prog.decl(f, n.get("fn"))
                targ = (d.get("targs") or [""])[0] if d else ""
                ptype = prog.T(f, f["params"][0]["t"])
                form = "T*" if ptype.endswith("*") else ("shared_ptr" if "shared_ptr" in ptype else ("reference_wrapper" if "reference_wrapper" in ptype else "value"))
                ok = boxed_const(targ)
                if (form, ok) in seenc:
                    continue
                seenc.add((form, ok))
                r9.ob("const_var_impl(%s) boxes a const-qualified object" % form, ok, "%s:%d" % (f["file"], n["l"]), f["q"], "const_var creates %s" % targ[:80])
                chk.touched([f])
    agc = [f for f in prog.fns if f["name"] == "add_global_const" and f.get("cls") == "chaiscript::detail::Dispatch_Engine"]
    r9.anchor(len(agc) == 1, "Dispatch_Engine::add_global_const")
    f = agc[0]
    flow = FnFlow(f)
    ins = [n for n in walk(f["body"]) if n.get("k") == "call" and n.get("name") in ("insert", "emplace", "insert_or_assign")]
    okg = bool(ins)
    for n in ins:
        okg = okg and any(strip_casts(a).get("k") == "call" and strip_casts(a).get("name") == "is_const" and t for a, t in atomic_facts(flow, n))
    r9.ob("Dispatch_Engine::add_global_const inserts only values that are const", okg, f.where, f["q"], "insert not dominated by the is_const() test")
    fw = [f for f in prog.fns if f["name"] == "add_global_const" and f.get("cls") == "chaiscript::ChaiScript_Basic"]
    r9.anchor(len(fw) == 1, "ChaiScript_Basic::add_global_const")
    okf = any(is_call_to(prog, fw[0], n, "add_global_const", "chaiscript::detail::Dispatch_Engine") for n in walk(fw[0]["body"]))
    r9.ob("ChaiScript_Basic::add_global_const forwards to the checking engine function", okf, fw[0].where, fw[0]["q"], "does not forward")
    r9.require(11, "const-creation obligations")

    # ------------------------------------------------------------------ R7.10 elements of const containers
    r10 = chk.rule("R7.10", "a `const Boxed_Value &` handed out by a C++ function (element of a const Vector / Map, member of a const Pair) reaches the script as a const value, not as the mutable handle itself",
                   "mutating container members fail on a const container: its elements keep their values")
    hr = {q: r for q, r in prog.records.items() if q.startswith("chaiscript::dispatch::detail::Handle_Return<") and "Boxed_Value" in q and "std::" not in q}
    r10.anchor(any(q.endswith("<const chaiscript::Boxed_Value &>") for q in hr), "Handle_Return<const Boxed_Value &> (found %s)" % sorted(x.split("Handle_Return")[-1] for x in hr))
    for q, rec in sorted(hr.items()):
        form = q[q.index("<") + 1:-1]
        if not (form.startswith("const ") and form.rstrip().endswith("&")):
            continue
        own = [m for m in rec.get("methods", []) if m.get("name") == "handle" and not m.get("implicit")]
        bases = [b.get("q") for b in rec.get("bases", [])]
        shares_mutable_form = any(b and b.endswith("<chaiscript::Boxed_Value>") for b in bases) and not own
        r10.ob("chaiscript::dispatch::detail::Handle_Return<%s>/a const handle is returned for a const Boxed_Value result" % form, not shares_mutable_form,
               "%s:%d" % (rec["file"], rec["line"]), q,
               "the specialisation inherits handle() from Handle_Return<Boxed_Value>: the element's own (mutable) handle is returned, so `CV[0] = 42` and "
               "`for (x : CV) { x = 99 }` change the contents of a const Vector")
    r10.require(1, "const Boxed_Value return forms")


# =============================================================================== helpers

def first_guard_line(f):
    for n in walk(f["body"]):
        if n.get("k") == "if" and always_exits(n.get("then")):
            return n["l"]
    return 0


def drops_const(fr, to):
    def pointee_const(t):
        t = t.strip()
        # 'const X *', 'const X &', 'const X'
        return t.startswith("const ")
    if fr.startswith("const ") and not to.startswith("const "):
        # value casts (const int -> int) copy: only pointer/reference targets matter
        return to.rstrip().endswith(("*", "&"))
    return False


def consumer_ok(prog, f, flow, locs, n):
    """How is the result of get_ptr() consumed?"""
    p = flow.parent(n)
    chain = [n]
    while p is not None and p.get("k") in ("cast", "cond", "defarg"):
        chain.append(p)
        p = flow.parent(p)
    if p is None:
        return False, "unknown consumer"
    if p.get("k") == "return" and f.get("kind") != "lambda":
        return None, "returned unchanged to the caller, whose use of it is judged"
    if p.get("k") == "call" and p.get("name") in ("verify_type", "verify_type_no_throw"):
        return True, "passed to the const-checking verifier"
    # local pointer variable: all dereferences under `if (ptr)`; may be handed to callees that do the same
    var = None
    for a in [p] + list(flow.ancestors(p)):
        if a.get("k") == "decl":
            for v in a["vars"]:
                if v.get("init") is not None and any(x is n for x in walk(v["init"])):
                    var = v
            break
    if var is None:
        # `T *p = nullptr; if (..) { p = static_cast<T *>(bv.get_ptr()); }`: assigned, not initialised - the same checked local
        for a in [p] + list(flow.ancestors(p)):
            if a.get("k") == "assign" and a.get("op") == "=" and any(x is n for x in walk(a["rhs"])):
                l = strip_casts(a["lhs"])
                if l.get("k") == "ref" and l.get("rk") == "local":
                    for d in walk(f["body"]):
                        if d.get("k") == "decl":
                            for v in d["vars"]:
                                if v["vid"] == l.get("vid"):
                                    var = v
                break
    if var is None:
        return False, "result neither verified nor stored in a checked local"
    vid = var["vid"]
    for x in walk(f["body"]):
        if x.get("k") == "unop" and x.get("op") == "*" and strip_casts(x["e"]).get("vid") == vid:
            guarded = any(t and strip_casts(a).get("k") == "ref" and strip_casts(a).get("vid") == vid for a, t in atomic_facts(flow, x))
            if not guarded:
                return False, "*%s dereferenced outside `if (%s)`" % (var["name"], var["name"])
        if x.get("k") == "call" and x.get("name") in ("operator->",) and x.get("obj") is not None and strip_casts(x["obj"]).get("vid") == vid:
            return False, "member access through the unchecked pointer"
        if x.get("k") == "call" and x.get("fn") is not None:
            for i, a in enumerate(x.get("args", [])):
                if strip_casts(a).get("k") == "ref" and strip_casts(a).get("vid") == vid:
                    callee = prog.fn_by_id(f, x["fn"])
                    if callee is None:
                        return False, "pointer passed to an unanalysed function"
                    if not param_derefs_guarded(prog, callee, i):
                        return False, "pointer passed to %s which dereferences it without a null check" % callee["name"]
        if x.get("k") == "lambda":
            for c in x.get("caps", []):
                if c.get("vid") == vid:
                    tgt = prog.fn_by_id(f, x.get("fn")) if x.get("fn") is not None else None
                    if tgt is None:
                        return False, "pointer captured by an unanalysed lambda"
                    ok = capture_derefs_guarded(prog, tgt, vid)
                    if not ok:
                        return False, "pointer captured by a lambda that uses it unchecked"
    return True, "stored in `%s`, dereferenced only under a null check" % var["name"]


def param_derefs_guarded(prog, callee, idx):
    flow = FnFlow(callee)
    for x in walk(callee["body"]):
        if x.get("k") == "unop" and x.get("op") == "*":
            e = strip_casts(x["e"])
            if e.get("k") == "ref" and e.get("rk") == "param" and e.get("idx") == idx:
                if not any(t and strip_casts(a).get("k") == "ref" and strip_casts(a).get("rk") == "param" and strip_casts(a).get("idx") == idx for a, t in atomic_facts(flow, x)):
                    return False
    return True


def capture_derefs_guarded(prog, lam, vid):
    """the lambda only forwards the captured pointer to callees whose parameter is null-checked before dereference"""
    for x in walk(lam["body"]):
        if x.get("k") == "unop" and x.get("op") == "*" and strip_casts(x["e"]).get("vid") == vid:
            return False
        if x.get("k") == "call" and x.get("fn") is not None:
            for i, a in enumerate(x.get("args", [])):
                if strip_casts(a).get("k") == "ref" and strip_casts(a).get("vid") == vid:
                    callee = prog.fn_by_id(lam, x["fn"])
                    if callee is None or not param_derefs_guarded(prog, callee, i):
                        return False
    return True


def const_origin(prog, f, e, locs, depth=0):
    """(is_const_origin, description) of the expression producing a Constant node's value"""
    e = strip_casts(e)
    if not isinstance(e, dict) or depth > 6:
        return False, "?"
    k = e.get("k")
    if k == "call" and e.get("name") in ("move", "forward") and e.get("args"):
        return const_origin(prog, f, e["args"][0], locs, depth + 1)
    if k == "call" and e.get("name") in ("const_var", "const_var_impl"):
        return True, "const_var(..)"
    if k == "call" and e.get("name") == "do_oper":
        return True, "Boxed_Number::do_oper(..)"
    if k == "call" and e.get("fn") is not None:
        callee = prog.fn_by_id(f, e["fn"])
        if callee is not None:
            rets = [n for n in walk(callee["body"]) if n.get("k") == "return" and n.get("e") is not None]
            if rets:
                cl = ref_inits(callee)
                res = [const_origin(prog, callee, r["e"], cl, depth + 1) for r in rets]
                if all(r[0] for r in res):
                    return True, "%s(..) [all returns const]" % callee["name"]
                bad = [r[1] for r in res if not r[0]]
                return False, "%s(..) returning %s" % (callee["name"] if callee["kind"] != "lambda" else "lambda", bad[0])
        return False, expr_str(prog, f, e)[:40]
    if k == "ref" and e.get("rk") in ("local", "binding"):
        v = locs.get(e.get("vid"))
        if v is not None and v.get("init") is not None:
            return const_origin(prog, f, v["init"], locs, depth + 1)
        return False, "local %s" % e.get("name")
    if k == "construct":
        t = prog.T(f, e.get("t"))
        if t == BV and e.get("args"):
            if e.get("copy"):
                return const_origin(prog, f, e["args"][0], locs, depth + 1)
            s = expr_str(prog, f, e)[:40]
            fnq = strip_targs(f["q"])
            return False, s + ("@For_Guards" if fnq.endswith("For_Guards") else "")
    if k == "ref" and e.get("rk") == "param":
        return False, "parameter %s" % e.get("name")
    return False, expr_str(prog, f, e)[:40]


def first_targ(s):
    depth = 0
    for i, ch in enumerate(s):
        if ch in "<(":
            depth += 1
        elif ch in ">)":
            depth -= 1
        elif ch == "," and depth == 0:
            return s[:i].strip()
    return s.strip()


def return_form(ret):
    r = ret.strip()
    if r.startswith("const ") and r.endswith("&") and "std::function<" not in r and "std::shared_ptr<" not in r and "Boxed_" not in r:
        return "const T&"
    if r.startswith("const ") and r.endswith("*&"):
        return "const T*&"
    if r.startswith("const ") and r.endswith("*"):
        return "const T*"
    if r.startswith("std::shared_ptr<const ") or r.startswith("const std::shared_ptr<const "):
        return "shared_ptr<const T>"
    return None


def boxed_const(at):
    at = at.strip()
    return at.startswith("const ") or "<const " in at or at.startswith("std::reference_wrapper<const ") or "std::shared_ptr<const " in at
