"""C03  Core language semantics match the documented (C++-like) model.

Decided: the skeleton the documented semantics rests on, as tables and shapes extracted from the parser and
the evaluator and compared with the C reference:
  R3.1  operator levels, their order, grouping (associativity) and the node kind built per level;
  R3.2  short-circuit / branch shape of && || ?: and if;
  R3.3  loop-control handlers, cross-checked across the sibling loop implementations;
  R3.4  scope guards of the block-structured constructs;
  R3.5  assignment: right operand first, value copy on first assignment and declaration, none for :=;
  R3.6  lambda captures are evaluated when the lambda is created.
Not decided: that evaluation equals a reference interpreter on generated programs.
"""
import re

from ..ir import walk, strip_targs, AnalysisBroken
from ..flow import FnFlow, strip_casts, expr_str
from . import c02

PARSER = "chaiscript::parser::ChaiScript_Parser"

# C operator levels, loosest first (the subset the language has)
C_LEVELS = [
    ("Ternary_Cond", {"?"}),
    ("Logical_Or", {"||"}),
    ("Logical_And", {"&&"}),
    ("Bitwise_Or", {"|"}),
    ("Bitwise_Xor", {"^"}),
    ("Bitwise_And", {"&"}),
    ("Equality", {"==", "!="}),
    ("Comparison", {"<", "<=", ">", ">="}),
    ("Shift", {"<<", ">>"}),
    ("Addition", {"+", "-"}),
    ("Multiplication", {"*", "/", "%"}),
    ("Prefix", {"++", "--", "-", "+", "!", "~"}),
]
NODE_FOR = {"Ternary_Cond": "If_AST_Node", "Logical_Or": "Logical_Or_AST_Node", "Logical_And": "Logical_And_AST_Node"}


def child_eval_index(n):
    """`children[k]->eval(..)` -> k"""
    if n.get("k") == "call" and n.get("name") == "eval" and n.get("obj") is not None:
        return c02.child_index(n["obj"])
    return None


def run(chk):
    prog = chk.program()
    chk.explanation = ("Table extraction from the parser (operator groups, precedence order, node kind per level, recursion level of each "
                       "operand) compared with the C grammar; shape rules over the evaluator's eval_internal bodies (which child is "
                       "evaluated under which condition, inside which handler, inside which scope guard, in which order).")

    # ------------------------------------------------------------------ R3.1
    r1 = chk.rule("R3.1", "operator levels, their order, their grouping and the node built per level equal C's",
                  "integer/boolean expressions group with C precedence and associativity")
    recs = [(q, r) for q, r in prog.records.items() if q.endswith("::Operator_Matches") and "<" in q]
    r1.anchor(recs, "ChaiScript_Parser::Operator_Matches")
    rec = recs[0][1]
    groups = {}
    for fl in rec["fields"]:
        m = re.match(r"^m_(\d+)$", fl["name"])
        if m:
            groups[int(m.group(1))] = [x["v"] for x in walk(fl.get("init") or {}) if x.get("k") == "lit" and x.get("lt") == "string"]
    r1.anchor(len(groups) == len(C_LEVELS), "12 operator groups m_0..m_11 with initialisers (found %d)" % len(groups))
    co = [f for f in prog.fns if f["name"] == "create_operators" and PARSER in (f.get("cls") or "") and f["tk"] != "pattern"]
    r1.anchor(co, "ChaiScript_Parser::create_operators")
    order = [(x.get("q") or x.get("name")).split("::")[-1] for x in walk(co[0]["body"]) if x.get("k") == "ref" and x.get("rk") == "enum"]
    r1.anchor(len(order) >= 12, "precedence enumerators in create_operators")
    order = order[:12]
    for k, (pname, ops) in enumerate(C_LEVELS):
        r1.ob("level %d is %s and holds exactly %s" % (k, pname, " ".join(sorted(ops))), order[k] == pname and set(groups.get(k, [])) == ops and len(groups.get(k, [])) == len(ops),
              "%s:%d" % (rec["file"], rec["fields"][k]["l"]), recs[0][0],
              "level %d is %s with operators %s; C has %s with %s at this rank" % (k, order[k], groups.get(k), pname, sorted(ops)))
    # group selectors: case k -> m_k
    sel = [f for f in prog.fns if f["name"] in ("is_match", "any_of") and (f.get("cls") or "").endswith("::Operator_Matches") and f["tk"] != "pattern" and
           any(n.get("k") == "switch" for n in walk(f["body"]))]
    r1.anchor(sel, "group selectors of Operator_Matches")
    seen = set()
    for f in sel:
        ident = "Operator_Matches::%s/%d" % (f["name"], len(f["params"]))
        if ident in seen:
            continue
        seen.add(ident)
        bad = []
        ncase = 0
        for n in walk(f["body"]):
            if n.get("k") == "case" and isinstance(n.get("v"), int):
                ncase += 1
                flds = [x.get("name") for x in walk(n.get("sub") or {}) if x.get("k") == "member" and re.match(r"^m_\d+$", x.get("name", ""))]
                if flds != ["m_%d" % n["v"]]:
                    bad.append((n["v"], flds))
        r1.ob("%s selects group k for level k" % ident, ncase == 12 and not bad, f.where, f["q"], "case -> group mismatch: %s (cases %d)" % (bad, ncase))
    # Operator(): node per level, operand levels
    ops = [f for f in prog.fns if f["name"] == "Operator" and PARSER in (f.get("cls") or "") and f["tk"] == "inst"]
    r1.anchor(ops, "ChaiScript_Parser::Operator")
    f = ops[0]
    chk.touched(ops)
    flow = FnFlow(f)
    sw = [n for n in walk(f["body"]) if n.get("k") == "switch"]
    r1.anchor(len(sw) == 1, "switch over the precedence class in Operator()")
    from ..flow import switch_groups
    built = {}
    for grp in switch_groups(sw[0]):
        labels, body = grp["labels"], grp["stmts"]
        names = [l.get("ename", "").split("::")[-1] for l in labels if l.get("ename")]
        nodes = set()
        for st in body:
            for x in walk(st):
                if x.get("k") == "call" and x.get("name") == "build_match":
                    callee = prog.fn_by_id(f, x.get("fn")) if x.get("fn") is not None else None
                    m = re.search(r"build_match<chaiscript::eval::(\w+)<", callee["q"] if callee else "")
                    if m:
                        nodes.add(m.group(1))
        for nm in names:
            built[nm] = nodes
    for pname, _ in C_LEVELS[:-1]:
        want = NODE_FOR.get(pname, "Binary_Operator_AST_Node")
        r1.ob("Operator(): %s builds %s" % (pname, want), built.get(pname) == {want}, "%s:%d" % (f["file"], sw[0]["l"]), f["q"],
              "%s builds %s" % (pname, sorted(built.get(pname, []))))
    # operand levels: every recursive call passes t_precedence + 1, except the third operand of ?: which passes t_precedence (right associative)
    rec_calls = [n for n in walk(f["body"]) if n.get("k") == "call" and n.get("name") == "Operator" and n.get("args")]
    tern = None
    for grp in switch_groups(sw[0]):
        if any((l.get("ename") or "").endswith("Ternary_Cond") for l in grp["labels"]):
            tern = grp["stmts"]
    tern_calls = [x for st in (tern or []) for x in walk(st) if x.get("k") == "call" and x.get("name") == "Operator"]
    n_ok = 0
    for n in rec_calls:
        a = strip_casts(n["args"][0])
        lvl = None
        if a.get("k") == "ref":
            lvl = 0
        elif a.get("k") == "binop" and a.get("op") == "+" and strip_casts(a["lhs"]).get("k") == "ref" and strip_casts(a["rhs"]).get("v") == 1:
            lvl = 1
        is_third = any(n is t for t in tern_calls)
        if is_third:
            r1.ob("Operator(): the else-operand of ?: is parsed at the same level (right associative, as in C)", lvl == 0, "%s:%d" % (f["file"], n["l"]), f["q"],
                  "the third operand is parsed one level tighter: `a ? b : c ? d : e` groups as `(a ? b : c) ? d : e`; C groups it as `a ? b : (c ? d : e)`")
        else:
            n_ok += 1
            r1.ob("Operator(): operand at line-order position %d is parsed one level tighter (left associative binary operators)" % n_ok, lvl == 1,
                  "%s:%d" % (f["file"], n["l"]), f["q"], "operand parsed with level argument %s" % expr_str(prog, f, a))
    r1.anchor(len(tern_calls) == 1, "the else-operand call in the Ternary_Cond case")
    # assignment is right associative: Equation() recurses into Equation() for its right operand
    eqs = [g for g in prog.fns if g["name"] == "Equation" and PARSER in (g.get("cls") or "") and g["tk"] == "inst"]
    r1.anchor(eqs, "ChaiScript_Parser::Equation")
    g = eqs[0]
    calls = [n.get("name") for n in walk(g["body"]) if n.get("k") == "call" and n.get("name") in ("Operator", "Equation")]
    r1.ob("Equation(): left operand is an Operator() expression, right operand recurses into Equation() (right associative)", calls[:1] == ["Operator"] and "Equation" in calls[1:],
          g.where, g["q"], "calls in order: %s" % calls)
    r1.require(20, "obligations")

    # ------------------------------------------------------------------ R3.2
    r2 = chk.rule("R3.2", "&& and || evaluate their right operand only when the left one does not decide; ?: / if evaluate exactly one arm",
                  "short-circuit && and ||, ternary, if/else")
    evs = {}
    for want_tk in ("pattern", "inst"):      # instantiations win; a node kind that is no longer built anywhere is still analysed through its pattern
        for f in prog.fns:
            if f["name"] == "eval_internal" and f["tk"] == want_tk and strip_targs(f.get("cls") or "").startswith("chaiscript::eval::"):
                evs[strip_targs(f.get("cls") or "").split("::")[-1]] = f
    for cls, op in (("Logical_And_AST_Node", "&&"), ("Logical_Or_AST_Node", "||")):
        f = evs.get(cls)
        r2.anchor(f is not None, cls + "::eval_internal")
        chk.touched([f])
        flow = FnFlow(f)
        e0 = [n for n in walk(f["body"]) if child_eval_index(n) == 0]
        e1 = [n for n in walk(f["body"]) if child_eval_index(n) == 1]
        ok = len(e0) == 1 and len(e1) == 1
        if ok:
            # children[1] is reached only with the truth value of children[0] established that does not decide the result:
            # right operand of the C++ operator, or after `if (!lhs) return false` / `if (lhs) return true`, ...
            from ..flow import atomic_facts
            ok = any(any(x is e0[0] for x in walk(a)) and bool(t) == (op == "&&") for a, t in atomic_facts(flow, e1[0]))
        r2.ob("%s: children[1] is evaluated only as the right operand of %s after children[0]" % (cls, op), ok, f.where, f["q"],
              "right operand evaluated unconditionally or under the wrong operator (evaluations: %d, %d)" % (len(e0), len(e1)))
    f = evs.get("If_AST_Node")
    r2.anchor(f is not None, "If_AST_Node::eval_internal")
    chk.touched([f])
    ifs = [n for n in walk(f["body"]) if n.get("k") in ("if", "cond")]
    ok = False
    for n in ifs:
        c = n.get("cond") if n["k"] == "if" else n.get("c")
        a = n.get("then") if n["k"] == "if" else n.get("a")
        b = n.get("else") if n["k"] == "if" else n.get("b")
        ia = {child_eval_index(x) for x in walk(a or {})} - {None}
        ib = {child_eval_index(x) for x in walk(b or {})} - {None}
        ic = {child_eval_index(x) for x in walk(c or {})} - {None}
        if ic == {0} and ia == {1} and ib == {2}:
            ok = True
    total = [child_eval_index(x) for x in walk(f["body"]) if child_eval_index(x) is not None]
    r2.ob("If_AST_Node: children[1] and children[2] are evaluated in opposite arms of a branch on children[0]", ok and sorted(total, key=str) == [0, 1, 2], f.where, f["q"],
          "child evaluations: %s" % total)
    r2.require(3, "obligations")

    # ------------------------------------------------------------------ R3.3
    r3 = chk.rule("R3.3", "every loop implementation catches Continue_Loop inside the iteration and Break_Loop around the loop; switch catches Break_Loop per case and lets Continue_Loop through; the file level turns both into errors; function boundaries catch Return_Value",
                  "while/for/ranged-for with break and continue, switch with fall-through, early return")
    loops = []
    for f in prog.fns:
        if f["tk"] == "pattern" or not f["file"].startswith("include/"):
            continue
        if not (f["q"].startswith("chaiscript::eval::") or f["q"].startswith("chaiscript::optimizer::")):
            continue
        for n in walk(f["body"]):
            if n.get("k") in ("while", "for", "rangefor", "do"):
                body_evals = [x for x in walk(n.get("body") or {}) if x.get("k") == "call" and x.get("name") == "eval" and x.get("obj") is not None]
                if not body_evals:
                    continue
                cls = strip_targs(f["q"])
                if any(s in cls for s in ("While_AST_Node", "For_AST_Node", "Ranged_For_AST_Node", "For_Loop::optimize")):
                    loops.append((f, n))
    ids = set()
    for f, n in loops:
        flow = FnFlow(f)
        ident = "%s/%s loop" % (strip_targs(f["q"]).replace("chaiscript::", ""), n["k"])
        if ident in ids:
            continue
        ids.add(ident)
        chk.touched([f])
        # continue: a try inside the loop body whose handler catches Continue_Loop and which encloses the body evaluation
        cont_ok = False
        for t in walk(n.get("body") or {}):
            if t.get("k") == "try" and any("Continue_Loop" in prog.T(f, h.get("bt")) for h in t["handlers"] if not h.get("all")):
                if any(x.get("k") == "call" and x.get("name") == "eval" for x in walk(t["body"])):
                    h = [h for h in t["handlers"] if not h.get("all") and "Continue_Loop" in prog.T(f, h.get("bt"))][0]
                    cont_ok = not any(x.get("k") in ("throw", "return", "break") for x in walk(h["body"]))
        # break: an enclosing try (outside the loop) catching Break_Loop, handler falls through
        brk_ok = False
        for a in flow.ancestors(n):
            if a.get("k") == "try" and any(x is n for x in walk(a["body"])):
                hs = [h for h in a["handlers"] if not h.get("all") and "Break_Loop" in prog.T(f, h.get("bt"))]
                if hs and not any(x.get("k") in ("throw", "return") for x in walk(hs[0]["body"])):
                    brk_ok = True
        brk_inside = any(t.get("k") == "try" and any("Break_Loop" in prog.T(f, h.get("bt")) for h in t["handlers"] if not h.get("all")) for t in walk(n.get("body") or {}))
        r3.ob("%s: Continue_Loop caught inside the iteration, Break_Loop caught around the loop" % ident, cont_ok and brk_ok and not brk_inside, "%s:%d" % (f["file"], n["l"]), f["q"],
              "continue handled inside iteration: %s; break handled around the loop: %s; break handler inside the iteration: %s" % (cont_ok, brk_ok, brk_inside))
    r3.anchor(len(ids) >= 5, "loop implementations (While, For, two Ranged_For forms, the compiled for); found %s" % sorted(ids))
    f = evs.get("Switch_AST_Node")
    r3.anchor(f is not None, "Switch_AST_Node::eval_internal")
    wl = [n for n in walk(f["body"]) if n.get("k") == "while"]
    hb = [(t, h) for t in walk(f["body"]) if t.get("k") == "try" for h in t["handlers"] if not h.get("all") and "Break_Loop" in prog.T(f, h.get("bt"))]
    hc = [(t, h) for t in walk(f["body"]) if t.get("k") == "try" for h in t["handlers"] if h.get("all") or "Continue_Loop" in prog.T(f, h.get("bt"))]
    inside = bool(wl) and bool(hb) and any(x is hb[0][0] for x in walk(wl[0].get("body") or {}))
    r3.ob("Switch_AST_Node: Break_Loop is caught per case inside the case loop; Continue_Loop is not caught", inside and not hc, f.where, f["q"],
          "break handler inside the case loop: %s; continue/catch-all handlers: %d" % (inside, len(hc)))
    # fall-through: once a label has matched, every later case *and default* body runs until a break
    fl_sw = FnFlow(f)
    body_evals = []
    from ..paths import ref_inits
    sw_locs = ref_inits(f)

    def clause_text(e, depth=0):
        """the evaluated node as text, with local reference aliases (`const auto &clause = *children[i]`) replaced by what they name"""
        txt = expr_str(prog, f, e)
        for x in walk(e):
            if x.get("k") == "ref" and x.get("rk") == "local" and depth < 3:
                v = sw_locs.get(x.get("vid"))
                if v is not None and v.get("ref") and v.get("init") is not None:
                    txt = re.sub(r"\b%s\b" % re.escape(x.get("name") or "?"), "(" + clause_text(v["init"], depth + 1) + ")", txt)
        return txt
    for n in walk(f["body"]):
        if n.get("k") == "call" and n.get("name") == "eval" and n.get("obj") is not None:
            txt = clause_text(n["obj"])
            # a clause's body: children[<index variable>] itself, not its label expression children[..]->children[0]
            if txt.count("children") == 1 and not re.search(r"children\s*\[\]\s*\d", txt):
                body_evals.append(n)
    # the matched-flag: a bool local set to true right after a body evaluation
    flags = {}
    for n in walk(f["body"]):
        if n.get("k") == "assign" and n.get("op") == "=" and strip_casts(n["rhs"]).get("k") == "lit" and strip_casts(n["rhs"]).get("v") is True:
            t = strip_casts(n["lhs"])
            if t.get("k") == "ref" and t.get("rk") == "local":
                flags[t["vid"]] = t.get("name")
    case_ok = default_ok = False
    why_sw = []
    for n in body_evals:
        facts = list(fl_sw.facts(n))
        kinds = set()
        for c, t in facts:
            for x in walk(c):
                if x.get("k") == "ref" and x.get("rk") == "enum" and (x.get("q") or "").startswith("chaiscript::AST_Node_Type::") and t:
                    kinds.add(x["q"].split("::")[-1])
        mentions_flag = [(expr_str(prog, f, c), t) for c, t in facts if any(x.get("k") == "ref" and x.get("vid") in flags for x in walk(c))]
        # facts that only concern loop continuation (`!breaking && ...`) are not about the label
        mentions_flag = [(s_, t) for s_, t in mentions_flag if "currentCase <" not in s_]
        if "Default" in kinds:
            default_ok = not mentions_flag
            if mentions_flag:
                why_sw.append("the default body is evaluated only under %s" % mentions_flag)
        elif "Case" in kinds:
            pos = [s_ for s_, t in mentions_flag if t and "||" in s_]
            case_ok = case_ok or bool(pos)
            if not pos:
                why_sw.append("a case body is not evaluated under `matched-before || label equals`: %s" % mentions_flag)
    r3.ob("Switch_AST_Node: after a label has matched every following case body and the default body run (fall-through)", case_ok and default_ok and bool(flags), f.where, f["q"],
          "; ".join(why_sw) or "matched-flag / body evaluations not recognised (flags %s, evaluations %d)" % (sorted(flags.values()), len(body_evals)))
    f = evs.get("File_AST_Node")
    r3.anchor(f is not None, "File_AST_Node::eval_internal")
    okf = 0
    for t in walk(f["body"]):
        if t.get("k") == "try":
            for h in t["handlers"]:
                bt = "" if h.get("all") else prog.T(f, h.get("bt"))
                if "Continue_Loop" in bt or "Break_Loop" in bt:
                    if any(x.get("k") == "throw" and "eval_error" in prog.T(f, x.get("tt")) for x in walk(h["body"]) if x.get("tt") is not None):
                        okf += 1
    r3.ob("File_AST_Node: break / continue outside a loop become eval_error", okf == 2, f.where, f["q"], "handlers converting to eval_error: %d" % okf)
    rv = set()
    for g in prog.fns:
        if g["tk"] == "pattern" or not g["file"].startswith("include/"):
            continue
        for t in walk(g["body"]):
            if t.get("k") == "try":
                for h in t["handlers"]:
                    if not h.get("all") and "Return_Value" in prog.T(g, h.get("bt")):
                        rets = [x for x in walk(h["body"]) if x.get("k") == "return" and x.get("e") is not None and "retval" in expr_str(prog, g, x["e"])]
                        if rets:
                            rv.add(strip_targs(g["q"]).split("::")[-1] if "AST_Node" not in g["q"] else strip_targs(g.get("cls") or "").split("::")[-1])
    for need in ("eval_function", "do_eval"):
        r3.ob("%s returns the value carried by Return_Value" % need, need in rv, "", "", "handlers returning rv.retval found in: %s" % sorted(rv))
    lgc = c02.compiled_for_closure(prog)
    r3.anchor(lgc is not None, "the compiled for-loop closure")
    okv, whyv = c02.compiled_for_on_variable(prog, lgc)
    r3.ob("compiled for loop: tests and steps the script variable itself and writes it nowhere else (as While/For do by evaluating the script's own condition and step)", okv, lgc.where, strip_targs(lgc["q"]),
          whyv + " - a body that assigns the loop variable, or a closure that reads it after the loop, sees a different loop than the evaluator runs")
    r3.require(10, "obligations")

    # ------------------------------------------------------------------ R3.7
    r7 = chk.rule("R3.7", "overloads are ordered: guarded script functions first among script functions, typed C++ functions before script functions, non-const before const, specific parameter types before the Boxed_Value / Boxed_Number catch-alls",
                  "functions with typed parameters and guards: the most specific applicable definition is tried first")
    flt = [g for g in prog.fns if g["name"] == "function_less_than" and (g.get("cls") or "").endswith("Dispatch_Engine")]
    r7.anchor(flt, "Dispatch_Engine::function_less_than")
    chk.touched(flt)
    for name, (got, want) in sorted(ordering_table(prog, flt[0]).items()):
        r7.ob("function_less_than: %s" % name, got == want, flt[0].where, flt[0]["q"], "comparator yields %s, expected %s" % (got, want))
    r7.require(12, "ordering scenarios")

    # ------------------------------------------------------------------ R3.8 guards and typed parameters gate the body
    r8 = chk.rule("R3.8", "a script function's body is entered only when arity and parameter types matched and the guard, evaluated on the same arguments, returned true; otherwise guard_error (next overload)",
                  "functions with typed parameters and guards: a definition whose guard or types reject the arguments is never run")
    docalls = [g for g in prog.fns if g["name"] == "do_call" and "Dynamic_Proxy_Function_Impl<" in (g.get("cls") or "") and g["tk"] == "inst"]
    r8.anchor(docalls, "Dynamic_Proxy_Function_Impl::do_call instantiations")
    chk.touched(docalls[:1])
    g = docalls[0]
    gflow = FnFlow(g)
    match_bind = None
    for d in walk(g["body"]):
        if d.get("k") == "decl":
            for v in d["vars"]:
                init = strip_casts(v.get("init") or {})
                if v.get("bindings") and init.get("k") == "call" and init.get("name") == "call_match_internal":
                    a0 = strip_casts(init["args"][0]) if init.get("args") else {}
                    while a0.get("k") == "construct" and a0.get("copy"):
                        a0 = strip_casts(a0["args"][0])
                    if a0.get("k") == "ref" and a0.get("rk") == "param" and a0.get("idx") == 0:
                        match_bind = v["bindings"][0]["vid"]
    body_calls = [n for n in walk(g["body"]) if n.get("k") == "call" and n.get("op") == "()" and strip_casts(n.get("obj") or {}).get("name") == "m_f"]
    r8.anchor(body_calls, "calls of the stored body m_f in do_call")
    gated = match_bind is not None and all(any(t is True and strip_casts(c).get("k") == "ref" and strip_casts(c).get("vid") == match_bind for c, t in gflow.facts(n)) for n in body_calls)
    throws = [prog.T(g, n.get("tt")) for n in walk(g["body"]) if n.get("k") == "throw" and n.get("tt") is not None]
    rets_other = [n for n in walk(g["body"]) if n.get("k") == "return" and n.get("e") is not None and not any(x in body_calls for x in walk(n["e"]))]
    r8.ob("Dynamic_Proxy_Function_Impl::do_call: the body is called only under the first component of call_match_internal(params, ..); the other exit throws guard_error",
          gated and not rets_other and any(t.endswith("guard_error") for t in throws), g.where, strip_targs(g["q"]),
          "body calls gated by the match result: %s; returns that are not the body's result: %d; throws %s" % (gated, len(rets_other), throws))
    cmi = [x for x in prog.fns if x["name"] == "call_match_internal" and (x.get("cls") or "").endswith("Dynamic_Proxy_Function")]
    tg = [x for x in prog.fns if x["name"] == "test_guard" and (x.get("cls") or "").endswith("Dynamic_Proxy_Function")]
    r8.anchor(len(cmi) == 1 and len(tg) == 1, "Dynamic_Proxy_Function::call_match_internal / test_guard")
    chk.touched(cmi + tg)
    cm = cmi[0]
    okc, whyc = False, "no `return make_pair(<types matched> && test_guard(vals, ..), ..)` found"
    for n in walk(cm["body"]):
        if n.get("k") == "return" and n.get("e") is not None:
            e = strip_casts(n["e"])
            while e.get("k") == "construct" and e.get("args") and len(e["args"]) == 1:
                e = strip_casts(e["args"][0])
            if e.get("k") == "call" and e.get("name") == "make_pair" and e.get("args"):
                first = strip_casts(e["args"][0])
                if first.get("k") == "binop" and first.get("op") == "&&":
                    l, r = strip_casts(first["lhs"]), strip_casts(first["rhs"])
                    lok = l.get("k") == "member" and l.get("name") == "first"
                    rok = r.get("k") == "call" and r.get("name") == "test_guard" and r.get("args") and strip_casts(r["args"][0]).get("rk") == "param" and strip_casts(r["args"][0]).get("idx") == 0
                    okc = bool(lok and rok)
                    whyc = "first component is `%s`" % expr_str(prog, cm, first)[:100]
                else:
                    whyc = "first component is `%s`: not the conjunction of the type match and the guard" % expr_str(prog, cm, first)[:100]
    # the type-match lambda: (true, _) without a test only for variadic functions; match() only under size == arity
    lam_ok, lam_why = True, ""
    nlam = 0
    for lam in (x for x in prog.fns if x["kind"] == "lambda" and strip_targs(x["q"]).startswith(strip_targs(cm["q"]) + "::<lambda")):
        lflow = FnFlow(lam)
        for n in walk(lam["body"]):
            if n.get("k") != "return" or n.get("e") is None:
                continue
            e = strip_casts(n["e"])
            while e.get("k") == "construct" and e.get("args") and len(e["args"]) == 1:
                e = strip_casts(e["args"][0])
            facts = [(expr_str(prog, lam, c), t) for c, t in lflow.facts(n)]
            nlam += 1
            if e.get("k") == "call" and e.get("name") == "make_pair":
                a = strip_casts(e["args"][0])
                if a.get("k") == "lit" and a.get("v") is True and not any("m_arity" in c and "<" in c and t for c, t in facts):
                    lam_ok, lam_why = False, "returns (true, ..) without `m_arity < 0` established (facts: %s)" % facts
            elif e.get("k") == "call" and e.get("name") == "match":
                if not any("size()" in c and "==" in c and "m_arity" in c and t for c, t in facts):
                    lam_ok, lam_why = False, "calls match() without `vals.size() == m_arity` established (facts: %s)" % facts
            else:
                lam_ok, lam_why = False, "unrecognised result `%s`" % expr_str(prog, lam, e)[:80]
    r8.anchor(nlam >= 3, "returns of the type-match closure in call_match_internal (found %d)" % nlam)
    r8.ob("Dynamic_Proxy_Function::call_match_internal: matched = (arity and parameter types match) && test_guard(same arguments)", okc and lam_ok, cm.where, cm["q"], whyc + "; " + lam_why)
    t = tg[0]
    tflow = FnFlow(t)
    okt, whyt = True, ""
    nt = 0
    for n in walk(t["body"]):
        if n.get("k") != "return" or n.get("e") is None:
            continue
        nt += 1
        e = strip_casts(n["e"])
        facts = [(expr_str(prog, t, c), tr) for c, tr in tflow.facts(n)]
        in_handler = any(a.get("k") == "try" and any(n in list(walk(h["body"])) for h in a["handlers"]) for a in tflow.ancestors(n))
        if e.get("k") == "lit" and e.get("v") is True:
            if not any("m_guard" in c and tr is False for c, tr in facts):
                okt, whyt = False, "returns true although a guard exists (facts %s)" % facts
        elif e.get("k") == "lit" and e.get("v") is False:
            if not in_handler:
                okt, whyt = False, "returns false outside the handlers for a guard that could not be called"
        elif e.get("k") == "call" and e.get("name") == "boxed_cast" and prog.T(t, e.get("t")) == "bool":
            inner = strip_casts(e["args"][0])
            callee = expr_str(prog, t, inner)
            a0 = strip_casts(inner["args"][0]) if inner.get("k") == "call" and inner.get("args") else {}
            if not ("m_guard" in callee and a0.get("rk") == "param" and a0.get("idx") == 0):
                okt, whyt = False, "the guard is not applied to the call's own arguments: %s" % callee[:80]
        else:
            okt, whyt = False, "unrecognised result `%s`" % expr_str(prog, t, e)[:80]
    r8.anchor(nt >= 3, "returns of test_guard")
    r8.ob("Dynamic_Proxy_Function::test_guard: no guard -> true; guard -> its boolean result on the same arguments; a guard that cannot be called -> false", okt, t.where, t["q"], whyt)
    r8.require(3, "obligations")

    # ------------------------------------------------------------------ R3.9 typed parameters: the match table
    r9 = chk.rule("R3.9", "Param_Types::match, interpreted on one parameter over all combinations of its tests, accepts exactly: untyped; script object of the named class (or `Dynamic_Object`); "
                          "C++ value of exactly the named type; C++ value convertible to it (marked as needing conversion) - and rejects unknown type names and everything else",
                  "functions with typed parameters: a definition is applicable only to arguments of the declared types")
    pm = [x for x in prog.fns if x["name"] == "match" and (x.get("cls") or "").endswith("dispatch::Param_Types")]
    r9.anchor(len(pm) == 1, "Param_Types::match")
    chk.touched(pm)
    for name, (got, want) in sorted(param_match_table(prog, pm[0]).items()):
        r9.ob("Param_Types::match: %s" % name, got == want, pm[0].where, pm[0]["q"], "interpretation yields %s, expected %s" % (got, want))
    r9.require(10, "match scenarios")

    # ------------------------------------------------------------------ R3.10 script-defined classes
    r10 = chk.rule("R3.10", "methods and attributes of a script class apply only to objects of that class; a definition named like its class is the constructor, which creates the object, passes it first and returns it",
                   "script-defined classes with attributes, constructors and methods")
    DOF = "chaiscript::dispatch::detail::Dynamic_Object_Function"
    DOC = "chaiscript::dispatch::detail::Dynamic_Object_Constructor"
    dof_call = [x for x in prog.fns if (x.get("cls") or "") == DOF and x["name"] == "do_call"]
    doc_call = [x for x in prog.fns if (x.get("cls") or "") == DOC and x["name"] == "do_call"]
    tm = [x for x in prog.fns if (x.get("cls") or "") == DOF and x["name"] == "dynamic_object_typename_match"]
    r10.anchor(len(dof_call) == 1 and len(doc_call) == 1 and len(tm) == 2, "Dynamic_Object_Function::do_call, Dynamic_Object_Constructor::do_call, dynamic_object_typename_match (2 overloads)")
    chk.touched(dof_call + doc_call + tm)
    g = dof_call[0]
    gflow = FnFlow(g)
    inner = [n for n in walk(g["body"]) if n.get("k") == "call" and n.get("op") == "()" and "m_func" in expr_str(prog, g, n.get("obj") or {})]
    okg = bool(inner) and all(any(t is True and strip_casts(c).get("k") == "call" and strip_casts(c).get("name") == "dynamic_object_typename_match" and
                                  strip_casts(strip_casts(c)["args"][0]).get("rk") == "param" and strip_casts(strip_casts(c)["args"][0]).get("idx") == 0 and
                                  "m_type_name" in expr_str(prog, g, strip_casts(c)["args"][1]) for c, t in gflow.facts(n)) for n in inner)
    throws = [prog.T(g, n.get("tt")) for n in walk(g["body"]) if n.get("k") == "throw" and n.get("tt") is not None]
    rets_other = [n for n in walk(g["body"]) if n.get("k") == "return" and n.get("e") is not None and not any(x in inner for x in walk(n["e"]))]
    r10.ob("Dynamic_Object_Function::do_call: the method body is called only under dynamic_object_typename_match(params, m_type_name, ..); otherwise guard_error",
           okg and not rets_other and any(t.endswith("guard_error") for t in throws), g.where, g["q"], "gated: %s, other returns: %d, throws %s" % (okg, len(rets_other), throws))
    for name, (got, want) in sorted(typename_match_table(prog, tm).items()):
        r10.ob("dynamic_object_typename_match: %s" % name, got == want, tm[0].where, tm[0]["q"], "interpretation yields %s, expected %s" % (got, want))
    # constructor: new object of the class, first argument, arguments in order, the object is the result
    c = doc_call[0]
    locs = {v["vid"]: v for d in walk(c["body"]) if d.get("k") == "decl" for v in d["vars"]}
    objs = [v for v in locs.values() if v.get("init") and any(x.get("k") in ("construct", "call") and "Dynamic_Object" in prog.T(c, x.get("t")) and "Constructor" not in prog.T(c, x.get("t"))
                                                             for x in walk(v["init"])) and "m_type_name" in expr_str(prog, c, v["init"]) and prog.T(c, v["t"]).endswith("Boxed_Value")]
    vecs = [v for v in locs.values() if "vector<" in prog.T(c, v["t"]) and v.get("init") and objs and any(x.get("k") == "ref" and x.get("vid") == objs[0]["vid"] for x in walk(v["init"]))]
    appended = [n for n in walk(c["body"]) if n.get("k") == "call" and n.get("name") == "insert" and vecs and strip_casts(n.get("obj") or {}).get("vid") == vecs[0]["vid"] and
                "end()" in expr_str(prog, c, n["args"][0]) and "params.begin()" in expr_str(prog, c, n["args"][1]) and "params.end()" in expr_str(prog, c, n["args"][2])]
    called = [n for n in walk(c["body"]) if n.get("k") == "call" and n.get("op") == "()" and "m_func" in expr_str(prog, c, n.get("obj") or {}) and vecs and
              any(x.get("k") == "ref" and x.get("vid") == vecs[0]["vid"] for x in walk(n["args"][0]))]
    rets = [n for n in walk(c["body"]) if n.get("k") == "return" and n.get("e") is not None]
    ret_obj = bool(rets) and all(any(x.get("k") == "ref" and objs and x.get("vid") == objs[0]["vid"] for x in walk(r["e"])) and not any(x in called for x in walk(r["e"])) for r in rets)
    order_ok = bool(appended and called) and appended[0]["l"] <= called[0]["l"]
    r10.ob("Dynamic_Object_Constructor::do_call: creates Dynamic_Object(m_type_name), calls the body with (object, arguments in order), returns the object",
           len(objs) == 1 and len(vecs) == 1 and order_ok and ret_obj, c.where, c["q"],
           "new object: %d, parameter vector starting with it: %d, arguments appended in order before the call: %s, result is the object: %s" % (len(objs), len(vecs), order_ok, ret_obj))
    meths = [x for x in prog.fns if strip_targs(x.get("cls") or "") == "chaiscript::eval::Method_AST_Node" and x["name"] == "eval_internal" and x["tk"] == "inst"]
    r10.anchor(meths, "Method_AST_Node::eval_internal")
    chk.touched(meths[:1])
    mfn = meths[0]
    mflow = FnFlow(mfn)
    okm, whym = True, []
    kinds = {}
    for n in walk(mfn["body"]):
        if n.get("k") == "call" and n.get("name") == "make_shared":
            t = prog.T(mfn, n.get("t"))
            kind = "ctor" if DOC in t else ("method" if DOF in t else None)
            if kind is None:
                continue
            facts = [(expr_str(prog, mfn, cnd), tr) for cnd, tr in mflow.facts(n)]
            same = [tr for cnd, tr in facts if cnd.replace(" ", "").strip("()") in ("==function_name,class_name", "==class_name,function_name")]
            kinds[kind] = same
            if same != [kind == "ctor"]:
                okm = False
                whym.append("%s wrapper built under %s" % (kind, facts))
            if "class_name" not in expr_str(prog, mfn, n["args"][0]):
                okm = False
                whym.append("%s wrapper is not bound to the class name" % kind)
    r10.ob("Method_AST_Node: `def C::C` builds the constructor wrapper, any other name a method wrapper bound to class C", okm and set(kinds) == {"ctor", "method"}, mfn.where, strip_targs(mfn["q"]), "; ".join(whym) or str(kinds))
    r10.require(8, "obligations")

    # ------------------------------------------------------------------ R3.11 copying a container copies its values
    r11 = chk.rule("R3.11", "the copy operation registered for a built-in container of values gives every element an object of its own: a Boxed_Value copy is a handle copy, so a container of "
                            "Boxed_Value must be copied element by element (clone), not by the std container's copy constructor",
                   "value copies on `var x = y`: after `var b = a` for a Vector, Map or Pair, assigning to an element of b does not change a")
    bv = prog.records.get("chaiscript::Boxed_Value")
    r11.anchor(bv is not None, "record Boxed_Value")
    shares = any("shared_ptr<" in prog.T(bv["unit"], fl["t"]) for fl in bv["fields"])
    bvcopy = [x for x in prog.fns if x.get("cls") == "chaiscript::Boxed_Value" and x["kind"] == "ctor" and len(x.get("params") or []) == 1 and
              "const chaiscript::Boxed_Value &" in prog.T(x, x["params"][0]["t"])]
    handle_copy = shares and all(x.get("implicit") or x.get("defaulted") or not x.get("body") or not list(walk(x["body"]))[1:] for x in bvcopy)
    r11.note("Boxed_Value holds its object through a shared_ptr and its copy constructor is the defaulted one: copying a Boxed_Value shares the object (%s)" % handle_copy)
    ccs = [x for x in prog.fns if strip_targs(x["q"]) == "chaiscript::bootstrap::copy_constructor" and x["tk"] == "inst"]
    r11.anchor(len(ccs) >= 4, "instantiations of bootstrap::copy_constructor (found %d)" % len(ccs))
    seen11 = set()
    for x in ccs:
        targ = x["q"][len("chaiscript::bootstrap::copy_constructor<"):-1]
        if "chaiscript::Boxed_Value" not in targ or "Bidir_Range" in targ:
            continue
        kindname = re.match(r"(const )?std::(\w+)<", targ)
        label = {"vector": "Vector", "map": "Map", "pair": "Pair" if targ.startswith("std::pair<chaiscript::Boxed_Value") else "Map_Pair"}.get(kindname.group(2) if kindname else "", targ[:40])
        if label not in ("Vector", "Map", "Map_Pair", "Pair"):
            r11.note("not one of the engine's built-in containers (registered by a host/test unit): %s" % targ[:70])
            continue
        if label in seen11:
            continue
        seen11.add(label)
        chk.touched([x])
        elementwise = any(n.get("k") == "call" and n.get("name") in ("clone", "clone_if_necessary", "transform", "for_each") for n in walk(x["body"])) or any(n.get("k") == "lambda" for n in walk(x["body"]))
        std_copy = any(n.get("k") == "call" and n.get("name") == "constructor" for n in walk(x["body"]))
        r11.ob("%s: the registered copy gives every element an object of its own" % label, (not handle_copy) or (elementwise and not std_copy), x.where, strip_targs(x["q"]) + "<" + label + ">",
               "copy_constructor<%s> registers the std container's own copy constructor: the new container holds the same Boxed_Value handles, so `var b = a; b[0] = 9` (or `b.second = ..`) "
               "also changes a" % label)
    r11.require(3, "containers of values")

    # ------------------------------------------------------------------ R3.12 = C02 R2.8 / R2.9: operands survive the optimizer
    if not getattr(chk, "nested", False):
        from .. import core
        r12 = chk.rule("R3.12", "no optimizer pass removes the evaluation of an operand that the evaluator would have evaluated: a node becomes a constant, or is replaced by one of its "
                                "children, only when every other evaluated child is a constant (C02 R2.8 and R2.9 re-decided)",
                       "short-circuit && and ||: the left operand is always evaluated, the right one exactly when the left does not decide - also in optimized programs (`f() && false` still calls f)")
        sub = core.Check("C02", tier=chk.tier)
        sub.prog = prog
        sub.nested = True
        c02.run(sub)
        for rid in ("R2.8", "R2.9"):
            sr = [r for r in sub.rules if r.rid == rid]
            r12.anchor(bool(sr), "C02 " + rid)
            bad = [v for v in sub.violations if v["rule"] == rid]
            for v in bad:
                r12.ob("%s: %s" % (rid, v["instance"]), False, v["where"], v["function"], v["detail"])
            r12.ob("C02 %s decided (%d obligations)" % (rid, sr[0].obligations), True, "", "", "")
        chk.fn_touched |= sub.fn_touched
        r12.require(2, "rules")

    # ------------------------------------------------------------------ R3.13 = C08 R8.3: literals and declarations store copies
    if not getattr(chk, "nested", False):
        from .. import core as _core
        from . import c08 as _c08
        r13 = chk.rule("R3.13", "vector and map literals store clone_if_necessary(..) of every element value, `var x = e` and first assignment store a clone (C08 R8.3 re-decided)",
                       "value copies on `var x = y`: an element of `[a, f(), b]` or a declared variable is an object of its own, unmarked, so the next copying declaration copies it")
        sub8 = _core.Check("C08", tier=chk.tier)
        sub8.prog = prog
        sub8.nested = True
        _c08.run(sub8)
        sr8 = [r for r in sub8.rules if r.rid == "R8.3"]
        r13.anchor(bool(sr8), "C08 R8.3")
        for v in [v for v in sub8.violations if v["rule"] == "R8.3"]:
            r13.ob("R8.3: %s" % v["instance"], False, v["where"], v["function"], v["detail"])
        r13.ob("C08 R8.3 decided (%d obligations)" % sr8[0].obligations, True, "", "", "")
        r13.require(1, "rule")

    # ------------------------------------------------------------------ R3.4
    r4 = chk.rule("R3.4", "block-structured constructs evaluate their children inside a scope of their own",
                  "block-scoped variables with shadowing; nothing declared inside a block, loop, case or try is visible after it")
    scoping = c02.evaluator_scoping(prog)
    want_scoped = {"Block_AST_Node": None, "While_AST_Node": None, "For_AST_Node": None, "Switch_AST_Node": None, "Case_AST_Node": None,
                   "Default_AST_Node": None, "Try_AST_Node": None, "Class_AST_Node": None, "Ranged_For_AST_Node": {1}}
    for cls, allowed_outside in sorted(want_scoped.items()):
        info = scoping.get("chaiscript::eval::" + cls)
        r4.anchor(info is not None, cls + "::eval_internal")
        outside = {idx for (_, idx, g) in info["evals"] if not g}
        ok = bool(info["guards"]) and (not outside or (allowed_outside is not None and outside <= allowed_outside))
        r4.ob("%s evaluates its children under its own scope guard%s" % (cls, "" if not allowed_outside else " (the range expression excepted)"), ok, info["fn"].where, info["fn"]["q"],
              "children evaluated outside the node's Scope_Push_Pop: %s" % sorted(outside, key=str))
    okf, g, whyf = function_frame(prog)
    r4.anchor(g is not None, "eval::detail::eval_function")
    r4.ob("eval_function runs the body in a new call frame (Stack_Push_Pop)", okf, g.where, g["q"], whyf)
    # per-iteration scope in ranged for; per-clause scope in try is C10 R10.4
    r4.require(9, "constructs")

    # ------------------------------------------------------------------ R3.5
    r5 = chk.rule("R3.5", "assignment evaluates the right operand first; first assignment and `var x = e` copy the value (clone_if_necessary); `:=` does not",
                  "value copies on `var x = y` versus aliasing through references")
    f = evs.get("Equation_AST_Node")
    r5.anchor(f is not None, "Equation_AST_Node::eval_internal")
    chk.touched([f])
    order = []
    for g2 in [f] + [prog.fn_by_id(f, x["fn"]) for x in walk(f["body"]) if x.get("k") == "lambda" and x.get("fn") is not None]:
        if g2 is None:
            continue
        for n in walk(g2["body"]):
            i = child_eval_index(n)
            if i is not None:
                order.append((n["l"], i))
    order.sort()
    r5.ob("Equation: children[1] (right operand) is evaluated before children[0]", [i for _, i in order] == [1, 0], f.where, f["q"], "evaluation order by source position: %s" % order)
    flow = FnFlow(f)
    clones = [n for n in walk(f["body"]) if n.get("k") == "call" and n.get("name") == "clone_if_necessary"]
    okc = False
    for n in clones:
        facts = [(expr_str(prog, f, c), t) for c, t in flow.facts(n)]
        if any("is_undef" in s and t for s, t in facts) and any("assign" in s and "==" in s and t for s, t in facts):
            okc = True
    r5.ob("Equation: the first assignment to an undefined variable stores a clone of the value", okc, f.where, f["q"], "clone_if_necessary not under `m_oper == assign && params[0].is_undef()`")
    # := branch: assign without clone
    refassign = [n for n in walk(f["body"]) if n.get("k") == "call" and n.get("name") == "assign" and any("\":=\"" in expr_str(prog, f, c) or "':='" in expr_str(prog, f, c) or ":=" in expr_str(prog, f, c) for c, t in flow.facts(n) if t)]
    r5.ob("Equation: `:=` rebinds the left handle to the right operand's object without copying", bool(refassign) and not any(
        any(":=" in expr_str(prog, f, c) for c, t in flow.facts(n) if t) for n in clones), f.where, f["q"], "reference assignment branch not found or it clones")
    ad = evs.get("Assign_Decl_AST_Node")
    r5.anchor(ad is not None, "Assign_Decl_AST_Node::eval_internal")
    cl = [n for n in walk(ad["body"]) if n.get("k") == "call" and n.get("name") == "clone_if_necessary"]
    add = [n for n in walk(ad["body"]) if n.get("k") == "call" and n.get("name") in ("add_object", "add_get_object")]
    from ..paths import ref_inits as _ri
    adl = _ri(ad)

    def has_eval(e, depth=0):
        """the initialiser's value: `children[1]->eval(..)` written in place or held in a local first"""
        for x in walk(e):
            if x.get("k") == "call" and x.get("name") == "eval":
                return True
            if x.get("k") == "ref" and x.get("rk") == "local" and depth < 2:
                v = adl.get(x.get("vid"))
                if v is not None and v.get("init") is not None and has_eval(v["init"], depth + 1):
                    return True
        return False
    okad = len(cl) == 1 and len(add) == 1 and any(has_eval(a) for a in cl[0].get("args") or []) and cl[0]["l"] <= add[0]["l"]
    r5.ob("Assign_Decl (`var x = e`): the declared variable holds clone_if_necessary(e)", okad, ad.where, ad["q"], "clone: %d, add_object: %d" % (len(cl), len(add)))
    # clone_if_necessary hands back either a fresh copy or the temporary itself with its temporary-flag cleared: a stored value
    # that still counts as a temporary would be aliased (not copied) by the next `var y = x`
    cin = [g for g in prog.fns if g["name"] == "clone_if_necessary" and g["q"].startswith("chaiscript::eval::detail::")]
    r5.anchor(cin, "eval::detail::clone_if_necessary")
    g = cin[0]
    chk.touched(cin[:1])
    flowc = FnFlow(g)
    pvid = g["params"][0]["vid"]
    nret = 0
    badret = []
    for n in walk(g["body"]):
        if n.get("k") != "return" or n.get("e") is None:
            continue
        nret += 1
        e = strip_casts(n["e"])
        while e.get("k") == "call" and e.get("name") in ("move", "forward") and e.get("args"):
            e = strip_casts(e["args"][0])
        while e.get("k") == "construct" and len(e.get("args", [])) == 1 and strip_casts(e["args"][0]).get("vid") == pvid:
            e = strip_casts(e["args"][0])
        if e.get("k") == "ref" and e.get("vid") == pvid:
            cleared = any(x.get("k") == "call" and x.get("name") == "reset_return_value" and x.get("obj") is not None and strip_casts(x["obj"]).get("vid") == pvid
                          for x in flowc.dominating(n))
            if not cleared:
                badret.append(n)
    r5.ob("clone_if_necessary: a value that is handed back uncopied has its temporary-flag cleared first", nret >= 3 and not badret,
          "%s:%d" % (g["file"], (badret[0] if badret else g["body"])["l"]), g["q"],
          "the incoming temporary is returned still flagged as a return value: stored in a variable, attribute or container literal it is later aliased instead of copied "
          "(`var a; a = \"ab\"+\"cd\"; var b = a; b += \"!\"` changes a) and a second assignment to it is refused as 'assign to temporary'")
    r5.require(5, "obligations")

    # ------------------------------------------------------------------ R3.6
    r6 = chk.rule("R3.6", "lambda captures are evaluated when the lambda expression is evaluated, not when the lambda is called",
                  "captures are evaluated at creation and shared by reference")
    f = evs.get("Lambda_AST_Node")
    r6.anchor(f is not None, "Lambda_AST_Node::eval_internal")
    chk.touched([f])
    # the callable handed to make_dynamic_proxy_function must not evaluate children; capture evaluation happens in eval_internal proper
    mk = [n for n in walk(f["body"]) if n.get("k") == "call" and n.get("name") == "make_dynamic_proxy_function"]
    r6.anchor(len(mk) == 1, "make_dynamic_proxy_function call in Lambda_AST_Node::eval_internal")
    inner = [x for x in walk(mk[0]) if x.get("k") == "lambda" and x.get("fn") is not None]
    r6.anchor(inner, "the closure passed to make_dynamic_proxy_function")
    callee = prog.fn_by_id(f, inner[0]["fn"])
    evals_in_call = [x for x in walk(callee["body"]) if x.get("k") == "call" and x.get("name") == "eval" and x.get("obj") is not None]
    cap_evals = []
    for x in walk(f["body"]):
        if x.get("k") == "lambda" and x is not inner[0] and x.get("fn") is not None:
            g2 = prog.fn_by_id(f, x["fn"])
            # immediately invoked closure computing the captures
            cap_evals += [y for y in walk(g2["body"]) if y.get("k") == "call" and y.get("name") == "eval" and y.get("obj") is not None]
    cap_evals += [y for y in walk(f["body"]) if y.get("k") == "call" and y.get("name") == "eval" and y.get("obj") is not None and not any(y is z for z in walk(mk[0]))]
    caps = [c.get("name") for c in inner[0].get("caps", [])]
    r6.ob("Lambda: capture expressions are evaluated in eval_internal and the call-time closure evaluates no child node", bool(cap_evals) and not evals_in_call and "captures" in caps,
          f.where, f["q"], "evaluations at creation: %d, inside the callable: %d, closure captures: %s" % (len(cap_evals), len(evals_in_call), caps))
    byval = [c for c in inner[0].get("caps", []) if c.get("name") == "captures" and not c.get("byref")]
    r6.ob("Lambda: the callable owns its captured values (captured by copy, not by reference to a local)", bool(byval), f.where, f["q"], "`captures` is captured by reference: it dies with eval_internal")
    r6.require(2, "obligations")


# ------------------------------------------------------------------ R3.7 helper: overload ordering as a decision table
def ordering_table(prog, f):
    """evaluate Dispatch_Engine::function_less_than on named scenarios; returns {scenario: bool | None}"""
    flow = FnFlow(f)

    def atom(text):
        t = text.replace(" ", "")
        if "get_guard" in t:
            return "lhs_guard" if "dynamic_lhs" in t else ("rhs_guard" if "dynamic_rhs" in t else None)
        if t.startswith("dynamic_lhs"):
            return "lhs_dyn"
        if t.startswith("dynamic_rhs"):
            return "rhs_dyn"
        if "lt.bare_equal(rt)" in t:
            return "same_type"
        if t.startswith("lt.is_const"):
            return "l_const"
        if t.startswith("rt.is_const"):
            return "r_const"
        if "lt.bare_equal(boxed_type)" in t:
            return "l_boxed"
        if "rt.bare_equal(boxed_type)" in t:
            return "r_boxed"
        if "lt.bare_equal(boxed_pod_type)" in t:
            return "l_number"
        if "rt.bare_equal(boxed_pod_type)" in t:
            return "r_number"
        if t.startswith("i<"):
            return "in_range"
        return None

    def ev(e, env):
        e = strip_casts(e)
        k = e.get("k")
        if k == "lit" and e.get("lt") == "bool":
            return bool(e.get("v"))
        if k == "unop" and e.get("op") == "!":
            v = ev(e["e"], env)
            return None if v is None else (not v)
        if k == "binop" and e.get("op") in ("&&", "||"):
            a, b = ev(e["lhs"], env), ev(e["rhs"], env)
            if e["op"] == "&&":
                if a is False or b is False:
                    return False
                return None if (a is None or b is None) else True
            if a is True or b is True:
                return True
            return None if (a is None or b is None) else False
        if k == "binop" and e.get("op") in ("==", "!="):
            a, b = ev(e["lhs"], env), ev(e["rhs"], env)
            if a is None or b is None:
                return None
            return (a == b) if e["op"] == "==" else (a != b)
        if k == "cond":
            c = ev(e["c"], env)
            if c is None:
                return None
            return ev(e["a"] if c else e["b"], env)
        a = atom(expr_str(prog, f, e))
        if a is None:
            raise AnalysisBroken("C03 R3.7: unrecognised predicate in function_less_than: %s" % expr_str(prog, f, e)[:80])
        return env.get(a)

    rets = [n for n in walk(f["body"]) if n.get("k") == "return" and n.get("e") is not None]

    def decide(env):
        env = dict(env, in_range=True)
        for n in sorted(rets, key=lambda x: x["l"]):
            facts = list(flow.facts(n))
            vals = [(ev(c, env), t) for c, t in facts]
            if any(v is None for v, _ in vals):
                continue
            if all(v == t for v, t in vals):
                return ev(n["e"], env)
        return None

    base = {"lhs_dyn": False, "rhs_dyn": False, "lhs_guard": False, "rhs_guard": False, "same_type": False, "l_const": False, "r_const": False,
            "l_boxed": False, "r_boxed": False, "l_number": False, "r_number": False}
    sc = {
        "guarded script function before unguarded": (dict(base, lhs_dyn=True, rhs_dyn=True, lhs_guard=True, rhs_guard=False), True),
        "unguarded script function not before guarded": (dict(base, lhs_dyn=True, rhs_dyn=True, lhs_guard=False, rhs_guard=True), False),
        "two guarded script functions keep their order": (dict(base, lhs_dyn=True, rhs_dyn=True, lhs_guard=True, rhs_guard=True), False),
        "two unguarded script functions keep their order": (dict(base, lhs_dyn=True, rhs_dyn=True), False),
        "typed C++ function before script function": (dict(base, lhs_dyn=False, rhs_dyn=True), True),
        "script function not before typed C++ function": (dict(base, lhs_dyn=True, rhs_dyn=False), False),
        "non-const parameter before const parameter of the same type": (dict(base, same_type=True, l_const=False, r_const=True), True),
        "const parameter not before non-const parameter of the same type": (dict(base, same_type=True, l_const=True, r_const=False), False),
        "specific parameter before the Boxed_Value catch-all": (dict(base, r_boxed=True), True),
        "Boxed_Value catch-all not before a specific parameter": (dict(base, l_boxed=True), False),
        "specific parameter before the Boxed_Number catch-all": (dict(base, r_number=True), True),
        "Boxed_Number catch-all not before a specific parameter": (dict(base, l_number=True), False),
    }
    return {name: (decide(env), want) for name, (env, want) in sc.items()}


# ------------------------------------------------------------------ R3.9 helper: Param_Types::match as a decision table
def param_match_table(prog, f):
    """interpret the body of Param_Types::match for a one-parameter list under an assignment of its atomic tests;
    result: 'reject' | 'accept' | 'accept+convert'"""
    ATOMS = [
        (r"^m_has_types$", "has_types"),
        (r"^vals\.size\(\) != m_types\.size\(\)$", "size_differs"),
        (r"^name\.empty\(\)$", "untyped"),
        (r"^bv\.get_type_info\(\)\.bare_equal\(dynamic_object_type_info\)$", "is_script_object"),
        (r"^\(?== name,'Dynamic_Object'\)?$", "declared_Dynamic_Object"),
        (r"^\(?== d\.get_type_name\(\),name\)?$", "class_name_equal"),
        (r"^ti\.is_undef\(\)$", "type_unknown"),
        (r"^bv\.get_type_info\(\)\.bare_equal\(ti\)$", "same_type"),
        (r"converts\(ti,bv\.get_type_info\(\)\)$", "convertible"),
    ]

    def atom(txt):
        for pat, name in ATOMS:
            if re.search(pat, txt):
                return name
        return None

    def ev(e, env):
        e = strip_casts(e)
        k = e.get("k")
        if k == "lit":
            return e.get("v")
        if k == "unop" and e.get("op") == "!":
            return not ev(e["e"], env)
        if k == "binop" and e.get("op") in ("&&", "||"):
            a = ev(e["lhs"], env)
            if e["op"] == "&&":
                return a and ev(e["rhs"], env)
            return a or ev(e["rhs"], env)
        if k == "ref" and e.get("rk") == "local" and e.get("name") in env["locals"]:
            return env["locals"][e["name"]]
        if k == "paren":
            return ev(e["e"], env)
        a = atom(expr_str(prog, f, e))
        if a is None:
            raise AnalysisBroken("C03 R3.9: unrecognised test in Param_Types::match: %s" % expr_str(prog, f, e)[:80])
        return env[a]

    class Ret(Exception):
        def __init__(self, v):
            self.v = v

    def pair(e, env):
        e = strip_casts(e)
        while e.get("k") == "construct" and e.get("args") and len(e["args"]) == 1:
            e = strip_casts(e["args"][0])
        if e.get("k") != "call" or e.get("name") != "make_pair":
            raise AnalysisBroken("C03 R3.9: unrecognised result in Param_Types::match: %s" % expr_str(prog, f, e)[:80])
        return ev(e["args"][0], env), ev(e["args"][1], env)

    def ex(n, env):
        if n is None:
            return
        k = n.get("k")
        if k == "block":
            for x in n.get("s", []):
                ex(x, env)
        elif k == "decl":
            for v in n["vars"]:
                init = strip_casts(v.get("init") or {})
                if init.get("k") == "lit" and isinstance(init.get("v"), bool):
                    env["locals"][v["name"]] = init["v"]
        elif k == "if":
            if ev(n["cond"], env):
                ex(n.get("then"), env)
            else:
                ex(n.get("else"), env)
        elif k == "return":
            raise Ret(pair(n["e"], env))
        elif k == "for":
            ex(n.get("body"), env)      # one parameter: the body runs once
        elif k == "try":
            ex(n.get("body"), env)      # the cast of a value already tested to be a script object does not fail
        elif k == "assign" or (k == "expr" and isinstance(n.get("e"), dict) and n["e"].get("k") == "assign"):
            a = n if k == "assign" else n["e"]
            l = strip_casts(a["lhs"])
            if l.get("k") == "ref" and l.get("name") in env["locals"]:
                env["locals"][l["name"]] = ev(a["rhs"], env)
        elif k in ("expr", "null"):
            inner = n.get("e")
            if isinstance(inner, dict):
                ex(inner, env)
        else:
            raise AnalysisBroken("C03 R3.9: unrecognised statement kind %r in Param_Types::match (line %s)" % (k, n.get("l")))

    def decide(**kw):
        env = dict(has_types=True, size_differs=False, untyped=False, is_script_object=False, declared_Dynamic_Object=False, class_name_equal=False,
                   type_unknown=False, same_type=False, convertible=False, locals={})
        env.update(kw)
        try:
            ex(f["body"], env)
        except Ret as r:
            m, c = r.v
            return "reject" if not m else ("accept+convert" if c else "accept")
        return "no result"

    sc = {
        "a parameter list without any type accepts": (decide(has_types=False), "accept"),
        "a different number of arguments is rejected": (decide(size_differs=True), "reject"),
        "an untyped parameter accepts anything": (decide(untyped=True), "accept"),
        "script object of the declared class": (decide(is_script_object=True, class_name_equal=True), "accept"),
        "script object, parameter declared Dynamic_Object": (decide(is_script_object=True, declared_Dynamic_Object=True), "accept"),
        "script object of another class": (decide(is_script_object=True, type_unknown=True), "reject"),
        "script object of another class whose name is also a C++ type": (decide(is_script_object=True, convertible=True), "reject"),
        "C++ value, unknown type name": (decide(type_unknown=True), "reject"),
        "C++ value, unknown type name (a conversion exists for the undefined type)": (decide(type_unknown=True, convertible=True), "reject"),
        "C++ value of exactly the declared type": (decide(same_type=True), "accept"),
        "C++ value convertible to the declared type": (decide(convertible=True), "accept+convert"),
        "C++ value of another, unconvertible type": (decide(), "reject"),
    }
    return sc


# ------------------------------------------------------------------ R3.10 helper
def typename_match_table(prog, fns):
    """interpret the two overloads of Dynamic_Object_Function::dynamic_object_typename_match"""
    one = [f for f in fns if "Function_Params" not in prog.T(f, f["params"][0]["t"])]
    many = [f for f in fns if "Function_Params" in prog.T(f, f["params"][0]["t"])]
    if len(one) != 1 or len(many) != 1:
        raise AnalysisBroken("C03 R3.10: overloads of dynamic_object_typename_match not recognised")
    ATOMS = [
        (r"^bv\.get_type_info\(\)\.bare_equal\(.*m_doti\)$", "is_script_object"),
        (r"^\(?== name,'Dynamic_Object'\)?$", "declared_Dynamic_Object"),
        (r"^\(?== d\.get_type_name\(\),name\)?$", "class_name_equal"),
        (r"^ti(\.operator bool\(\))?$", "cpp_type_known"),
        (r"^bv\.get_type_info\(\)\.bare_equal\(\(ti \* \)\)$", "same_cpp_type"),
        (r"^bvs\.empty\(\)$", "no_arguments"),
    ]

    def run(f, env):
        def atom(txt):
            for pat, name in ATOMS:
                if re.search(pat, txt):
                    return name
            return None

        def ev(e):
            e = strip_casts(e)
            k = e.get("k")
            if k == "lit":
                return e.get("v")
            if k == "unop" and e.get("op") == "!":
                return not ev(e["e"])
            if k == "binop" and e.get("op") == "&&":
                return ev(e["lhs"]) and ev(e["rhs"])
            if k == "binop" and e.get("op") == "||":
                return ev(e["lhs"]) or ev(e["rhs"])
            if k == "call" and e.get("name") == "dynamic_object_typename_match":
                a0 = expr_str(prog, f, e["args"][0])
                if a0.replace(" ", "") not in ("bvs[0]", "(bvs[]0)", "bvs.operator[](0)"):
                    raise AnalysisBroken("C03 R3.10: the parameter-list overload does not test bvs[0] but %s" % a0)
                return env["first"]
            a = atom(expr_str(prog, f, e))
            if a is None:
                raise AnalysisBroken("C03 R3.10: unrecognised test in dynamic_object_typename_match: %s" % expr_str(prog, f, e)[:80])
            return env[a]

        class Ret(Exception):
            pass

        def ex(n):
            if n is None:
                return
            k = n.get("k")
            if k == "block":
                for x in n.get("s", []):
                    ex(x)
            elif k == "if":
                ex(n.get("then") if ev(n["cond"]) else n.get("else"))
            elif k == "try":
                ex(n.get("body"))
            elif k == "return":
                r = Ret()
                r.v = ev(n["e"])
                raise r
            elif k in ("decl", "expr", "null"):
                pass
            else:
                raise AnalysisBroken("C03 R3.10: unrecognised statement kind %r in dynamic_object_typename_match" % k)
        try:
            ex(f["body"])
        except Ret as r:
            return bool(r.v)
        return None

    def single(**kw):
        env = dict(is_script_object=False, declared_Dynamic_Object=False, class_name_equal=False, cpp_type_known=False, same_cpp_type=False)
        env.update(kw)
        return run(one[0], env)

    sc = {
        "script object of the class": (single(is_script_object=True, class_name_equal=True), True),
        "script object, method declared for Dynamic_Object": (single(is_script_object=True, declared_Dynamic_Object=True), True),
        "script object of another class": (single(is_script_object=True), False),
        "script object of another class although the class name is also a C++ type": (single(is_script_object=True, cpp_type_known=True, same_cpp_type=False), False),
        "C++ object of the registered type of that name": (single(cpp_type_known=True, same_cpp_type=True), True),
        "C++ object of another type": (single(cpp_type_known=True), False),
        "C++ object, no C++ type of that name": (single(), False),
        "no arguments at all": (run(many[0], dict(no_arguments=True, first=True)), False),
        "first argument decides (matching)": (run(many[0], dict(no_arguments=False, first=True)), True),
        "first argument decides (not matching)": (run(many[0], dict(no_arguments=False, first=False)), False),
    }
    return sc


def function_frame(prog):
    """eval_function binds `this`, captures and parameters and evaluates the body inside a frame of its own: an automatic Stack_Push_Pop declared, unconditionally,
    before the first binding and before the body is evaluated -> (ok, function, why)"""
    ef = [g for g in prog.fns if g["name"] == "eval_function" and g["q"].startswith("chaiscript::eval::detail::") and g["tk"] == "inst"]
    if not ef:
        return False, None, "eval_function not found"
    g = ef[0]
    flow = FnFlow(g)
    decls = [(n, v) for n in walk(g["body"]) if n.get("k") == "decl" for v in n["vars"] if strip_targs(prog.T(g, v["t"])).endswith("::Stack_Push_Pop")]
    if not decls:
        return False, g, "no automatic Stack_Push_Pop local: the body runs on the caller's stack, where the caller's locals are visible to it"
    dn, dv = decls[0]
    top = g["body"].get("s", [])
    if not any(x is dn for x in top) or dv.get("static") or dv.get("ref"):
        return False, g, "the Stack_Push_Pop is declared conditionally / not as a plain automatic object"
    uses = [n for n in walk(g["body"]) if n.get("k") == "call" and (n.get("name") in ("add_object", "add_get_object") or (n.get("name") == "eval" and n.get("obj") is not None))]
    early = [n for n in uses if n["l"] < dn["l"]]
    if early:
        return False, g, "a binding or the body's evaluation (line %d) precedes the frame" % early[0]["l"]
    return True, g, ""
