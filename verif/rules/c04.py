"""C04  A name resolves to its innermost live binding; lookup caches are invisible.

Decided: a lookup result is a function of the looked-up name on every path: (R4.1) every return of the
lookup functions is control- or data-dependent on a comparison with the name; (R4.2) cached positions are
bounds-checked before they index a scope; (R4.3) the hinted find validates size and key; (R4.4) the local
scope stack is consulted on every path before a global / function is returned.
Not decided: full equivalence with caching disabled on generated programs.
"""
from ..ir import walk, strip_targs, AnalysisBroken
from ..flow import FnFlow, strip_casts, expr_str, always_exits, atomic_facts, same_var
from ..paths import ref_inits

DE = "chaiscript::detail::Dispatch_Engine"


def name_param(prog, f):
    for i, p in enumerate(f["params"]):
        t = prog.T(f, p["t"])
        if "basic_string_view" in t or t.replace(" ", "") in ("constLookup&", "conststd::basic_string<char,std::char_traits<char>,std::allocator<char>>&") or p["name"] in ("s", "name", "t_name"):
            return i
    return None


def mentions(prog, f, e, pidx, locs, depth=0):
    """does expression e (through local initialisers) mention parameter pidx?"""
    if depth > 4:
        return False
    pvid = f["params"][pidx]["vid"] if pidx is not None and pidx < len(f["params"]) else None
    for x in walk(e):
        if x.get("k") == "ref" and x.get("rk") == "param" and x.get("idx") == pidx:
            return True
        if x.get("k") == "lambda" and any(c.get("vid") == pvid for c in x.get("caps", [])):
            return True      # the closure compares against the captured name
        if x.get("k") == "ref" and x.get("rk") in ("local", "binding"):
            v = locs.get(x.get("vid")) or locs.get(x.get("of"))
            if v is not None and v.get("init") is not None and mentions(prog, f, v["init"], pidx, locs, depth + 1):
                return True
    return False


def run(chk):
    prog = chk.program()
    chk.explanation = ("Dependence rules over the lookup functions of Dispatch_Engine and QuickFlatMap: every return is checked for "
                       "control dependence (a dominating condition) or data dependence (the returned expression) on the name "
                       "parameter, following local initialisers; every index taken from a cached hint is dominated by a size "
                       "comparison; the global/function lookup must be dominated by the scan of the local scope stack.")
    chk.assume("a variable can be introduced into an existing scope after a node's first evaluation (eval(), use()): caches are hints only")

    lookups = []
    for f in prog.fns:
        if f["tk"] == "pattern":
            continue
        if f.get("cls") == DE and f["name"] in ("get_object", "get_function", "get_function_object_int", "get_function_object"):
            lookups.append(f)
        if strip_targs(f.get("cls") or "") == "chaiscript::utility::QuickFlatMap" and f["name"] == "find":
            lookups.append(f)
    r1 = chk.rule("R4.1", "every return of a name-lookup function depends on a comparison with the looked-up name (control or data dependence)",
                  "reading or writing an identifier reaches a variable of that name, whatever the per-node cache says")
    r1.anchor(len(lookups) >= 5, "lookup functions (found %d)" % len(lookups))
    seen = set()
    for f in sorted(lookups, key=lambda f: (f["q"], len(f["params"]))):
        pidx = name_param(prog, f)
        if pidx is None:
            continue
        chk.touched([f])
        flow = FnFlow(f)
        locs = ref_inits(f)
        short = "%s/%d" % (strip_targs(f["q"]), len(f["params"]))
        i = 0
        for n in walk(f["body"]):
            if n.get("k") != "return" or n.get("e") is None:
                continue
            i += 1
            e = n["e"]
            data_dep = mentions(prog, f, e, pidx, locs)
            ctrl_dep = any(mentions(prog, f, c, pidx, locs) for c, t in flow.facts(n))
            key = (short, expr_str(prog, f, e)[:50])
            if key in seen:
                continue
            seen.add(key)
            r1.ob("%s: return %s" % key, data_dep or ctrl_dep, "%s:%d" % (f["file"], n["l"]), f["q"],
                  "the returned value depends neither on a condition involving the name nor on a lookup with the name: a cached position decides alone "
                  "(the same code evaluated under a different variable layout returns another variable)")
    r1.require(8, "returns of lookup functions")

    # ------------------------------------------------------------------ R4.2
    r2 = chk.rule("R4.2", "a position taken from a lookup cache indexes a scope stack / scope only under a dominating size comparison",
                  "a stale cache entry cannot read outside the scope vectors")
    go = [f for f in lookups if f["name"] == "get_object" and len(f["params"]) == 3]
    r2.anchor(len(go) == 1, "Dispatch_Engine::get_object(name, loc, holder)")
    f = go[0]
    locs = ref_inits(f)
    nidx = 0
    # get_object itself and the closures it defines (a validation extracted into a local lambda sees the same cached values)
    bodies = [f] + [g for g in prog.fns if g.get("kind") == "lambda" and g["unit"] == f["unit"] and strip_targs(g["q"]).startswith(strip_targs(f["q"]) + "::<lambda")]
    outer_f = f
    for f in bodies:
      flow = FnFlow(f)
      if f is not outer_f:
          locs = dict(ref_inits(outer_f))
          locs.update(ref_inits(f))
      for n in walk(f["body"]):
          idx_expr = None
          what = None
          if n.get("k") == "call" and n.get("name") == "at_index" and n.get("args"):
              idx_expr, what, cont = n["args"][0], "at_index", n.get("obj")
          elif n.get("k") == "call" and n.get("op") == "[]" and n.get("obj") is not None and n.get("args") and strip_casts(n["args"][0]).get("k") != "lit":
              idx_expr, what, cont = n["args"][0], "operator[]", n["obj"]
          elif n.get("k") == "call" and n.get("op") == "+" and n.get("args") and "begin" in expr_str(prog, f, n):
              # iterator arithmetic begin() + idx
              pass
          if idx_expr is None:
              continue
          if not derives_from_cache(prog, f, idx_expr, locs):
              continue
          nidx += 1
          ok = False
          for a, t in atomic_facts(flow, n):
              a = strip_casts(a)
              op = a.get("op") if a.get("k") == "binop" else None
              if op in (">=", "<=") and not t:
                  # the failed early-exit test `if (idx >= size) return ..;` establishes `idx < size`
                  op, t = {">=": "<", "<=": ">"}[op], True
              if op in ("<", ">") and t:
                  # exact bound: `index-variable < container.size()` (or mirrored); `<=` would admit one slot too many
                  small, big = (a["lhs"], a["rhs"]) if op == "<" else (a["rhs"], a["lhs"])
                  if "size" in expr_str(prog, f, big) and "size" not in expr_str(prog, f, small) and mentions_same(prog, f, small, idx_expr, locs):
                      ok = True
          r2.ob("get_object: %s(%s) under a size comparison" % (what, expr_str(prog, f, idx_expr)[:40]), ok, "%s:%d" % (f["file"], n["l"]), f["q"],
                "index derived from the cached location is used without a bounds test: a node evaluated again on a shallower stack / smaller scope reads out of range")
    f = outer_f
    r2.require(1, "cache-derived indexings")

    # ------------------------------------------------------------------ R4.3
    r3 = chk.rule("R4.3", "QuickFlatMap::find(key, hint) returns the hinted position only when it exists and holds the key",
                  "function and global lookups through hints are exact")
    hinted_find(chk, r3, prog, lookups)
    r3.require(1, "hinted returns")

    # ------------------------------------------------------------------ R4.4
    r4 = chk.rule("R4.4", "get_object consults the local scope stack (scan or validated hint) on every path before it returns a global or a function",
                  "an identifier reaches the innermost variable of that name, else the global, else the function")
    f = go[0]
    flow = FnFlow(f)
    glob = [n for n in walk(f["body"]) if n.get("k") == "call" and n.get("name") == "find" and n.get("obj") is not None and "m_global_objects" in expr_str(prog, f, n["obj"])]
    r4.anchor(len(glob) == 1, "the global lookup in get_object")
    scans = [n for n in walk(f["body"]) if n.get("k") in ("for", "rangefor") and any(x.get("k") == "call" and x.get("op") == "==" and mentions(prog, f, x, name_param(prog, f), locs) for x in walk(n.get("body") or {}))]
    r4.anchor(scans, "the scan of the local scope stack in get_object")
    dom = {id(x) for x in flow.dominating(glob[0])}
    # a loop statement dominates if it is an earlier sibling in an enclosing sequence (not inside a conditional arm)
    dominated = False
    cur = glob[0]
    for a in flow.ancestors(glob[0]):
        if a.get("k") == "block":
            sibs = a.get("s", [])
            idx = next((i for i, s in enumerate(sibs) if s is cur), None)
            if idx is not None and any(s in scans or (s.get("k") == "block" and any(x in scans for x in s.get("s", []))) for s in sibs[:idx]):
                dominated = True
        cur = a
    r4.ob("chaiscript::detail::Dispatch_Engine::get_object/global and function lookup is preceded by the local-scope scan on every path", dominated,
          "%s:%d" % (f["file"], glob[0]["l"]), f["q"],
          "when the node's cache says 'not a local' the scope stack is not searched at all: a variable of that name introduced later (eval(), use()) is ignored and the global / function is returned")
    r4.require(1, "obligation")

    # ------------------------------------------------------------------ R4.6 global before function
    r6 = chk.rule("R4.6", "get_object looks the name up among the functions only after the search of the global objects for this name has failed, on every path",
                  "else the global, else the function: a global declared after a node first resolved the name to a function is found when the node is evaluated again")
    fl = [n for n in walk(f["body"]) if n.get("k") == "call" and n.get("name") == "get_function_object_int"]
    r6.anchor(len(fl) == 1, "the function lookup in get_object")
    gvids = {v.get("vid") for d in walk(f["body"]) if d.get("k") == "decl" for v in d["vars"] if v.get("init") and any(x is glob[0] for x in walk(v["init"]))}

    def global_miss(cond, truth):
        c = strip_casts(cond)
        if c.get("k") == "call" and c.get("op") in ("!=", "==") and len(c.get("args", [])) == 2:
            a, b = (strip_casts(x) for x in c["args"])
        elif c.get("k") == "binop" and c.get("op") in ("!=", "=="):
            a, b = strip_casts(c["lhs"]), strip_casts(c["rhs"])
        else:
            return False
        if (c["op"] == "!=") != (truth is False):
            return False
        for x, y in ((a, b), (b, a)):
            is_itr = (x.get("k") == "ref" and x.get("vid") in gvids) or x is glob[0]
            is_end = y.get("k") == "call" and y.get("name") == "end" and y.get("obj") is not None and "m_global_objects" in expr_str(prog, f, y["obj"])
            if is_itr and is_end:
                return True
        return False

    ok6 = any(global_miss(c, t) for c, t in flow.facts(fl[0]))
    r6.ob("chaiscript::detail::Dispatch_Engine::get_object/the function lookup is reached only with 'm_global_objects.find(name) == end()' established", ok6,
          "%s:%d" % (f["file"], fl[0]["l"]), f["q"],
          "a path reaches get_function_object_int without the global map having been searched for the name (or without the miss being tested): a global of that name is "
          "passed over in favour of the function")
    r6.require(1, "obligation")

    # ------------------------------------------------------------------ R4.5 the cached-local path
    r5 = chk.rule("R4.5", "on the cached-local path a value is returned only from the exact remembered slot (after the name test) or from a complete re-resolution, and only after the scopes nearer than the remembered one were checked for the name",
                  "a remembered position never wins over an inner variable of the same name, and a stale position falls back to the innermost-first search")
    # the branch: the `if` whose condition tests the is_local bit of the cached value
    branch = None
    for n in walk(f["body"]):
        if n.get("k") == "if" and "is_local" in expr_str(prog, f, n.get("cond") or {}) and derives_from_cache(prog, f, n["cond"], locs):
            branch = n.get("then")
    r5.anchor(branch is not None, "the cached-local branch of get_object")
    rets = [n for n in walk(branch) if n.get("k") == "return" and n.get("e") is not None]
    r5.anchor(rets, "returns in the cached-local branch")
    searched = []
    exact = 0
    # a value handed out through a local closure (`if (auto *slot = hinted_slot()) return *slot;`) is judged by the closure's own returns
    expanded = []
    for n in rets:
        e = strip_casts(n["e"])
        via = None
        for x in walk(e):
            if x.get("k") == "ref" and x.get("rk") in ("local", "binding", "condvar"):
                v = locs.get(x.get("vid"))
                init = strip_casts(v["init"]) if v is not None and v.get("init") is not None else {}
                if init.get("k") == "call" and init.get("op") == "()" and init.get("fn") is not None:
                    g = prog.fn_by_id(f, init["fn"])
                    if g is not None and g.get("kind") == "lambda":
                        via = g
        if via is None:
            expanded.append((f, n))
        else:
            for r_ in walk(via["body"]):
                if r_.get("k") == "return" and r_.get("e") is not None and not (strip_casts(r_["e"]).get("k") == "lit" and strip_casts(r_["e"]).get("lt") == "nullptr"):
                    expanded.append((via, r_))
    for f_, n in expanded:
        e = strip_casts(n["e"])
        txt = expr_str(prog, f_, e)
        # a slot named first (`const auto &entry = *(scope.begin() + idx); return ... &entry.second ...`) is the expression it names
        locs_ = dict(locs)
        locs_.update(ref_inits(f_))
        for x in list(walk(e)):
            v = locs_.get(x.get("vid")) if x.get("k") == "ref" and x.get("rk") in ("local", "binding") else None
            if v is not None and v.get("init") is not None and any(y.get("k") == "call" and (y.get("name") in ("begin", "at_index") or y.get("op") == "[]") for y in walk(v["init"])):
                txt += " " + expr_str(prog, f_, v["init"])
        if any(x.get("k") == "call" and x.get("name") == "get_object" for x in walk(e)):
            continue          # complete re-resolution
        if any(x.get("k") == "call" and x.get("name") in ("find", "find_if", "count", "lower_bound") for x in walk(e)) or \
                any(x.get("k") == "ref" and x.get("rk") in ("local", "binding") and locs_.get(x.get("vid")) is not None and locs_[x["vid"]].get("init") is not None and
                    any(y.get("k") == "call" and y.get("name") in ("find", "find_if", "lower_bound") for y in walk(locs_[x["vid"]]["init"])) for x in walk(e)):
            searched.append(n)
        elif any(x.get("k") == "call" and x.get("name") in ("at_index", "operator[]") for x in walk(e)) or "begin" in txt or "at_index" in txt:
            exact += 1
    for n in searched:
        r5.ob("get_object/cached-local path returns only the exact remembered slot or a complete re-resolution", False, "%s:%d" % (f["file"], n["l"]), f["q"],
              "returns %s: a search of the remembered scope accepts the name wherever it now sits in that scope and never looks at nearer scopes - "
              "a moved variable plus an inner variable of the same name yields the outer one" % expr_str(prog, f, n["e"])[:60])
    if not searched:
        r5.ob("get_object/cached-local path returns only the exact remembered slot or a complete re-resolution", exact >= 1, f.where, f["q"], "no exact-slot return found")
    # nearer scopes checked?
    inner_checked = False
    for n in walk(branch):
        if n.get("k") in ("for", "rangefor", "while") and any(x.get("k") == "call" and x.get("op") == "==" and mentions(prog, f, x, name_param(prog, f), locs) for x in walk(n.get("body") or {})):
            inner_checked = True
        if n.get("k") == "call" and n.get("name") in ("any_of", "find_if", "none_of") and mentions(prog, f, n, name_param(prog, f), locs):
            inner_checked = True
    r5.ob("chaiscript::detail::Dispatch_Engine::get_object/cached local slot is used only after the scopes nearer than the remembered one were checked for the name", inner_checked,
          f.where, f["q"],
          "the remembered (scope, slot) is returned as soon as it still holds the name: a variable of the same name introduced later into a nearer scope (eval(), use()) is ignored")
    r5.require(2, "obligations")

    # ------------------------------------------------------------------ R4.8 a callee does not see its caller's locals
    from . import c03
    r8 = chk.rule("R4.8", "a script function's body, its parameters, captures and `this` live in a frame of their own (C03 R3.4's frame obligation re-decided): the scope scan of get_object starts in the callee's frame",
                  "a name inside a function reaches the innermost variable in scope there, else the global, else the function - never a local of whoever called it, however the function was called (free call, method call, attribute call)")
    okf, gf, whyf = c03.function_frame(prog)
    r8.anchor(gf is not None, "eval::detail::eval_function")
    chk.touched([gf])
    r8.ob("eval_function opens a new frame unconditionally before it binds anything or evaluates the body", okf, gf.where, gf["q"], whyf)
    r8.require(1, "obligation")

    # ------------------------------------------------------------------ R4.7 evaluated text gets fresh nodes (needed while the cache is layout-dependent)
    r7 = chk.rule("R4.7", "while the per-node cache is not revalidated against the current scope layout (R4.4 / R4.5 fail), source text handed to eval()/eval_file()/use() is evaluated on nodes "
                          "parsed in that very call: the engine stores no syntax tree of evaluated text for reuse",
                  "the same eval(\"x\") text evaluated under different arrangements of local variables resolves x afresh each time")
    layout_dependent = not dominated or not inner_checked
    if not layout_dependent:
        r7.note("R4.4 and R4.5 hold: the caches are layout-independent, reusing parsed trees would be sound; nothing to check")
        r7.ob("not needed: the lookup caches are revalidated on every path", True, "", "", "")
    else:
        CBQ = "chaiscript::ChaiScript_Basic"
        nev = 0
        for g in prog.fns:
            if (g.get("cls") or "") != CBQ or g["tk"] == "pattern":
                continue
            glocs = ref_inits(g)
            for n in walk(g["body"]):
                if not (n.get("k") == "call" and n.get("name") == "eval" and n.get("obj") is not None and "AST_Node" in prog.T(g, strip_casts(n["obj"]).get("t"))):
                    continue
                nev += 1
                chk.touched([g])

                def origin(e, depth=0):
                    e = strip_casts(e)
                    if depth > 6:
                        return "?"
                    if e.get("k") == "call" and e.get("name") == "parse":
                        return "parse"
                    if e.get("k") == "call" and e.get("name") in ("operator->", "operator*", "get") and e.get("obj") is not None:
                        return origin(e["obj"], depth + 1)
                    if e.get("k") == "unop" and e.get("op") in ("*", "&"):
                        return origin(e["e"], depth + 1)
                    if e.get("k") == "ref" and e.get("rk") == "param":
                        return "param"
                    if e.get("k") == "ref" and e.get("rk") == "local":
                        v = glocs.get(e.get("vid"))
                        if v is not None and v.get("init") is not None:
                            # a local that is later re-assigned from storage is not a fresh tree
                            reassigned = any(x.get("k") == "assign" and strip_casts(x["lhs"]).get("vid") == e.get("vid") for x in walk(g["body"]))
                            return "reassigned local" if reassigned else origin(v["init"], depth + 1)
                        return "local without initialiser (assigned later)"
                    return expr_str(prog, g, e)[:60]
                o = origin(n["obj"])
                r7.ob("%s: the tree evaluated at line %d was parsed in this call or handed in by the caller" % (strip_targs(g["q"]), n["l"]), o in ("parse", "param"),
                      "%s:%d" % (g["file"], n["l"]), g["q"],
                      "the evaluated tree comes from `%s`: its nodes keep the lookup caches of an earlier evaluation under another scope layout, and those caches are trusted (R4.4 / R4.5)" % o)
        r7.anchor(nev >= 1, "evaluations of a syntax tree in ChaiScript_Basic (found %d)" % nev)
    r7.require(1, "obligation")


def derives_from_cache(prog, f, e, locs, depth=0):
    """expression derived from the cached location value (the atomic `t_loc` parameter / its local copy `loc`)"""
    if depth > 4:
        return False
    for x in walk(e):
        if x.get("k") == "ref" and x.get("rk") == "param" and "atomic" in prog.T(f, x.get("t")):
            return True
        if x.get("k") == "ref" and x.get("rk") == "local":
            v = locs.get(x.get("vid"))
            if v is not None and v.get("init") is not None and derives_from_cache(prog, f, v["init"], locs, depth + 1):
                return True
    return False


def mentions_same(prog, f, cond, idx_expr, locs):
    """the comparison mentions the same local variable(s) the index expression is built from, or the same sub-expression"""
    ivars = {x.get("vid") for x in walk(idx_expr) if x.get("k") == "ref" and x.get("rk") == "local"}
    cvars = {x.get("vid") for x in walk(cond) if x.get("k") == "ref" and x.get("rk") == "local"}
    if ivars & cvars:
        return True
    # index is an expression over `loc`: accept a comparison over a local initialised from the same expression
    for vid in cvars:
        v = locs.get(vid)
        if v is not None and v.get("init") is not None and expr_str(prog, f, v["init"]) in expr_str(prog, f, idx_expr):
            return True
    return False


def hinted_find(chk, r3, prog, lookups=None):
    """QuickFlatMap::find(key, hint): the hinted position is returned only under `size > hint` and the key comparison"""
    if lookups is None:
        lookups = [f for f in prog.fns if f["tk"] != "pattern" and strip_targs(f.get("cls") or "") == "chaiscript::utility::QuickFlatMap" and f["name"] == "find"]
    hf = [g for g in lookups if g["name"] == "find" and len(g["params"]) == 2]
    r3.anchor(hf, "QuickFlatMap::find(s, hint)")
    seen3 = set()
    for g in hf:
        flow = FnFlow(g)
        for n in walk(g["body"]):
            if n.get("k") == "return" and "next" in expr_str(prog, g, n.get("e") or {}):
                facts = [(expr_str(prog, g, a), t) for a, t in atomic_facts(flow, n)]
                hint = g["params"][1]["name"]

                def in_range(a, t):
                    a = strip_casts(a)
                    op = a.get("op") if a.get("k") == "binop" else None
                    if op in (">=", "<=") and not t:
                        op, t = {">=": "<", "<=": ">"}[op], True
                    if op not in ("<", ">") or not t:
                        return False
                    small, big = (a["lhs"], a["rhs"]) if op == "<" else (a["rhs"], a["lhs"])
                    return strip_casts(small).get("k") == "ref" and strip_casts(small).get("name") == hint and "size" in expr_str(prog, g, big)
                ok = any(in_range(a, t) for a, t in atomic_facts(flow, n)) and any(("comparator" in s or "==" in s) and t for s, t in facts)
                if ok in seen3:
                    continue
                seen3.add(ok)
                r3.ob("QuickFlatMap::find/hinted return under size > hint && key comparison", ok, "%s:%d" % (g["file"], n["l"]), g["q"], "facts: %s" % facts)
        chk.touched([g])
