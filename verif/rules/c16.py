"""C16  Literals denote the values and types they denote in C++.

Decided: (R16.1) keyword / word-literal recognition is by exact spelling -- a hash is never the final word
on lexed text; (R16.2) the escape table of the literal decoder equals C++'s simple-escape table (+ `$`),
octal takes at most 3 digits, hex 2*sizeof(char); (R16.3) malformed escapes cannot be swallowed: no handler
on the parse path swallows eval_error, and every literal decoder object is explicitly finished before it
goes out of scope; (R16.4) the integer literal-typing ladder equals the C++ table on all abstract cases
(suffix flags x base x magnitude class), float suffixes select float / long double / double, Num() maps
prefixes to bases.  Not decided: float accuracy in ulps; the value arithmetic of std::stoll / parse_num.
"""
import itertools

from ..ir import walk, strip_targs, AnalysisBroken
from ..flow import FnFlow, switch_groups, strip_casts, expr_str, always_exits, atomic_facts
from ..absint import AbsInt
from ..paths import ref_inits

PARSER = "chaiscript::parser::ChaiScript_Parser"
CPP_SIMPLE_ESCAPES = {"'": "'", '"': '"', "?": "?", "a": "\a", "b": "\b", "f": "\f", "n": "\n", "r": "\r", "t": "\t", "v": "\v"}
CHAI_EXTRA = {"$": "$"}


def run(chk):
    prog = chk.program()
    chk.explanation = ("Rules over the lexer parts of ChaiScript_Parser and Name_Validator: every use of utility::hash on lexed text "
                       "is enumerated and must be subordinate to an exact string comparison; the escape switch is extracted as a table "
                       "and compared with the C++ simple escapes; a typestate analysis requires Char_Parser::finish() on every normal "
                       "path; the if-ladder of buildInt is extracted as boolean formulas over its flags and range tests and evaluated "
                       "on all 2x6x4 abstract cases against the C++ literal-typing table (LP64).")
    chk.assume("LP64 data model (int 32, long 64, long long 64), as in the analysed build")

    pfns = [f for f in prog.fns if f["tk"] == "inst" and f["q"].startswith(PARSER + "<")]
    members = [f for f in pfns if strip_targs(f.get("cls") or "") == PARSER]

    # ------------------------------------------------------------------ R16.1
    r1 = chk.rule("R16.1", "a hash of lexed text never decides alone: reserved-word lookup compares strings, and the word-literal switch is entered with the text's hash only after an exact match against the literal table",
                  "true, false, Infinity, NaN, __LINE__ ... are recognised by their exact spelling only; every other identifier is an ordinary, usable name")
    rw = [f for f in prog.fns if f["name"] == "is_reserved_word" and f.get("cls") == "chaiscript::Name_Validator" and f["tk"] == "inst"]
    r1.anchor(rw, "Name_Validator::is_reserved_word")
    for f in rw[:1]:
        chk.touched([f])
        hashes = [n for n in walk(f["body"]) if n.get("k") == "call" and n.get("name") == "hash" and not all_literal_args(n)]
        sets = [v for n in walk(f["body"]) if n.get("k") == "decl" for v in n["vars"] if "unordered_set<unsigned int" in prog.T(f, v["t"]) or "set<unsigned int" in prog.T(f, v["t"])]
        r1.ob("Name_Validator::is_reserved_word compares spellings, not hashes", not hashes and not sets, f.where, f["q"],
              "reserved words are looked up by a 32 bit hash of the name: any identifier whose hash collides with a keyword (e.g. `agnpsf` ~ `global`) is rejected as reserved")
    ids = [f for f in members if f["name"] == "Id"]
    r1.anchor(ids, "ChaiScript_Parser::Id")
    f = ids[0]
    chk.touched([f])
    locs = ref_inits(f)
    sws = [n for n in walk(f["body"]) if n.get("k") == "switch"]
    r1.anchor(len(sws) == 1, "the word-literal switch in Id")
    sw = sws[0]
    labels = []
    for g in switch_groups(sw):
        for lab in g["labels"]:
            if lab.get("default"):
                continue
            for x in walk(lab.get("e") or {}):
                if x.get("k") == "lit" and x.get("lt") == "string":
                    labels.append(x["v"])
    # the switch subject
    subj = strip_casts(sw["cond"])
    init = locs.get(subj.get("vid"), {}).get("init") if subj.get("k") == "ref" else subj
    init = strip_casts(init) if init is not None else {}
    ok = False
    why = "the switch subject is the bare hash of the identifier text: an identifier whose hash collides with a word literal (e.g. `ibhcp_i` ~ `true`) lexes as that literal"
    table = []
    if init.get("k") == "cond":
        c = strip_casts(init["c"])
        cv = locs.get(c.get("vid"), {}).get("init") if c.get("k") == "ref" else c
        # the exact-match test may live in a predicate of its own (`is_word_literal_(text)`): judged by that function's return expression
        cvs = strip_casts(cv or {})
        tlocs = locs
        if cvs.get("k") == "call" and cvs.get("fn") is not None and cvs.get("name") not in ("find", "any_of", "count", "binary_search"):
            hfn = prog.fn_by_id(f, cvs["fn"])
            hrets = [x for x in walk(hfn["body"]) if x.get("k") == "return" and x.get("e") is not None] if hfn is not None and hfn.get("body") else []
            if len(hrets) == 1 and len(cvs.get("args") or []) == 1:
                cv = hrets[0]["e"]
                from ..paths import ref_inits as _ri
                tlocs = dict(locs)
                tlocs.update(_ri(hfn))
        # the guard must be an exact-match test of the text against a table of literals
        texts = [x for x in walk(cv or {}) if x.get("k") == "call" and x.get("name") in ("find", "operator==", "any_of", "count", "binary_search")]
        a_hash = [x for x in walk(init["a"]) if x.get("k") == "call" and x.get("name") == "hash"]
        b_hash = [x for x in walk(init["b"]) if x.get("k") == "call" and x.get("name") == "hash"]
        b_lit = all(all_literal_args(x) for x in b_hash) and bool(b_hash)
        for x in walk(cv or {}):
            if x.get("k") == "ref" and x.get("rk") == "local":
                tv = tlocs.get(x.get("vid"))
                if tv is not None and tv.get("init") is not None:
                    table += [y["v"] for y in walk(tv["init"]) if y.get("k") == "lit" and y.get("lt") == "string"]
        ok = bool(texts) and bool(a_hash) and b_lit
        why = "the hash of the text reaches the switch without a preceding exact-match test"
        if ok:
            missing = [l for l in labels if l not in table]
            extra_default = [x for x in b_hash for y in walk(x) if y.get("k") == "lit" and y.get("lt") == "string" and y["v"] in labels]
            if missing:
                ok, why = False, "case labels %s are not in the exact-match table %s" % (missing, table)
            if extra_default:
                ok, why = False, "the non-literal arm maps to a hash that is itself a case label"
    r1.ob("ChaiScript_Parser::Id/word-literal switch (%d labels) is entered only after an exact spelling match" % len(labels), ok, "%s:%d" % (f["file"], sw["l"]), f["q"], why)
    # inventory of all hash() uses on non-literal text under include/
    seen = {}
    for g in prog.fns:
        if g["tk"] == "pattern" or not g["file"].startswith("include/") or g["q"].startswith("chaiscript::utility::"):
            continue
        for n in walk(g["body"]):
            if n.get("k") == "call" and n.get("name") == "hash" and not all_literal_args(n):
                d = prog.decl(g, n.get("fn")) if n.get("fn") is not None else None
                if d is None or not d["q"].startswith("chaiscript::utility::"):
                    continue
                seen.setdefault(strip_targs(g["q"]), (g, n))
    ALLOW = {
        "chaiscript::Operators::to_operator": "closed input set: the node text of an operator node, always one of the operator strings (collision-freedom among them is a finite fact of the table, all labels distinct by construction of the switch)",
        "chaiscript::parser::ChaiScript_Parser::Id": "guarded by the exact-match test checked above",
    }
    for q, (g, n) in sorted(seen.items()):
        r1.ob("%s hashes run-time text" % q, q in ALLOW, "%s:%d" % (g["file"], n["l"]), g["q"], "utility::hash applied to run-time text outside the allow-list")
    r1.require(3, "obligations")

    # ------------------------------------------------------------------ R16.2
    r2 = chk.rule("R16.2", "the escape switch of Char_Parser::parse equals the C++ simple-escape table plus `$`; octal escapes take at most 3 digits, hex escapes 2*sizeof(char_type)",
                  "character and string literals contain exactly the bytes C++ escape decoding yields")
    cps = [f for f in pfns if f["name"] == "parse" and strip_targs(f.get("cls") or "") == PARSER + "::Char_Parser"]
    r2.anchor(cps, "Char_Parser::parse")
    f = cps[0]
    chk.touched([f])
    sws = [n for n in walk(f["body"]) if n.get("k") == "switch"]
    r2.anchor(len(sws) == 1, "escape switch")
    tab = {}
    default_throws = False
    for g in switch_groups(sws[0]):
        pushes = [x for s in g["stmts"] for x in walk(s) if x.get("k") == "call" and x.get("name") == "push_back"]
        for lab in g["labels"]:
            if lab.get("default"):
                default_throws = any(x.get("k") == "throw" and "eval_error" in prog.T(f, x.get("tt")) for s in g["stmts"] for x in walk(s))
            elif lab.get("v") is not None:
                val = None
                if len(pushes) == 1 and pushes[0].get("args"):
                    a = strip_casts(pushes[0]["args"][0])
                    if a.get("k") == "lit" and a.get("lt") == "char":
                        val = a["v"]
                tab[chr(lab["v"])] = None if val is None else chr(val)
    want = dict(CPP_SIMPLE_ESCAPES, **CHAI_EXTRA)
    for esc, ch in sorted(want.items()):
        r2.ob("escape \\%s -> %r" % (esc, ch), tab.get(esc) == ch, "%s:%d" % (f["file"], sws[0]["l"]), f["q"], "\\%s decodes to %r, C++ says %r" % (esc, tab.get(esc), ch))
    for esc in sorted(set(tab) - set(want)):
        r2.ob("no extra escape \\%s" % esc, False, "%s:%d" % (f["file"], sws[0]["l"]), f["q"], "\\%s is accepted but is not a C++ simple escape" % esc)
    r2.ob("unknown escapes are rejected with eval_error", default_throws, "%s:%d" % (f["file"], sws[0]["l"]), f["q"], "default arm does not throw eval_error")
    # digit limits
    lim = {}
    for n in walk(f["body"]):
        if n.get("k") == "binop" and n.get("op") == "==":
            l, r = strip_casts(n["lhs"]), strip_casts(n["rhs"])
            if l.get("k") == "call" and l.get("name") == "size" and l.get("obj") is not None:
                who = strip_casts(l["obj"]).get("name")
                lim[who] = expr_str(prog, f, r)
    r2.ob("octal escape is completed after 3 digits", lim.get("octal_matches") == "3", f.where, f["q"], "octal digit limit is %s" % lim.get("octal_matches"))
    okh = lim.get("hex_matches") is not None
    r2.ob("hex escape is completed after 2*sizeof(char_type) digits (or the escape's own size for \\u/\\U)", okh, f.where, f["q"], "no digit limit on hex escapes")
    r2.require(13, "escape table entries")

    # ------------------------------------------------------------------ R16.3
    r3 = chk.rule("R16.3", "malformed escapes cannot be swallowed: every Char_Parser object is finished explicitly on every normal path; no other handler on the parse path catches eval_error without rethrowing",
                  "malformed escapes are rejected with an error")
    users = []
    for g in pfns:
        for n in walk(g["body"]):
            if n.get("k") == "decl":
                for v in n["vars"]:
                    if strip_targs(prog.T(g, v["t"])).endswith("::Char_Parser"):
                        users.append((g, v))
    r3.anchor(len(users) >= 2, "functions declaring a Char_Parser")
    for g, v in users:
        chk.touched([g])
        vid = v["vid"]

        def tr(n, s, vid=vid):
            if n.get("k") == "vardecl" and n["var"]["vid"] == vid:
                return ("clean",)
            if n.get("k") == "call" and n.get("obj") is not None and strip_casts(n["obj"]).get("vid") == vid:
                if n.get("name") == "parse":
                    return ("pending",)
                if n.get("name") in ("finish", "flush"):
                    return ("clean",)
            return (s,)
        ai = AbsInt(tr)
        fl = ai.exec(g["body"], {"none"})
        exits = fl.returns | fl.normal
        r3.ob("%s: %s.finish() called after the last parse() on every normal path" % (strip_targs(g["q"]), v["name"]), "pending" not in exits, "%s:%d" % (g["file"], v["l"]), g["q"],
              "a path leaves the decoder with an escape possibly pending; only the destructor completes it, and the destructor swallows eval_error: a malformed trailing escape (\"\\u12\") is accepted")
    dt = [g for g in pfns if g["kind"] == "dtor" and strip_targs(g.get("cls") or "") == PARSER + "::Char_Parser"]
    # other swallowing handlers on the parse path
    seen3 = set()
    for g in pfns:
        if g in dt:
            continue
        for n in walk(g["body"]):
            if n.get("k") == "try":
                for hd in n["handlers"]:
                    t = "..." if hd.get("all") else prog.T(g, hd["bt"])
                    if hd.get("all") or "eval_error" in t or t in ("std::exception", "std::runtime_error"):
                        rethrow = any(x.get("k") == "throw" for x in walk(hd["body"])) and always_exits(hd["body"])
                        key = (strip_targs(g["q"]), t)
                        if key in seen3:
                            continue
                        seen3.add(key)
                        r3.ob("%s: catch (%s) rethrows" % key, rethrow, "%s:%d" % (g["file"], hd["l"]), g["q"], "an eval_error raised while parsing is swallowed here")
    r3.require(3, "obligations")

    # ------------------------------------------------------------------ R16.4
    r4 = chk.rule("R16.4", "buildInt's typing ladder yields, for every suffix / base / magnitude class, the type the C++ literal rules give; buildFloat's suffixes select float / long double / double; Num() maps 0x->16, 0b->2, leading 0->8, else 10",
                  "an integer literal evaluates in the first type of the C++ literal-typing sequence able to hold it")
    bis = [f for f in members if f["name"] == "buildInt"]
    r4.anchor(bis, "ChaiScript_Parser::buildInt")
    f = bis[0]
    chk.touched([f])
    ladder_signed, ladder_unsigned = extract_ladders(prog, f)
    ncase = 0
    # the (base, prefixed) argument pairs buildInt is actually called with, taken from Num()
    nums0 = [g for g in members if g["name"] == "Num"]
    r4.anchor(nums0, "Num")
    call_forms = sorted(set(v for v in num_bases(prog, nums0[0]).values() if v is not None and v[0] is not None))
    r4.anchor(len(call_forms) >= 2, "buildInt call forms in Num() (found %s)" % (call_forms,))
    for (uns, lng, ll), (base, prefixed), mag in itertools.product([(0, 0, 0), (1, 0, 0), (0, 1, 0), (1, 1, 0), (0, 1, 1), (1, 1, 1)], call_forms, [0, 1, 2, 3]):
        base10 = base == 10
        want = cpp_literal_type(uns, lng, ll, base10, mag)
        if want is None:
            continue          # ill-formed in C++ (decimal, no u, beyond long long): outside the property's quantifier
        env = {"unsigned_": bool(uns), "long_": bool(lng), "longlong_": bool(ll), "base10": base10, "base": base, "prefixed": bool(prefixed), "mag": mag,
               "__locals__": named_flags(f)}
        def res(call, f=f):
            d = prog.decl(f, call.get("fn")) if call.get("fn") is not None else None
            c = (d or {}).get("cls", "")
            return c[c.index("<") + 1:c.rindex(">")] if "<" in c else None
        got = eval_ladder(ladder_signed if mag < 3 else ladder_unsigned, env, res)
        ncase += 1
        sfx = ("u" if uns else "") + ("ll" if ll else ("l" if lng else ""))
        r4.ob("buildInt/%s literal, suffix '%s', magnitude class %d -> %s" % ({10: "decimal", 16: "hex", 8: "octal", 2: "binary"}.get(base, "base %s" % base), sfx, mag, want), got == want, f.where, f["q"],
              "typed %s, C++ gives %s" % (got, want))
    bfs = [g for g in members if g["name"] == "buildFloat"]
    r4.anchor(bfs, "buildFloat")
    g = bfs[0]
    chk.touched([g])
    seq = float_ladder(prog, g)
    r4.ob("buildFloat/suffix f -> float, l -> long double, none -> double", seq == [("float_", "float"), ("long_", "long double"), (None, "double")], g.where, g["q"], "ladder is %s" % seq)
    nums = [g for g in members if g["name"] == "Num"]
    r4.anchor(nums, "Num")
    g = nums[0]
    chk.touched([g])
    bases = num_bases(prog, g)
    want_b = {"Hex_": (16, True), "Binary_": (2, True), "leading0": (8, False), "other": (10, False)}
    for k, v in want_b.items():
        r4.ob("Num/%s -> buildInt(base %d, prefixed=%s)" % (k, v[0], v[1]), bases.get(k) == v, g.where, g["q"], "got %s" % (bases.get(k),))
    r4.require(60, "ladder cases")

    # ------------------------------------------------------------------ R16.5 UTF-8 encoding table
    r5 = chk.rule("R16.5", "\\u / \\U escapes are encoded with the UTF-8 table: thresholds 0x80 / 0x800 / 0x10000 / 0x200000, lead bytes 0xC0 / 0xE0 / 0xF0, continuation bytes 0x80 | 6 bits, most significant group first",
                  "\\u and \\U escapes contain exactly the bytes of the UTF-8 encoding of the code point")
    pus = [g for g in prog.fns if g["name"] == "process_unicode" and "Char_Parser" in (g.get("cls") or "") and g["tk"] == "inst"]
    r5.anchor(pus, "Char_Parser::process_unicode")
    g = pus[0]
    chk.touched(pus[:1])
    WANT = {0x80: [], 0x800: [(0xC0, 6, None), (0x80, 0, 0x3F)], 0x10000: [(0xE0, 12, None), (0x80, 6, 0x3F), (0x80, 0, 0x3F)],
            0x200000: [(0xF0, 18, None), (0x80, 12, 0x3F), (0x80, 6, 0x3F), (0x80, 0, 0x3F)]}

    def byte_form(e):
        """`LEAD | (ch >> S)` / `LEAD | ((ch >> S) & M)` / `LEAD | (ch & M)` -> (LEAD, S, M)"""
        e = strip_casts(e)
        if e.get("k") != "binop" or e.get("op") != "|":
            return None
        lead = strip_casts(e["lhs"])
        rest = strip_casts(e["rhs"])
        if lead.get("k") != "lit":
            return None
        mask = None
        if rest.get("k") == "binop" and rest.get("op") == "&":
            m = strip_casts(rest["rhs"])
            mask = m.get("v") if m.get("k") == "lit" else "?"
            rest = strip_casts(rest["lhs"])
        shift = 0
        if rest.get("k") == "binop" and rest.get("op") == ">>":
            sh = strip_casts(rest["rhs"])
            shift = sh.get("v") if sh.get("k") == "lit" else "?"
            rest = strip_casts(rest["lhs"])
        if rest.get("k") != "ref":
            return None
        return (lead.get("v"), shift, mask)

    arms = {}
    for n in walk(g["body"]):
        if n.get("k") == "if":
            c = strip_casts(n.get("cond") or {})
            if c.get("k") == "binop" and c.get("op") in ("<", "<=") and strip_casts(c["rhs"]).get("k") == "lit" and strip_casts(c["lhs"]).get("k") == "ref":
                thr = strip_casts(c["rhs"]).get("v") + (1 if c["op"] == "<=" else 0)      # exclusive upper bound of the arm
                forms = {}
                applen = None
                for x in walk(n.get("then") or {}):
                    if x.get("k") == "assign" and x.get("op") == "=" and strip_casts(x["lhs"]).get("k") == "subscript":
                        idx = strip_casts(strip_casts(x["lhs"])["idx"]).get("v")
                        forms[idx] = byte_form(x["rhs"])
                    if x.get("k") == "call" and x.get("name") == "append" and len(x.get("args", [])) == 2:
                        applen = strip_casts(x["args"][1]).get("v")
                arms[thr] = ([forms.get(i) for i in range(len(forms))], applen)
    r5.anchor(len(arms) >= 4, "the four range arms of process_unicode (found thresholds %s)" % sorted(arms))
    for thr, want in sorted(WANT.items()):
        got = arms.get(thr)
        ok = got is not None and got[0] == want and (got[1] == len(want) if want else True)
        r5.ob("process_unicode: code points below 0x%X are encoded as %d byte(s) %s" % (thr, max(1, len(want)), [("0x%X|ch>>%d%s" % (a, b, "&0x%X" % c if c else "")) for a, b, c in want]),
              ok, g.where, g["q"], "arm is %s" % (got,))
    extra = sorted(set(arms) - set(WANT))
    r5.ob("process_unicode: no further range arms (code points from 0x200000 are rejected)", not extra, g.where, g["q"], "unexpected thresholds %s" % [hex(x) for x in extra])
    r5.require(5, "encoding arms")

    # ------------------------------------------------------------------ R16.7 the floating literal's digit arithmetic
    r7 = chk.rule("R16.7", "parse_num<T> for floating T accumulates in floating types at least as wide as T (no integer variable is scaled per digit), scales by ten per digit on both sides of the point and applies the exponent as a power of ten",
                  "a floating literal evaluates to (within a few ulps of) the written value however many digits it has: no accumulator can wrap")
    RANK = {"float": 1, "double": 2, "long double": 3}
    pn = [f for f in prog.fns if f["name"] == "parse_num" and f["q"].startswith("chaiscript::parse_num") and f["tk"] == "inst" and
          prog.T(f, f.get("ret")) in RANK] if any("ret" in f for f in prog.fns[:50]) else []
    if not pn:
        pn = [f for f in prog.fns if f["name"] == "parse_num" and f["q"].startswith("chaiscript::parse_num") and f["tk"] == "inst" and
              any(t in RANK for t in ((prog.decl(f, f.get("id")) or {}).get("targs") or []))]
    r7.anchor(len(pn) >= 3, "floating instantiations of parse_num (found %d)" % len(pn))
    chk.touched(pn)
    seen7 = set()
    for f in pn:
        T = next((t for t in ((prog.decl(f, f.get("id")) or {}).get("targs") or []) if t in RANK), None) or prog.T(f, f.get("ret"))
        if T in seen7 or T not in RANK:
            continue
        seen7.add(T)
        locs = {v["vid"]: v for d in walk(f["body"]) if d.get("k") == "decl" for v in d["vars"]}
        bad = []
        scaled = {}
        for n in walk(f["body"]):
            if n.get("k") == "assign" and n.get("op") in ("*=", "+=", "/=", "-="):
                l = strip_casts(n["lhs"])
                v = locs.get(l.get("vid"))
                if v is None:
                    continue
                vt = prog.T(f, v["t"]).replace("const ", "").strip()
                if RANK.get(vt, 0) < RANK[T]:
                    bad.append("`%s` of type %s is updated with %s once per digit" % (v["name"], vt, n["op"]))
                if n["op"] == "*=":
                    r = strip_casts(n["rhs"])
                    scaled.setdefault(v["name"], set()).add(r.get("v") if r.get("k") == "lit" else expr_str(prog, f, r))
            if n.get("k") == "binop" and n.get("op") == "/":
                r = strip_casts(n["rhs"])
                while r.get("k") in ("construct", "call") and r.get("args") and len(r["args"]) == 1 and r.get("name") in (None, "static_cast"):
                    r = strip_casts(r["args"][0])
                v = locs.get(r.get("vid"))
                if v is not None and RANK.get(prog.T(f, v["t"]).replace("const ", "").strip(), 0) < RANK[T]:
                    bad.append("the digit is divided by `%s` of type %s" % (v["name"], prog.T(f, v["t"])))
        tens = all(vals <= {10, 10.0} for vals in scaled.values()) and len(scaled) >= 2
        # the fraction's place value: the variable the digit is divided by
        divisors = set()
        for n in walk(f["body"]):
            if n.get("k") == "binop" and n.get("op") == "/":
                r = strip_casts(n["rhs"])
                while r.get("k") in ("construct", "call") and r.get("args") and len(r["args"]) == 1:
                    r = strip_casts(r["args"][0])
                if r.get("vid") in locs:
                    divisors.add(r["vid"])

        def lit_of(e):
            e = strip_casts(e)
            while e.get("k") in ("construct", "initlist") and e.get("args") and len(e["args"]) == 1:
                e = strip_casts(e["args"][0])
            return e.get("v") if e.get("k") == "lit" else None
        point = [n for n in walk(f["body"]) if n.get("k") == "assign" and n.get("op") == "=" and strip_casts(n["lhs"]).get("vid") in divisors]
        point_ok = bool(point) and len(divisors) == 1 and {lit_of(n["rhs"]) for n in point} <= {10, 0, 10.0, 0.0}
        pw = [n for n in walk(f["body"]) if n.get("k") == "call" and n.get("name") == "pow"]
        pow_ok = len(pw) == 1 and any(x.get("k") == "lit" and x.get("v") in (10, 10.0) for x in walk(pw[0]["args"][0]))
        r7.ob("parse_num<%s>: every accumulator is a floating type at least as wide as %s" % (T, T), not bad, f.where, f["q"],
              "; ".join(bad) + ": an integer (or narrower) accumulator wraps or saturates after a fixed number of digits, the digits after that are scaled by a wrong power of ten")
        r7.ob("parse_num<%s>: digits are scaled by ten on both sides of the point and the exponent is a power of ten" % T, tens and point_ok and pow_ok, f.where, f["q"],
              "per-digit factors %s; values assigned to the fraction's place value %s; pow base ten: %s" % ({k: sorted(map(str, v)) for k, v in scaled.items()}, [expr_str(prog, f, n["rhs"]) for n in point], pow_ok))
    r7.require(6, "obligations")

    # ------------------------------------------------------------------ R16.6 digit classes
    r6 = chk.rule("R16.6", "the escape decoder classifies characters exactly: octal digits are 0-7, hexadecimal digits are 0-9 a-f A-F (the class predicates are evaluated over all 256 character values)",
                  "octal and hex escapes contain exactly the digits C++ would take; the next character is not swallowed")
    digit_class_obligations(chk, r6, prog)


# =============================================================================== helpers

def all_literal_args(n):
    args = n.get("args", [])
    return bool(args) and all(strip_casts(a).get("k") == "lit" for a in args)


INT_TYPES = ["int", "unsigned int", "long", "unsigned long", "long long", "unsigned long long"]
# magnitude classes (LP64): 0: <= INT_MAX, 1: <= UINT_MAX, 2: <= LONG_MAX (= LLONG_MAX), 3: <= ULONG_MAX (= ULLONG_MAX)
FITS = {"int": 0, "unsigned int": 1, "long": 2, "unsigned long": 3, "long long": 2, "unsigned long long": 3}


def cpp_literal_type(uns, lng, ll, base10, mag):
    """[lex.icon] table for LP64"""
    if not uns and not lng:
        seq = ["int", "long", "long long"] if base10 else ["int", "unsigned int", "long", "unsigned long", "long long", "unsigned long long"]
    elif uns and not lng:
        seq = ["unsigned int", "unsigned long", "unsigned long long"]
    elif not uns and lng and not ll:
        seq = ["long", "long long"] if base10 else ["long", "unsigned long", "long long", "unsigned long long"]
    elif uns and lng and not ll:
        seq = ["unsigned long", "unsigned long long"]
    elif not uns and ll:
        seq = ["long long"] if base10 else ["long long", "unsigned long long"]
    else:
        seq = ["unsigned long long"]
    for t in seq:
        if FITS[t] >= mag:
            return t
    return None


def extract_ladders(prog, f):
    """(ladder after stoll, ladder after stoull): lists of (cond expr | None, result type)"""
    trys = [n for n in walk(f["body"]) if n.get("k") == "try"]
    if not trys:
        raise AnalysisBroken("C16 R16.4: buildInt has no try (ladder shape changed)")
    outer = trys[0]

    def ladder_of(block):
        n = next((s for s in block.get("s", []) if s.get("k") == "if"), None)
        out = []
        while n is not None and n.get("k") == "if":
            out.append((n["cond"], ret_type(prog, f, n["then"])))
            e = n.get("else")
            if e is not None and e.get("k") == "block" and len(e.get("s", [])) == 1 and e["s"][0].get("k") == "if":
                e = e["s"][0]
            if e is not None and e.get("k") != "if":
                out.append((None, ret_type(prog, f, e)))
                e = None
            n = e
        return out
    signed = ladder_of(outer["body"])
    inner = [n for h in outer["handlers"] for n in walk(h["body"]) if n.get("k") == "try"]
    if not inner:
        raise AnalysisBroken("C16 R16.4: buildInt has no stoull fallback")
    unsigned = ladder_of(inner[0]["body"])
    if len(signed) < 5 or len(unsigned) < 2:
        raise AnalysisBroken("C16 R16.4: buildInt is no longer an if-ladder over the expected atoms")
    return signed, unsigned


def ret_type(prog, f, blk):
    for x in walk(blk):
        if x.get("k") == "cast" and x.get("ck") == "static":
            return prog.T(f, x.get("t"))
    return "?"


def named_flags(f):
    """bool locals that are initialised once and never assigned again (`const bool may_be_unsigned = unsigned_ || base != 10;`): vid -> initialiser"""
    out = {}
    assigned = set()
    for n in walk(f["body"]):
        if n.get("k") == "assign":
            assigned.add(strip_casts(n["lhs"]).get("vid"))
        elif n.get("k") == "decl":
            for v in n["vars"]:
                init = strip_casts(v.get("init") or {})
                if init.get("k") in ("binop", "unop") and v.get("name") not in ("unsigned_", "long_", "longlong_"):
                    out[v["vid"]] = v["init"]
    return {k_: v_ for k_, v_ in out.items() if k_ not in assigned}


def eval_ladder(ladder, env, res=None):
    for cond, typ in ladder:
        if cond is None or eval_cond(cond, env, res):
            return typ
    return None


def eval_cond(e, env, res=None):
    e = strip_casts(e)
    k = e.get("k")
    if k == "unop" and e.get("op") == "!":
        return not eval_cond(e["e"], env, res)
    if k == "binop" and e.get("op") == "&&":
        return eval_cond(e["lhs"], env, res) and eval_cond(e["rhs"], env, res)
    if k == "binop" and e.get("op") == "||":
        return eval_cond(e["lhs"], env, res) or eval_cond(e["rhs"], env, res)
    if k == "ref" and e.get("name") in ("unsigned_", "long_", "longlong_"):
        return env[e["name"]]
    if k == "ref" and e.get("rk") == "param" and e.get("name") == "prefixed":
        return env["prefixed"]
    if k == "ref" and e.get("rk") == "local" and e.get("vid") in env.get("__locals__", {}):
        return eval_cond(env["__locals__"][e["vid"]], env, res)      # a named flag stands for its initialiser
    if k == "binop" and e.get("op") in ("!=", "==") and strip_casts(e["lhs"]).get("name") == "base":
        v = strip_casts(e["rhs"]).get("v")
        return (env["base"] != v) if e["op"] == "!=" else (env["base"] == v)
    if k == "binop" and e.get("op") in (">=", "<="):
        # u >= numeric_limits<T>::min()  (always true for literals: non-negative)  /  u <= numeric_limits<T>::max()
        r = strip_casts(e["rhs"])
        if r.get("k") == "call" and r.get("name") in ("min", "max"):
            t = res(r) if res else None
            if r["name"] == "min":
                return True
            return FITS.get(t, -1) >= env["mag"]
    raise AnalysisBroken("C16 R16.4: unrecognised atom in buildInt's ladder: %s" % str(e)[:200])


def float_ladder(prog, g):
    """[(flag tested or None, parse_num<T> chosen)] in priority order: an if / else-if / else chain, or `if (a) return ..; if (b) return ..; return ..;`"""
    out = []
    stmts = g["body"].get("s", [])
    i = next((k for k, s_ in enumerate(stmts) if s_.get("k") == "if"), None)
    if i is None:
        return out
    n = stmts[i]
    rest = stmts[i + 1:]
    while n is not None and n.get("k") == "if":
        c = strip_casts(n["cond"])
        out.append((c.get("name"), parse_num_type(prog, g, n["then"])))
        e = n.get("else")
        if e is not None and e.get("k") == "block" and len(e.get("s", [])) == 1 and e["s"][0].get("k") == "if":
            e = e["s"][0]
        if e is None and always_exits(n.get("then")) and rest:
            # early-return form: the statements after the `if` are its else
            e = rest[0]
            rest = rest[1:]
            if e.get("k") != "if":
                out.append((None, parse_num_type(prog, g, e)))
                e = None
        elif e is not None and e.get("k") != "if":
            out.append((None, parse_num_type(prog, g, e)))
            e = None
        n = e
    return out


def parse_num_type(prog, g, blk):
    for x in walk(blk):
        if x.get("k") == "call" and x.get("name") == "parse_num":
            d = prog.decl(g, x.get("fn"))
            return (d.get("targs") or ["?"])[0] if d else "?"
    return "?"


def num_bases(prog, g):
    out = {}
    flow = FnFlow(g)
    for n in walk(g["body"]):
        if n.get("k") == "call" and n.get("name") == "buildInt" and len(n.get("args", [])) == 3:
            pref = strip_casts(n["args"][2]).get("v")
            facts0 = [(expr_str(prog, g, a), t) for a, t in atomic_facts(flow, n)]
            b = strip_casts(n["args"][0])
            variants = [(b.get("v"), [])]
            if b.get("k") == "ref" and b.get("rk") == "local":
                # the base chosen first: `const int base = (match[0] == '0') ? 8 : 10;` - one case per arm, under the arm's condition
                from ..paths import ref_inits
                v = ref_inits(g).get(b.get("vid"))
                init = strip_casts(v["init"]) if v is not None and v.get("init") is not None else {}
                while init.get("k") == "paren" and init.get("e") is not None:
                    init = strip_casts(init["e"])
                if init.get("k") == "cond" and not any(y.get("k") == "assign" and strip_casts(y["lhs"]).get("vid") == b.get("vid") for y in walk(g["body"])):
                    ctext = expr_str(prog, g, init["c"])
                    variants = [(strip_casts(init["a"]).get("v"), [(ctext, True)]), (strip_casts(init["b"]).get("v"), [(ctext, False)])]
                elif init.get("k") == "lit":
                    variants = [(init.get("v"), [])]
            for base, extra in variants:
                facts = facts0 + extra
                key = "other"
                if any("Hex_" in s and t for s, t in facts):
                    key = "Hex_"
                elif any("Binary_" in s and t for s, t in facts):
                    key = "Binary_"
                elif any("'0'" in s and "==" in s and t for s, t in facts) or any("== 48" in s and t for s, t in facts):
                    key = "leading0"
                out[key] = (base, bool(pref))
    return out


# ------------------------------------------------------------------ digit classes of the escape decoder (C16 R16.6, C01 R1.4)
CTYPE = {"isdigit": lambda c: 48 <= c <= 57, "isxdigit": lambda c: (48 <= c <= 57) or (65 <= c <= 70) or (97 <= c <= 102),
         "isalpha": lambda c: (65 <= c <= 90) or (97 <= c <= 122), "isalnum": lambda c: (48 <= c <= 57) or (65 <= c <= 90) or (97 <= c <= 122),
         "isupper": lambda c: 65 <= c <= 90, "islower": lambda c: 97 <= c <= 122}


def eval_char_pred(prog, f, e, env):
    """value of a predicate / small integer expression over one character variable (env: vid -> int)"""
    e = strip_casts(e)
    k = e.get("k")
    if k == "lit":
        v = e.get("v")
        if e.get("lt") == "char":
            v = v & 0xFF
            return v - 256 if v > 127 else v
        return v
    if k == "ref":
        if e.get("vid") in env:
            return env[e["vid"]]
        from ..paths import ref_inits
        v = ref_inits(f).get(e.get("vid"))
        if v is not None and v.get("init") is not None:
            return eval_char_pred(prog, f, v["init"], env)
        raise AnalysisBroken("C16 R16.6: unknown variable %s in a digit-class predicate" % e.get("name"))
    if k == "cast":
        v = eval_char_pred(prog, f, e["e"], env)
        t = prog.T(f, e.get("t"))
        if t.replace("const ", "") == "unsigned char" and isinstance(v, int):
            return v & 0xFF
        return v
    if k == "unop" and e.get("op") == "!":
        return not eval_char_pred(prog, f, e["e"], env)
    if k == "binop":
        op = e["op"]
        if op == "&&":
            return bool(eval_char_pred(prog, f, e["lhs"], env)) and bool(eval_char_pred(prog, f, e["rhs"], env))
        if op == "||":
            return bool(eval_char_pred(prog, f, e["lhs"], env)) or bool(eval_char_pred(prog, f, e["rhs"], env))
        a, b = eval_char_pred(prog, f, e["lhs"], env), eval_char_pred(prog, f, e["rhs"], env)
        return {"<": a < b, "<=": a <= b, ">": a > b, ">=": a >= b, "==": a == b, "!=": a != b}.get(op, None) if op in ("<", "<=", ">", ">=", "==", "!=") else (
            a - b if op == "-" else (a + b if op == "+" else None))
    if k == "call" and e.get("name") in CTYPE and e.get("args"):
        c = eval_char_pred(prog, f, e["args"][0], env)
        if not isinstance(c, int) or c < 0 or c > 255:
            return False
        return CTYPE[e["name"]](c)
    raise AnalysisBroken("C16 R16.6: unrecognised form in a digit-class predicate: %s" % expr_str(prog, f, e)[:80])


def digit_class_obligations(chk, rule, prog):
    """the characters the escape decoder appends to its octal / hexadecimal digit buffers are exactly the digits of that base"""
    ps = [g for g in prog.fns if g["name"] == "parse" and "Char_Parser" in (g.get("cls") or "") and g["tk"] == "inst" and len(g["params"]) == 4]
    rule.anchor(ps, "Char_Parser::parse")
    g = ps[0]
    chk.touched(ps[:1])
    flow = FnFlow(g)
    tvid = g["params"][0]["vid"]
    want = {"octal_matches": set(range(48, 56)), "hex_matches": set(range(48, 58)) | set(range(65, 71)) | set(range(97, 103))}
    seen = set()
    for n in walk(g["body"]):
        if n.get("k") == "call" and n.get("name") == "push_back" and n.get("obj") is not None and strip_casts(n["obj"]).get("name") in want and n.get("args") and \
                strip_casts(n["args"][0]).get("vid") == tvid:
            buf = strip_casts(n["obj"])["name"]
            # the innermost dominating fact that is a class test on the character
            preds = [(c, t) for c, t in flow.facts(n) if t and any(x.get("k") == "ref" and x.get("rk") in ("local",) for x in walk(c)) and
                     not any(x.get("k") == "member" for x in walk(c))]
            accepted = None
            for c, t in preds[:1]:
                accepted = set()
                for ch in range(-128, 128):
                    try:
                        if eval_char_pred(prog, g, c, {tvid: ch}):
                            accepted.add(ch & 0xFF)
                    except AnalysisBroken:
                        raise
            key = (buf, frozenset(accepted or []))
            if key in seen:
                continue
            seen.add(key)
            extra = sorted((accepted or set()) - want[buf])
            missing = sorted(want[buf] - (accepted or set()))
            rule.ob("Char_Parser::parse appends to %s exactly the %s digits" % (buf, "octal" if buf.startswith("octal") else "hexadecimal"),
                    accepted is not None and not extra and not missing, "%s:%d" % (g["file"], n["l"]), g["q"],
                    "the class test admits %s and misses %s: a non-digit of that base reaches std::stoll/stoul (dropped silently or std::invalid_argument out of the parser)" % (
                        [chr(x) if 32 <= x < 127 else hex(x) for x in extra][:12], [chr(x) for x in missing][:12]))
    rule.anchor(len(seen) >= 2, "digit buffers filled in Char_Parser::parse (found %s)" % sorted(k[0] for k in seen))
