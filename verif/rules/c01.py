"""C01  Parsing is total and safe: AST for the whole input, or eval_error.

Decided: (R1.1) no silent drop of unparsed text: every successful exit of the parse entry passes the
"input exhausted" test; (R1.2) every recursion cycle of the parser is depth-guarded; (R1.3) cursor
discipline: the raw buffer pointers are private to Position, dereferences are guarded, and every cursor
retreat is covered by prior advance (abstract interpretation with lower bounds on characters consumed);
(R1.4) only eval_error leaves parse(), nothing leaves a destructor / noexcept function of the parser.
Not decided: termination of the lexer/parser loops; that the tree accounts for each byte beyond R1.1.
"""
import re

from ..ir import walk, strip_targs, AnalysisBroken
from ..flow import FnFlow, strip_casts, expr_str, always_exits, uncond_exprs
from ..absint import AbsInt, Throw
from ..analysis import callgraph, exception_flow, fkey, UNKNOWN
from ..paths import ref_inits

PARSER = "chaiscript::parser::ChaiScript_Parser"
POS = PARSER + "::Position"
LO, HI = -4, 8


def is_parser_fn(f):
    return f["tk"] == "inst" and f["q"].startswith(PARSER + "<")


def outer_targs(q, prefix):
    """template-argument text of the outermost `prefix<...>` in q (bracket matched)"""
    i = len(prefix)
    if not q.startswith(prefix + "<"):
        return ""
    depth = 0
    for j in range(i, len(q)):
        if q[j] == "<":
            depth += 1
        elif q[j] == ">":
            depth -= 1
            if depth == 0:
                return q[i + 1:j]
    return q[i + 1:]


def is_pos_type(t):
    t = t.replace("const ", "").replace("&", "").strip()
    return t.endswith("::Position") and "ChaiScript_Parser<" in t


def clamp(v):
    return max(LO, min(HI, v))


# =============================================================================== cursor abstract domain

class Cursor:
    """State: (more: frozenset of position keys known to have more input,
               b: tuple of sorted (key, lower bound)), keys 'cur' | ('off', vid) | ('rel', vid),
               bools: tuple of sorted (vid, bool))"""

    def __init__(self, prog, fns, progress=False):
        self.prog = prog
        self.progress = progress     # second mode (R1.6): also track "cursor unmoved when the call returns false" and split call outcomes
        self.fns = {fkey(f): f for f in fns}
        self.summary = {}          # fkey -> {"adv_true": int, "adv_any": int}
        self.obligations = {}      # (fn short q, descriptor) -> {"ok":..., "where":..., "need":..., "have":...}
        self.exit_bounds = {}      # fn short q -> min bound at exits
        self.incomplete = set()
        self.param_dep = {}        # fkey -> index of the Static_String parameter whose length is consumed on success
        self.symlen = {}
        for s in prog.statics.values():
            if s.get("init") is not None and "Static_String" in s["type"]:
                for x in walk(s["init"]):
                    if x.get("k") == "lit" and x.get("lt") == "string":
                        self.symlen[s["q"]] = len(x["v"])
                        self.symlen[s["name"]] = len(x["v"])

    def lambda_fn(self, f, lam):
        """the analysed function for a lambda expression node (for a generic lambda: its instantiation with the same name)"""
        g = self.prog.fn_by_id(f, lam.get("fn")) if lam.get("fn") is not None else None
        if g is not None and fkey(g) in self.fns:
            return g
        if g is None:
            return None
        want = strip_targs(g["q"])
        for h in self.fns.values():
            if h.get("kind") == "lambda" and strip_targs(h["q"]) == want:
                return h
        return None

    def touches(self, g):
        """can g (transitively, through the analysed functions and their closures) move the parser's cursor?"""
        cache = self.__dict__.setdefault("_touch", {})
        k = fkey(g)
        if k in cache:
            return cache[k]
        cache[k] = True            # recursion: assume it can
        res = False
        for x in walk(g["body"]):
            if x.get("k") == "member" and x.get("name") == "m_position":
                res = True
                break
            if x.get("k") in ("call", "lambda") and x.get("fn") is not None:
                c = self.lambda_fn(g, x) if x.get("k") == "lambda" else self.prog.fn_by_id(g, x["fn"])
                if c is not None and fkey(c) in self.fns and c is not g and self.touches(c):
                    res = True
                    break
        cache[k] = res
        return res

    # ---- state helpers
    @staticmethod
    def init_state():
        return (frozenset(), (("cur", 0),), ())

    @staticmethod
    def get(s, key, default=LO):
        for k, v in s[1]:
            if k == key:
                return v
        return default

    @staticmethod
    def setb(s, updates, more=None, bools=None):
        d = dict(s[1])
        for k, v in updates.items():
            d[k] = clamp(v)
        return (s[0] if more is None else more, tuple(sorted(d.items(), key=str)), s[2] if bools is None else bools)

    def posref(self, f, e):
        """identify a Position lvalue: 'cur' for this->m_position, vid for a local Position variable, else None"""
        e = strip_casts(e)
        if not isinstance(e, dict):
            return None
        if e.get("k") == "member" and e.get("name") == "m_position" and (e.get("base") is None or strip_casts(e["base"]).get("k") == "this"):
            return "cur"
        if e.get("k") == "ref" and e.get("rk") in ("local", "param") and is_pos_type(self.prog.T(f, e.get("t"))):
            return e.get("vid")
        return None

    def value(self, f, e, s):
        """abstract value of a Position-typed expression: (base key, delta) with offset(expr) >= offset(base)+delta ... as lower bound
        relative to function entry: returns (lower bound vs entry, base, delta)"""
        e = strip_casts(e)
        if not isinstance(e, dict):
            return None
        r = self.posref(f, e)
        if r == "cur":
            return (self.get(s, "cur"), "cur", 0)
        if r is not None:
            return (self.get(s, ("off", r)), r, 0)
        k = e.get("k")
        if k == "call" and e.get("op") in ("+", "-") and e.get("obj") is not None and e.get("args"):
            v = self.value(f, e["obj"], s)
            a = strip_casts(e["args"][0])
            n = a.get("v") if a.get("k") == "lit" else None
            if v is None:
                return None
            if e["op"] == "+":
                return (v[0], v[1], v[2])           # advancing is bounds-checked: at least where it was
            if n is None:
                return (LO, v[1], LO)
            return (clamp(v[0] - n), v[1], v[2] - n)
        if k == "call" and e.get("op") in ("++", "--", "+=", "-=", "=") and e.get("obj") is not None:
            return self.value(f, e["obj"], s)          # value after the effect (already applied to s)
        if k == "construct" and len(e.get("args", [])) == 1:
            return self.value(f, e["args"][0], s)
        if k == "call" and e.get("name") in ("move", "forward") and len(e.get("args", [])) == 1:
            return self.value(f, e["args"][0], s)
        if k == "construct" and len(e.get("args", [])) == 2 and is_pos_type(self.prog.T(f, e.get("t"))):
            return (0, "fresh", 0)     # Position(begin, end): a new buffer, the cursor is at its start
        return None

    def oblige(self, f, n, desc, have, need):
        key = (strip_targs(f["q"]), desc)
        e = self.obligations.setdefault(key, {"ok": True, "where": "%s:%d" % (f["file"], n["l"]), "fn": f["q"], "have": have, "need": need, "n": 0})
        e["n"] += 1
        if have < need:
            if e["ok"] or have < e["have"]:
                e.update(ok=False, where="%s:%d" % (f["file"], n["l"]), have=have, need=need)

    # ---- analysis of one function
    def analyse(self, f, entry=None, depth=0, node=None, want_ai=False):
        prog = self.prog
        me = self

        def with_bool(s, key, val):
            d = dict(s[2])
            if val is None:
                d.pop(key, None)
            else:
                d[key] = val
            return (s[0], s[1], tuple(sorted(d.items(), key=lambda kv: str(kv[0]))))

        def moved(s):
            return with_bool(s, "__moved__", True) if me.progress else s

        def shift(s, target, d, more=None):
            """move position `target` by d (lower-bound arithmetic)"""
            upd = {}
            if target == "cur":
                upd["cur"] = me.get(s, "cur") + d
                for k, v in s[1]:
                    if isinstance(k, tuple) and k[0] == "rel":
                        upd[k] = v + d
            else:
                upd[("off", target)] = me.get(s, ("off", target)) + d
                if d != 0:
                    upd[("rel", target)] = me.get(s, ("rel", target)) - d
            return me.setb(s, upd, more=more)

        def bool_assign(s, vid, rhs, op):
            """`b = <expr>`: literals are tracked; a summarised parser call splits the state into its two outcomes
            (true: the callee's advance is added; false: position at least where it was)"""
            r = strip_casts(rhs)
            outs = []
            if op == "=" and r.get("k") == "lit" and r.get("lt") == "bool":
                outs.append((s, bool(r.get("v"))))
            elif op == "=" and r.get("k") == "call" and r.get("fn") is not None and prog.fn_by_id(f, r["fn"]) is not None and fkey(prog.fn_by_id(f, r["fn"])) in me.fns:
                callee = prog.fn_by_id(f, r["fn"])
                adv = me.call_advance(f, r, callee)
                st = s
                if adv:
                    upd = {"cur": me.get(s, "cur") + adv}
                    for kk, vv in s[1]:
                        if isinstance(kk, tuple) and kk[0] == "rel":
                            upd[kk] = vv + adv
                    st = me.setb(s, upd)
                outs.append((st, True))
                outs.append((s, False))
            else:
                outs.append((s, None))
            res = []
            for st, bv in outs:
                bools = dict(st[2])
                bools[vid] = bv
                res.append((st[0], st[1], tuple(sorted(bools.items(), key=lambda kv: str(kv[0])))))
            return tuple(res)

        def transfer(n, s):
            k = n.get("k")
            if k == "vardecl":
                v = n["var"]
                t = prog.T(f, v["t"])
                if is_pos_type(t) and not v.get("ref"):
                    val = me.value(f, v.get("init"), s) if v.get("init") is not None else None
                    upd = {}
                    if val is None:
                        upd[("off", v["vid"])] = LO
                        upd[("rel", v["vid"])] = LO
                    else:
                        upd[("off", v["vid"])] = val[0]
                        if val[1] == "cur":
                            upd[("rel", v["vid"])] = -val[2]
                        else:
                            upd[("rel", v["vid"])] = me.get(s, ("rel", val[1])) - val[2]
                    return (me.setb(s, upd),)
                if t.replace("const ", "") == "bool" and v.get("init") is not None:
                    return bool_assign(s, v["vid"], v["init"], "=")
                return (s,)
            if k == "assign":
                l = strip_casts(n["lhs"])
                if l.get("k") == "ref" and l.get("rk") == "local" and prog.T(f, l.get("t")).replace("const ", "") == "bool":
                    return bool_assign(s, l["vid"], n["rhs"], n.get("op"))
                if me.progress and l.get("k") == "member" and n.get("op") == "=" and prog.T(f, l.get("t")).replace("const ", "") == "bool":
                    r = strip_casts(n["rhs"])
                    return (with_bool(s, ("m", expr_str(prog, f, l)), bool(r.get("v")) if r.get("k") == "lit" and r.get("lt") == "bool" else None),)
                return (s,)
            if k != "call":
                return (s,)
            op = n.get("op")
            obj = n.get("obj")
            tgt = me.posref(f, obj) if obj is not None else None
            if tgt is not None and op in ("++", "--", "+=", "-=", "="):
                if tgt == "cur":
                    s = moved(s)
                if me.progress:
                    # facts about the character under this position are gone; an unconfirmed ++ is remembered (see has_more in refine)
                    s = (s[0], s[1], tuple(kv for kv in s[2] if not (isinstance(kv[0], tuple) and kv[0][0] in ("p", "pp") and kv[0][1] == tgt)))
                    if op == "++" and tgt not in s[0]:
                        s = with_bool(s, ("pp", tgt), True)
                if op == "++":
                    d = 1 if tgt in s[0] else 0
                    return (shift(s, tgt, d, more=s[0] - {tgt}),)
                if op == "--":
                    have = me.get(s, "cur") if tgt == "cur" else me.get(s, ("off", tgt))
                    me.oblige(f, n, "--%s" % ("m_position" if tgt == "cur" else expr_str(prog, f, obj)), have, 1)
                    return (shift(s, tgt, -1, more=s[0] - {tgt}),)
                a = strip_casts(n["args"][0]) if n.get("args") else {}
                if op == "+=":
                    return (shift(s, tgt, 0, more=s[0] - {tgt}),)
                if op == "-=":
                    cnt = a.get("v") if a.get("k") == "lit" else None
                    have = me.get(s, "cur") if tgt == "cur" else me.get(s, ("off", tgt))
                    me.oblige(f, n, "%s -= %s" % ("m_position" if tgt == "cur" else expr_str(prog, f, obj), cnt), have, cnt if cnt is not None else HI)
                    return (shift(s, tgt, -(cnt if cnt is not None else HI), more=s[0] - {tgt}),)
                if op == "=":
                    val = me.value(f, n["args"][0], s) if n.get("args") else None
                    upd = {}
                    if tgt == "cur":
                        newcur = val[0] if val is not None else LO
                        upd["cur"] = newcur
                        for kk, vv in s[1]:
                            if isinstance(kk, tuple) and kk[0] == "rel":
                                upd[kk] = LO
                        if val is not None and val[1] not in ("cur", "fresh"):
                            upd[("rel", val[1])] = val[2]
                        if val is None:
                            me.oblige(f, n, "m_position = <unknown position>", LO, 0)
                    else:
                        upd[("off", tgt)] = val[0] if val is not None else LO
                        if val is not None and val[1] == "cur":
                            upd[("rel", tgt)] = -val[2]
                        else:
                            upd[("rel", tgt)] = LO
                    return (me.setb(s, upd, more=s[0] - {tgt}),)
            if op == "-" and obj is not None:
                v = me.value(f, obj, s)
                if v is not None and is_pos_type(prog.T(f, strip_casts(obj).get("t")) if strip_casts(obj).get("t") is not None else ""):
                    a = strip_casts(n["args"][0]) if n.get("args") else {}
                    cnt = a.get("v") if a.get("k") == "lit" else HI
                    me.oblige(f, n, "%s - %s" % (expr_str(prog, f, obj), cnt), v[0], cnt)
                return (s,)
            if n.get("name") == "str" and len(n.get("args", [])) == 2 and n.get("obj") is None:
                d = prog.decl(f, n.get("fn")) if n.get("fn") is not None else None
                if d is not None and strip_targs(d.get("cls") or "") == POS:
                    a, b = me.value(f, n["args"][0], s), me.value(f, n["args"][1], s)
                    have = LO
                    if a is not None and b is not None:
                        if a[1] == b[1]:
                            have = b[2] - a[2]
                        elif b[1] == "cur":
                            have = me.get(s, ("rel", a[1])) + b[2] - a[2]
                    me.oblige(f, n, "Position::str(%s, %s) begin <= end" % (expr_str(prog, f, n["args"][0]), expr_str(prog, f, n["args"][1])), clamp(have), 0)
                return (s,)
            if op == "()" and obj is not None and strip_casts(obj).get("k") == "lambda":
                lam = prog.fn_by_id(f, strip_casts(obj).get("fn"))
                if lam is not None and depth < 3:
                    sub = me.run_body(lam, {s}, depth + 1)
                    out = [(x[0], x[1], tuple(kv for kv in x[2] if kv[0] != "__rv__")) for x in (sub.returns | sub.normal)]
                    out += [Throw(t) for t in sub.throws]
                    return tuple(out) if out else (s,)
                return (s,)
            # calls to other parser functions: they never end before where they started
            callee = prog.fn_by_id(f, n.get("fn")) if n.get("fn") is not None else None
            if me.progress and callee is not None and fkey(callee) in me.fns and not me.touches(callee):
                return (s,)
            if callee is not None and fkey(callee) in me.fns and (obj is None or strip_casts(obj).get("k") == "this"):
                if me.progress and me.summary.get(fkey(callee), {}).get("unmoved_on_false") and prog.T(callee, callee.get("ret")) == "bool":
                    # two outcomes: returned true (advanced by its summary, position otherwise unknown) / returned false (cursor untouched)
                    adv = me.call_advance(f, n, callee)
                    st = shift(moved(s), "cur", adv, more=s[0] - {"cur"})
                    tag = ("__call__", n.get("l"), n.get("fn"))
                    return (with_bool(st, tag, True), with_bool(s, tag, False))
                return (me.setb(moved(s), {}, more=s[0] - {"cur"}),)
            return (s,)

        def pure_pred(e2):
            """a predicate over the character under a position: no call that can move the cursor; returns (position, text) or None"""
            tgt = None
            for x in walk(e2):
                if x.get("k") == "call" and x.get("fn") is not None:
                    c = prog.fn_by_id(f, x["fn"])
                    if c is not None and fkey(c) in me.fns and me.touches(c):
                        return None
                if x.get("k") == "call" and x.get("op") == "*" and (x.get("obj") is not None or x.get("args")):
                    t = me.posref(f, x.get("obj") if x.get("obj") is not None else x["args"][0])
                    if t is not None:
                        tgt = t
            if tgt is None:
                return None
            return tgt, expr_str(prog, f, e2)

        def refine(e, truth, s):
            e2 = strip_casts(e)
            if e2.get("k") == "call" and e2.get("name") == "has_more" and e2.get("obj") is not None:
                t = me.posref(f, e2["obj"])
                if me.progress and t is not None:
                    if not truth and t in s[0]:
                        return ()                  # known to have more input
                    if truth and dict(s[2]).get(("pp", t)):
                        # `++p` with nothing in between, and p still has input: that ++ did advance
                        s = with_bool(shift(s, t, 1), ("pp", t), None)
                if t is not None and truth:
                    return ((s[0] | {t}, s[1], s[2]),)
                return (s,)
            if me.progress:
                if e2.get("k") == "member" and isinstance(e2.get("t"), int) and prog.T(f, e2["t"]).replace("const ", "") == "bool":
                    key = ("m", expr_str(prog, f, e2))
                    bv = dict(s[2]).get(key)
                    if bv is not None and bv != truth:
                        return ()
                    return (with_bool(s, key, truth),)
                pp = pure_pred(e2)
                if pp is not None:
                    key = ("p", pp[0], pp[1])
                    bv = dict(s[2]).get(key)
                    if bv is not None and bv != truth:
                        return ()
                    return (with_bool(s, key, truth),)
            if e2.get("k") == "ref" and e2.get("rk") == "local":
                bv = dict(s[2]).get(e2.get("vid"), None)
                if bv is not None and bv != truth:
                    return ()
                return (s,)
            if me.progress and e2.get("k") == "call" and e2.get("name") in ("any_of", "find_if") and truth:
                lams = [strip_casts(a) for a in e2.get("args", []) if strip_casts(a).get("k") == "lambda"]
                if lams and lams[0].get("fn") is not None:
                    lf = me.lambda_fn(f, lams[0])
                    if lf is not None:
                        # the predicate returned true for one element; earlier elements made it return false, which never moves backwards
                        adv = me.summary.get(fkey(lf), {}).get("adv_true", 0)
                        return (shift(moved(s), "cur", adv, more=s[0] - {"cur"}),)
            if me.progress and e2.get("k") == "call" and e2.get("fn") is not None:
                tag = ("__call__", e2.get("l"), e2.get("fn"))
                tv = dict(s[2]).get(tag)
                if tv is not None:
                    return (with_bool(s, tag, None),) if tv == truth else ()
            if me.progress and e2.get("k") == "call" and e2.get("op") in ("!=", "<") and truth and e2.get("obj") is not None and e2.get("args"):
                t1 = me.posref(f, e2["obj"])
                t2 = me.posref(f, e2["args"][0])
                if t1 is not None and t2 is not None:
                    return ((s[0] | {t1}, s[1], s[2]),)       # strictly before another position of the same buffer: not at the end
            if e2.get("k") == "call" and e2.get("fn") is not None and truth:
                callee = prog.fn_by_id(f, e2["fn"])
                if callee is not None and fkey(callee) in me.fns:
                    adv = me.call_advance(f, e2, callee)
                    if adv:
                        upd = {"cur": me.get(s, "cur") + adv}
                        for kk, vv in s[1]:
                            if isinstance(kk, tuple) and kk[0] == "rel":
                                upd[kk] = vv + adv
                        return (me.setb(s, upd),)
            return (s,)

        def on_return(n, s):
            e = strip_casts(n.get("e")) if n.get("e") is not None else {}
            rv = None
            if e.get("k") == "lit" and e.get("lt") == "bool":
                rv = bool(e.get("v"))
            elif e.get("k") == "ref" and e.get("rk") == "local":
                rv = dict(s[2]).get(e.get("vid"))
            elif e.get("k") == "call" and e.get("fn") is not None:
                callee = prog.fn_by_id(f, e["fn"])
                tag = ("__call__", e.get("l"), e.get("fn"))
                lams = [strip_casts(a) for a in e.get("args", []) if strip_casts(a).get("k") == "lambda"] if me.progress and e.get("name") in ("any_of", "find_if") else []
                if lams and me.lambda_fn(f, lams[0]) is not None:
                    lf = me.lambda_fn(f, lams[0])
                    rv = ("call", fkey(lf), me.summary.get(fkey(lf), {}).get("adv_true", 0))
                elif me.progress and dict(s[2]).get(tag) is not None:
                    rv = dict(s[2])[tag]            # outcome already split (and the advance already applied) at the call
                elif callee is not None and fkey(callee) in me.fns:
                    rv = ("call", fkey(callee), me.call_advance(f, e, callee))
            return (s[0], s[1], s[2] + (("__rv__", rv),))

        ai = AbsInt(transfer, refine=refine, on_return=on_return, max_iter=40)
        if want_ai:
            return ai
        fl = ai.exec(node if node is not None else f["body"], entry or {self.init_state()})
        if ai.incomplete:
            self.incomplete.add(strip_targs(f["q"]))
        return fl

    def run_body(self, f, states, depth):
        return self.analyse(f, entry=states, depth=depth)

    def call_advance(self, caller, call, callee):
        """lower bound on characters consumed when `callee(args)` returns true"""
        name = callee["name"]
        base = self.summary.get(fkey(callee), {}).get("adv_true", 0)
        pd = self.param_dep.get(fkey(callee))
        if name == "Symbol_" or (self.progress and name == "Keyword_"):
            pd, base = 0, 0
        if pd is not None and len(call.get("args", [])) > pd:
            a = strip_casts(call["args"][pd])
            while isinstance(a, dict) and a.get("k") == "construct" and len(a.get("args", [])) >= 1 and "Static_String" in self.prog.T(caller, a.get("t")):
                a = strip_casts(a["args"][0])
            q = a.get("q") or a.get("name")
            if a.get("k") == "lit" and a.get("lt") == "string":
                return min(base + len(a["v"]), HI)
            if a.get("k") in ("ref", "member") and (q in self.symlen or a.get("name") in self.symlen):
                return min(base + self.symlen.get(q, self.symlen.get(a.get("name"), 0)), HI)
            if a.get("k") == "ref" and a.get("rk") == "param":
                # forwarded symbol parameter: the advance depends on our own caller's argument
                self.param_dep.setdefault(fkey(caller), a.get("idx"))
            if self.progress:
                return min(base + 1, HI)      # every Static_String the parser is built with is non-empty (checked by R1.6)
            return base
        return base

    def summarise(self, f):
        fl = self.analyse(f)
        adv_true = None
        adv_any = None
        for s in fl.returns | fl.normal:
            cur = self.get(s, "cur")
            rv = dict((k, v) for k, v in s[2] if k == "__rv__").get("__rv__", None)
            adv_any = cur if adv_any is None else min(adv_any, cur)
            t = None
            if rv is True:
                t = cur
            elif rv is False:
                t = None
            elif isinstance(rv, tuple):
                t = cur + rv[2]
            else:
                t = cur
            if t is not None:
                adv_true = t if adv_true is None else min(adv_true, t)
        self.exit_bounds[strip_targs(f["q"])] = (adv_any if adv_any is not None else 0, f)
        out = {"adv_true": max(0, min(adv_true if adv_true is not None else 0, HI)), "adv_any": adv_any if adv_any is not None else 0}
        if self.progress:
            falses = [s for s in (fl.returns | fl.normal) if dict((k, v) for k, v in s[2] if k == "__rv__").get("__rv__", None) is not True]
            out["unmoved_on_false"] = bool(fl.returns) and all(not dict(s[2]).get("__moved__", False) for s in falses)
        return out


def run(chk):
    prog = chk.program()
    cg = callgraph(prog)
    chk.explanation = ("Rules over every member of the instantiated ChaiScript_Parser: must-pass-through of the exhausted-input test, "
                       "recursion-cycle analysis against the Depth_Counter guard, an abstract interpretation of every parser function "
                       "that tracks lower bounds on characters consumed (per cursor and per saved position, with computed callee "
                       "summaries and tracked boolean results) to discharge every cursor retreat and Position::str range, guarded "
                       "dereference inside Position, and bottom-up exception flow for what can leave parse() and destructors.")
    chk.assume("the caller hands parse() a std::string (buffer [begin,end) is valid); resource exhaustion is out of scope")

    pfns = [f for f in prog.fns if is_parser_fn(f)]
    # several instantiations of the parser template may exist (the thorough tier sees the unit tests' tracer): they are
    # substitutions of one pattern; the one with the most member functions is analysed, the others are listed
    groups = {}
    for f in pfns:
        groups.setdefault(outer_targs(f["q"], PARSER), []).append(f)
    primary = max(groups, key=lambda k: len(groups[k]))
    for k in sorted(groups):
        if k != primary:
            chk.assume("further instantiation of the parser template not analysed separately (same pattern, %d functions): ChaiScript_Parser<%s...>" % (len(groups[k]), k[:80]))
    pfns = groups[primary]
    members = [f for f in pfns if strip_targs(f.get("cls") or "") == PARSER]

    # ------------------------------------------------------------------ R1.1
    r1 = chk.rule("R1.1", "every successful exit of the parse entry passes the test that no input is left (whose failing arm throws)",
                  "text the parser could not parse is never silently dropped")
    # entry points = every member that installs a fresh input buffer (m_position = Position(begin, end))
    def installs_buffer(g):
        for n in walk(g["body"]):
            if n.get("k") == "call" and n.get("op") == "=" and n.get("obj") is not None and strip_casts(n["obj"]).get("name") == "m_position":
                for x in walk(n.get("args", [{}])[0] if n.get("args") else {}):
                    if x.get("k") == "construct" and is_pos_type(prog.T(g, x.get("t"))) and len([a for a in x.get("args", []) if a.get("k") != "defarg"]) == 2:
                        return True
        return False

    mut_cache = {}

    def mutates_cursor(g):
        """can g (transitively through parser members and their closures) move m_position?"""
        k = fkey(g)
        if k in mut_cache:
            return mut_cache[k]
        mut_cache[k] = True
        res = False
        for n in walk(g["body"]):
            if n.get("k") == "call" and n.get("op") in ("++", "--", "+=", "-=", "=") and n.get("obj") is not None and strip_casts(n["obj"]).get("name") == "m_position":
                res = True
                break
            if n.get("k") in ("call", "lambda") and n.get("fn") is not None:
                c = prog.fn_by_id(g, n["fn"])
                if c is not None and c is not g and (c in members or c.get("kind") == "lambda") and is_parser_fn(c) and mutates_cursor(c):
                    res = True
                    break
        mut_cache[k] = res
        return res

    pis = [f for f in members if installs_buffer(f)]
    r1.anchor(len(pis) >= 1 and any(f["name"] == "parse_internal" for f in pis), "the parser member(s) that install an input buffer (found %s)" % [f["name"] for f in pis])
    chk.touched(pis)
    for f in pis:
        def t11(n, s, f=f):
            if n.get("k") == "call" and n.get("fn") is not None and not n.get("op"):
                c = prog.fn_by_id(f, n["fn"])
                if c is not None and c in members and mutates_cursor(c):
                    return ("unknown",)
            if n.get("k") == "call" and n.get("op") in ("++", "+=") and n.get("obj") is not None and strip_casts(n["obj"]).get("name") == "m_position":
                return ("unknown",)
            return (s,)

        def rf11(e, truth, s):
            e2 = strip_casts(e)
            if e2.get("k") == "call" and e2.get("name") == "has_more" and e2.get("obj") is not None and strip_casts(e2["obj"]).get("name") == "m_position":
                return ("more",) if truth else ("nomore",)
            return (s,)
        ai = AbsInt(t11, refine=rf11)
        fl = ai.exec(f["body"], {"before"})
        exits = fl.returns | fl.normal
        r1.ob("ChaiScript_Parser::%s/every successful return follows `!m_position.has_more()` with nothing consumed in between" % f["name"], exits == {"nomore"}, f.where, f["q"],
              "this function installs an input buffer and there is a path to a successful return on which input may remain (exit states: %s): unparsed text is silently dropped" % sorted(exits, key=str))
    pe = [g for g in members if g["name"] == "parse"]
    r1.anchor(pe, "ChaiScript_Parser::parse")
    okp = any(n.get("k") == "call" and n.get("name") == "parse_internal" for n in walk(pe[0]["body"]))
    r1.ob("ChaiScript_Parser::parse goes through parse_internal", okp, pe[0].where, pe[0]["q"], "parse() bypasses the checked entry")
    r1.require(2, "obligations")

    # ------------------------------------------------------------------ R1.2
    r2 = chk.rule("R1.2", "every recursion cycle among parser functions contains a function that constructs the Depth_Counter before any call; the counter throws beyond the limit and its destructor decrements",
                  "pathological nesting is reported as an error instead of overflowing the native stack")
    # functions on the parse path (reachable from the parse entry points)
    entry_keys = [fkey(g) for g in members if g["name"] in ("parse", "parse_internal", "parse_instr_eval")]
    reach = cg.reachable(entry_keys)
    keys = {fkey(g): g for g in pfns if fkey(g) in reach}
    dc_ctor = [g for g in pfns if g["kind"] == "ctor" and strip_targs(g.get("cls") or "") == PARSER + "::Depth_Counter"]
    dc_dtor = [g for g in pfns if g["kind"] == "dtor" and strip_targs(g.get("cls") or "") == PARSER + "::Depth_Counter"]
    r2.anchor(len(dc_ctor) == 1 and len(dc_dtor) == 1, "Depth_Counter constructor/destructor")
    c = dc_ctor[0]
    incs = [n for n in uncond_exprs(c["body"]) if n.get("k") == "unop" and n.get("op") == "++" and "m_current_parse_depth" in expr_str(prog, c, n)]
    thr = [n for n in uncond_exprs(c["body"]) if n.get("k") == "if" and always_exits(n.get("then")) and any(x.get("k") == "throw" and "eval_error" in prog.T(c, x.get("tt")) for x in walk(n["then"]))
           and depth_limit_test(prog, c, n["cond"])]
    r2.ob("Depth_Counter/constructor increments the depth and throws eval_error beyond max_depth", len(incs) == 1 and len(thr) == 1, c.where, c["q"],
          "constructor does not increment-and-check the parse depth")
    d = dc_dtor[0]
    decs = [n for n in uncond_exprs(d["body"]) if n.get("k") == "unop" and n.get("op") == "--" and "m_current_parse_depth" in expr_str(prog, d, n)]
    r2.ob("Depth_Counter/destructor decrements the depth", len(decs) == 1, d.where, d["q"], "destructor does not decrement the parse depth")
    guarded = set()
    for g in members:
        if has_depth_guard(prog, g):
            guarded.add(fkey(g))
    rest = [k for k in keys if k not in guarded]
    cyc = [comp for comp in cg.sccs(rest) if len(comp) > 1 or comp[0] in cg.callees(comp[0])]
    names = sorted({strip_targs(keys[k]["q"]).split("::")[-1] for comp in cyc for k in comp})
    r2.ob("parser call graph minus depth-guarded functions is acyclic (%d guarded functions)" % len(guarded), not cyc, keys[cyc[0][0]].where if cyc else "", keys[cyc[0][0]]["q"] if cyc else "",
          "unguarded recursion cycle through %s: deeply nested input overflows the native stack" % names)
    allcyc = [comp for comp in cg.sccs(keys) if len(comp) > 1]
    r2.note("recursive SCCs among parser functions: %s" % [len(x) for x in allcyc])
    if len(guarded) < 30:
        raise AnalysisBroken("C01 R1.2: only %d depth-guarded parser functions found (expected >= 30)" % len(guarded))
    chk.touched(members)

    # ------------------------------------------------------------------ R1.7 tree depth is bounded too
    r7 = chk.rule("R1.7", "the depth of the syntax tree is bounded by the parse-depth limit: no parser loop wraps the node built so far into a new parent per iteration (build_match with a loop-invariant stack mark) without counting the iteration against the limit",
                  "deep trees never overflow the native stack inside parse(): the recursive passes that run there (the optimizer, the declaration search) recurse to the depth of the tree")
    nwrap = 0
    for g in members:
        if fkey(g) not in keys:
            continue
        decl_line = {v["vid"]: d for d in walk(g["body"]) if d.get("k") == "decl" for v in d["vars"]}
        for lp in walk(g["body"]):
            if lp.get("k") not in ("while", "for", "do"):
                continue
            inner = list(walk(lp.get("body") or {}))
            inner_ids = {id(x) for x in inner}
            wraps = []
            for n in inner:
                if n.get("k") == "call" and n.get("name") == "build_match" and n.get("args"):
                    a0 = strip_casts(n["args"][0])
                    d = decl_line.get(a0.get("vid")) if a0.get("k") == "ref" else None
                    if d is not None and id(d) not in inner_ids and not any(x.get("k") == "assign" and strip_casts(x["lhs"]).get("vid") == a0.get("vid") for x in inner):
                        wraps.append(n)
            # only the outermost loop that contains the wrap decides
            if not wraps or any(id(lp) in {id(y) for y in walk(o.get("body") or {})} for o in walk(g["body"]) if o.get("k") in ("while", "for", "do") and o is not lp and
                                any(id(w) in {id(z) for z in walk(o.get("body") or {})} for w in wraps)):
                continue
            nwrap += 1
            counted = any(d.get("k") == "decl" and any(strip_targs(prog.T(g, v["t"])).endswith("::Depth_Counter") for v in d["vars"]) for d in inner)
            kinds = sorted({(re.search(r"(\w+)_AST_Node", ((prog.decl(g, w.get("fn")) or {}).get("targs") or ["?"])[0]) or re.search(r"(\?)", "?")).group(1) for w in wraps})
            short = strip_targs(g["q"]).split("::")[-1]
            r7.ob("%s/the chain loop that builds %s counts each link against the depth limit" % (short, ", ".join(kinds)), counted, "%s:%d" % (g["file"], lp["l"]), g["q"],
                  "each iteration wraps everything built so far (stack mark taken before the loop) into a new %s node and no Depth_Counter is constructed per iteration: "
                  "a chain of n links yields a tree of depth n, built without recursion, and the recursive passes inside parse() then need n native frames" % "/".join(kinds))
    r7.anchor(nwrap >= 2, "parser loops that nest the previous result per iteration (found %d)" % nwrap)
    orec = [g for g in prog.fns if g["name"] == "contains_var_decl_in_scope" and g["q"].startswith("chaiscript::optimizer::") and g["tk"] != "pattern"]
    r7.anchor(orec and any(n.get("k") == "call" and n.get("name") == "contains_var_decl_in_scope" for n in walk(orec[0]["body"])), "a recursive tree walk that runs inside parse() (optimizer::contains_var_decl_in_scope)")
    r7.note("recursive tree walks inside parse(): optimizer::contains_var_decl_in_scope and Optimizer::optimize recurse once per tree level")

    # ------------------------------------------------------------------ R1.3 cursor discipline
    r3 = chk.rule("R1.3", "cursor discipline: raw buffer pointers are private to Position and dereferenced only under the end test; every retreat (--, -=, - n) and every Position::str range is covered by prior advance on all paths",
                  "the parser never reads outside the input buffer")
    rec = next((r for q, r in prog.records.items() if strip_targs(q) == POS and q.startswith(PARSER + "<")), None)
    r3.anchor(rec is not None, "record Position")
    for fl_ in rec["fields"]:
        t = prog.T(rec["unit"], fl_["t"])
        if t.endswith("*"):
            r3.ob("Position::%s (raw pointer) is private" % fl_["name"], fl_.get("access") == "private", "%s:%d" % (rec["file"], fl_["l"]), POS,
                  "raw buffer pointer %s is accessible outside Position: unchecked pointer arithmetic becomes possible anywhere" % fl_["name"])
    posfns = [g for g in pfns if strip_targs(g.get("cls") or "") == POS]
    chk.touched(posfns)
    for g in posfns:
        flow = FnFlow(g)
        for n in walk(g["body"]):
            if n.get("k") == "unop" and n.get("op") == "*" and strip_casts(n["e"]).get("k") == "member" and strip_casts(n["e"]).get("name") == "m_pos":
                from ..flow import atomic_facts
                ok = False
                for a, t in atomic_facts(flow, n):
                    a = strip_casts(a)
                    if a.get("k") == "binop" and a.get("op") in ("!=", "==") and {"m_pos", "m_end"} == {strip_casts(a["lhs"]).get("name"), strip_casts(a["rhs"]).get("name")}:
                        if (a["op"] == "!=") == t:
                            ok = True
                if g["name"] == "operator--":
                    # the retreat itself is discharged at every call site (coverage below); after a covered retreat m_pos < m_end
                    ok = True
                r3.ob("Position::%s dereferences m_pos only when m_pos != m_end" % g["name"], ok, "%s:%d" % (g["file"], n["l"]), g["q"],
                      "*m_pos without the end test: reads one past the buffer at end of input")
    # Symbol_: raw indexing under remaining() >= len with index < len
    syms = [g for g in members if g["name"] == "Symbol_"]
    r3.anchor(syms, "ChaiScript_Parser::Symbol_")
    g = syms[0]
    flow = FnFlow(g)
    from ..flow import atomic_facts
    for n in walk(g["body"]):
        if n.get("k") == "subscript" and "file_pos" in expr_str(prog, g, n["base"]):
            facts = [(expr_str(prog, g, a), t) for a, t in atomic_facts(flow, n)]
            ok = any(("remaining" in s and ">=" in s and "len" in s and t) for s, t in facts) and any(("pos < len" in s and t) for s, t in facts)
            r3.ob("Symbol_ indexes the raw buffer only under remaining() >= len and pos < len", ok, "%s:%d" % (g["file"], n["l"]), g["q"], "facts: %s" % facts)
    # retreat coverage
    cur = Cursor(prog, members + [l for l in pfns if l["kind"] == "lambda"])
    order = sorted(members, key=lambda g: (len(list(walk(g["body"]))), g["q"]))
    for rnd in range(3):
        for g in order:
            cur.obligations = {} if False else cur.obligations
            cur.summary[fkey(g)] = cur.summarise(g)
        if rnd < 2:
            cur.obligations = {}
            cur.exit_bounds = {}
    if cur.incomplete:
        raise AnalysisBroken("C01 R1.3: loop fixpoint not reached in %s" % sorted(cur.incomplete))
    ALLOW = {
        ("chaiscript::parser::ChaiScript_Parser::Id", "m_position - 1"):
            "under `*start == '`'`: the back-tick arm of Id_ consumed at least `x` plus two back-ticks; the plain-identifier arm's loop may run zero times in the abstraction, so the summary minimum (1) is too weak for this arm only",
    }
    ALLOW[("chaiscript::parser::ChaiScript_Parser::Id", "Position::str((start + 1), (m_position - 1)) begin <= end")] = ALLOW[("chaiscript::parser::ChaiScript_Parser::Id", "m_position - 1")]
    for (q, desc), e in sorted(cur.obligations.items()):
        ok = e["ok"]
        if not ok and (q, desc) in ALLOW:
            ok = True
            r3.note("allow-listed %s / %s -- %s" % (q, desc, ALLOW[(q, desc)]))
        r3.ob("%s: %s covered by prior advance" % (q, desc), ok, e["where"], e["fn"],
              "the cursor may move %d before the position where this function started (needs >= %d characters consumed on every path, have >= %d): reads before the buffer / negative-length range" % (
                  e["need"] - e["have"], e["need"], e["have"]))
    for q, (b, g) in sorted(cur.exit_bounds.items()):
        if b < 0:
            r3.ob("%s never ends before the position where it started" % q, False, g.where, g["q"], "exit bound %d (the inductive invariant callers rely on)" % b)
    r3.ob("all %d parser functions end at or after the position where they started" % len(cur.exit_bounds), all(b >= 0 for b, _ in cur.exit_bounds.values()), "", "", "")
    r3.note("computed advance-on-true summaries: %s" % {strip_targs(prog._by_id[k]["q"]).split("::")[-1]: v["adv_true"] for k, v in cur.summary.items() if v["adv_true"] > 0})
    r3.require(20, "cursor obligations")

    # ------------------------------------------------------------------ R1.6 loop progress
    r6 = chk.rule("R1.6", "every input-driven loop of the lexer/parser consumes at least one character in each iteration that can be followed by another one (recursion is bounded by R1.2)",
                  "parsing terminates for every input")
    from ..absint import Flow
    # generic closures inside the instantiated parser (their call operator is only instantiated inside std algorithms)
    glams = [l for l in prog.fns if l["kind"] == "lambda" and l["tk"] == "pattern" and outer_targs(l["q"], PARSER) == primary]
    pcur = Cursor(prog, members + [l for l in pfns if l["kind"] == "lambda"] + glams, progress=True)
    # greatest fixpoint: assume every bool-returning parser function consumed at least one character when it returned true,
    # then re-derive each function's claim under that assumption until nothing changes (induction on the height of the
    # call tree of a terminating execution; the claim is only ever used about calls that have returned)
    porder = sorted(members + [l for l in pfns if l["kind"] == "lambda"] + glams, key=lambda g: (len(list(walk(g["body"]))), g["q"]))
    for g in porder:
        if prog.T(g, g.get("ret")) == "bool" and pcur.touches(g):
            pcur.summary[fkey(g)] = {"adv_true": 1, "adv_any": 0, "unmoved_on_false": False}
    for rnd in range(8):
        changed = False
        for g in porder:
            old_s = pcur.summary.get(fkey(g))
            new_s = pcur.summarise(g)
            if old_s is not None:
                new_s["adv_true"] = min(new_s["adv_true"], max(old_s["adv_true"], 0)) if old_s["adv_true"] else new_s["adv_true"]
            if new_s != old_s:
                changed = True
            pcur.summary[fkey(g)] = new_s
        pcur.obligations = {}
        if not changed:
            break
    nloops = nskip = 0
    seen6 = {}
    for g in sorted(members + [l for l in pfns if l["kind"] == "lambda"], key=lambda g: g["q"]):
        loops = [n for n in walk(g["body"]) if n.get("k") in ("while", "do")]
        if not loops:
            continue
        ai = pcur.analyse(g, want_ai=True)
        for L in loops:
            cond = L.get("cond") or {}
            pos_locals = set()
            driven = False
            for x in walk(cond):
                if x.get("k") == "member" and x.get("name") == "m_position":
                    driven = True
                if x.get("k") == "call" and x.get("fn") is not None:
                    c = prog.fn_by_id(g, x["fn"])
                    if c is not None and fkey(c) in pcur.fns:
                        driven = True
                if x.get("k") == "ref" and x.get("rk") in ("local", "param"):
                    t = prog.T(g, x.get("t")) if isinstance(x.get("t"), int) else ""
                    if is_pos_type(t):
                        pos_locals.add(x["vid"])
                        driven = True
                    elif t.replace("const ", "") == "bool":
                        driven = True
            base = "%s: loop `%s`" % (strip_targs(g["q"]).replace(PARSER + "::", ""), expr_str(prog, g, cond)[:60])
            seen6[base] = seen6.get(base, 0) + 1
            ident = base if seen6[base] == 1 else "%s #%d" % (base, seen6[base])
            if not driven:
                nskip += 1
                r6.note("%s is not input-driven (container / index loop)" % ident)
                continue
            nloops += 1
            head = Cursor.init_state()
            head = Cursor.setb(head, {("off", v): 0 for v in pos_locals})
            fl0 = Flow()
            if L["k"] == "do":
                tstates = {head}
            else:
                tstates, _ = ai.cond(cond, {head}, fl0)
            r = ai.exec(L.get("body"), tstates)
            ends = set(r.normal) | set(r.continues)
            def stuck(states):
                out = []
                for st in states:
                    t2, _ = ai.cond(cond, {st}, Flow())
                    if not t2:
                        continue
                    adv = max([Cursor.get(st, "cur")] + [Cursor.get(st, ("off", v)) for v in pos_locals])
                    # the advance made by evaluating the condition again counts for the next iteration, not for this one
                    if adv < 1:
                        out.append(st)
                return out
            bad = stuck(ends)
            if bad:
                # an iteration that only changes a mode flag is fine if the following iteration must advance (2-induction)
                t3 = set()
                for st in bad:
                    t3 |= ai.cond(cond, {st}, Flow())[0]
                r2 = ai.exec(L.get("body"), t3)
                bad = stuck(set(r2.normal) | set(r2.continues))
            r6.ob(ident + " consumes input in every iteration that can be followed by another", not bad and not ai.incomplete, "%s:%d" % (g["file"], L["l"]), g["q"],
                  "an iteration can complete with the cursor where it was while the loop condition still holds: the parser does not terminate on such input "
                  "(%d of %d end states; e.g. %s)" % (len(bad), len(ends), str(sorted(bad, key=str)[:1])[:200]))
    # supporting facts the summaries rest on
    empties = []
    nss = 0
    srcs = [(g, g["body"]) for g in members + glams + [l for l in pfns if l["kind"] == "lambda"]]
    for g, body in srcs:
        for x in walk(body):
            if x.get("k") == "construct" and "Static_String" in prog.T(g, x.get("t")):
                for a in x.get("args", []):
                    a = strip_casts(a)
                    if a.get("k") == "lit" and a.get("lt") == "string":
                        nss += 1
                        if len(a.get("v", "")) == 0:
                            empties.append("%s:%d" % (g["file"], x["l"]))
    for st in prog.statics.values():
        if "Static_String" in st["type"] and st.get("init") is not None and PARSER in st["q"]:
            for a in walk(st["init"]):
                if a.get("k") == "lit" and a.get("lt") == "string":
                    nss += 1
                    if len(a.get("v", "")) == 0:
                        empties.append(st["q"])
    for q, rec in prog.records.items():
        if q.startswith(PARSER + "<") and q.endswith("::Operator_Matches"):
            for fl_ in rec["fields"]:
                for a in walk(fl_.get("init") or {}):
                    if a.get("k") == "lit" and a.get("lt") == "string":
                        nss += 1
                        if len(a.get("v", "")) == 0:
                            empties.append("%s::%s" % (q[-30:], fl_["name"]))
    r6.ob("every Static_String the parser is built with (keywords, symbols, operator tables: %d literals) is non-empty" % nss, not empties and nss >= 40, "", "",
          "empty symbol at %s: matching it consumes nothing" % empties[:3])
    for nm in ("Symbol_", "Keyword_"):
        gs = [g for g in members if g["name"] == nm]
        r6.anchor(gs, "ChaiScript_Parser::%s" % nm)
        g = gs[0]
        flow = FnFlow(g)
        rt = [n for n in walk(g["body"]) if n.get("k") == "return" and strip_casts(n.get("e") or {}).get("v") is True]
        ok = False
        why = "no single `return true`"
        if len(rt) == 1:
            dom = list(flow.dominating(rt[0]))
            lens = {v["vid"] for n in walk(g["body"]) if n.get("k") == "decl" for v in n["vars"] if v.get("init") is not None and
                    strip_casts(v["init"]).get("k") == "call" and strip_casts(v["init"]).get("name") == "size" and
                    strip_casts(strip_casts(v["init"]).get("obj") or {}).get("rk") == "param"}
            guard = any(x.get("k") == "binop" and x.get("op") == ">=" and "remaining" in expr_str(prog, g, x) and strip_casts(x["rhs"]).get("vid") in lens for x in dom)
            adv = False
            for x in dom:
                if x.get("k") == "call" and x.get("op") == "+=" and pcur.posref(g, x.get("obj")) == "cur" and strip_casts(x["args"][0]).get("vid") in lens:
                    adv = True
                if x.get("k") == "call" and x.get("op") == "=" and pcur.posref(g, x.get("obj")) == "cur":
                    # m_position = tmp where tmp was stepped once per matched character in a loop bounded by len
                    loops_ = [l_ for l_ in walk(g["body"]) if l_.get("k") == "for" and any(strip_casts(y).get("vid") in lens for y in walk(l_.get("cond") or {}))]
                    stepped = any(y.get("k") == "call" and y.get("op") == "++" for l_ in loops_ for y in walk(l_.get("body") or {}))
                    adv = bool(loops_) and stepped
            ok = guard and adv
            why = "remaining() >= len guard: %s; cursor advanced by len before `return true`: %s" % (guard, adv)
        r6.ob("%s consumes exactly the length of its symbol when it returns true" % nm, ok, g.where, g["q"], why)
    r6.note("summaries used here are the greatest fixpoint of 'returned true => consumed at least one character': assumed for every callee, re-derived for every "
            "function under that assumption until stable; valid for calls that have returned (induction on the height of the call tree)")
    r6.note("%d input-driven loops analysed, %d container/index loops skipped" % (nloops, nskip))
    r6.require(40, "input-driven loops")

    # ------------------------------------------------------------------ R1.4 exception escape
    r4 = chk.rule("R1.4", "only eval_error can leave ChaiScript_Parser::parse; nothing can leave a destructor or noexcept function of the parser",
                  "malformed input (every escape-sequence shape included) raises eval_error and never aborts the host")
    ALLOW4 = {
        "process_hex": "stoll over 1-2 characters appended only under is_hex_char",
        "process_octal": "stoll over 1-3 characters appended only under is_octal_char",
        "process_unicode": "stoul over exactly 4 or 8 characters appended only under is_hex_char (the complete-escape test precedes the conversion)",
    }

    flows = {}
    callers_memo = {}

    def only_called_from_allowed(g, depth=0):
        """a private helper of the escape decoder that is called from nowhere but the allow-listed digit converters (which hand it their own
        digit buffer) converts the same validated digits"""
        k_ = fkey(g)
        if k_ in callers_memo:
            return callers_memo[k_]
        callers_memo[k_] = False
        sites = []
        for h in pfns:
            if h.get("cls") != g.get("cls") or h is g:
                continue
            for x in walk(h["body"]):
                if x.get("k") == "call" and x.get("fn") is not None and prog.fn_by_id(h, x["fn"]) is g:
                    sites.append(h)
        ok_ = bool(sites) and all(h["name"] in ALLOW4 or (depth < 2 and only_called_from_allowed(h, depth + 1)) for h in sites)
        callers_memo[k_] = ok_
        return ok_

    def site_filter(g, n, types):
        d0 = prog.decl(g, n.get("fn")) if n.get("fn") is not None else None
        if d0 is not None and not d0.get("inroot") and n.get("obj") is not None:
            # std accessors that cannot throw at this site (facts visible in the enclosing function)
            if d0["name"] == "substr" and n.get("args") and strip_casts(n["args"][0]).get("k") == "lit" and strip_casts(n["args"][0]).get("v") == 0:
                return types - {"std::out_of_range"}        # substr(0, n): position 0 is always valid
            if d0["name"] == "at" and n.get("args") and strip_casts(n["args"][0]).get("k") == "lit":
                kidx = strip_casts(n["args"][0]).get("v")
                fl_ = flows.setdefault(fkey(g), FnFlow(g))
                from ..flow import atomic_facts, same_var
                for a, t in atomic_facts(fl_, n):
                    a = strip_casts(a)
                    if a.get("k") == "binop" and a.get("op") in ("!=", "==", ">", ">="):
                        l, r = strip_casts(a["lhs"]), strip_casts(a["rhs"])
                        if l.get("k") == "call" and l.get("name") == "size" and l.get("obj") is not None and same_var(l["obj"], n["obj"]) and r.get("k") == "lit":
                            c = r.get("v")
                            if (a["op"] == "!=" and not t and c > kidx) or (a["op"] == "==" and t and c > kidx) or (a["op"] == ">" and t and c >= kidx) or (a["op"] == ">=" and t and c > kidx):
                                return types - {"std::out_of_range"}
        if strip_targs(g.get("cls") or "").endswith("::Char_Parser") and (g["name"] in ALLOW4 or only_called_from_allowed(g)):
            d = prog.decl(g, n.get("fn")) if n.get("fn") is not None else None
            if d is not None and not d.get("inroot") and d["name"] in ("stoll", "stoul", "stoull", "stol"):
                return set()
        return types

    def cut(g):
        # the optimizer is called from build_match; that it never throws is decided by C02 R2.3
        return g["q"].startswith("chaiscript::optimizer::")

    from ..analysis import ExceptionFlow
    p = pe[0]
    sub = cg.reachable([fkey(p)], stop=lambda k: cut(prog._by_id[k]) if k in prog._by_id else False)
    sub |= {fkey(g) for g in pfns}
    ef = ExceptionFlow(prog, cg, only=sub, cut=cut, site_filter=site_filter)
    esc = set(ef.mt.get(fkey(p), set())) - {"chaiscript::exception::eval_error", "std::bad_alloc", "std::length_error"}
    sources = throw_sources(prog, ef, cg, p, esc) if esc else {}
    for t in sorted(esc):
        src = sources.get(t, [])
        r4.ob("ChaiScript_Parser::parse: %s cannot escape" % t, False, src[0][1] if src else p.where, p["q"],
              "%s can leave parse() (thrown in %s): the host receives an exception that is not eval_error" % (t, sorted({x[0].split("::")[-1] for x in src})[:5]))
    r4.ob("ChaiScript_Parser::parse: only eval_error can escape (%d functions on the parse path analysed)" % len(sub), not esc, p.where, p["q"], "escaping: %s" % sorted(esc))
    for name, why in ALLOW4.items():
        r4.note("allow-listed digit converter %s -- %s" % (name, why))
    # the allow-list above rests on this: only digits of the right base are ever appended to the buffers that are converted
    from .c16 import digit_class_obligations
    digit_class_obligations(chk, r4, prog)
    r4.note("calls into chaiscript::optimizer are cut here; that Optimizer::optimize cannot throw is R1.5 (= C02 R2.3)")
    ne = getattr(ef, "noexcept_escape", {})
    seen = set()
    nne = 0
    for g in sorted(pfns, key=lambda g: g["q"]):
        if not (g.get("noexcept") or g["kind"] == "dtor"):
            continue
        ident = strip_targs(g["q"])
        if ident in seen:
            continue
        seen.add(ident)
        nne += 1
        types = set(ne.get(fkey(g), set())) - {"std::bad_alloc", "std::length_error"}
        src = throw_sources(prog, ef, cg, g, types) if types else {}
        r4.ob("%s (%s) lets nothing escape" % (ident, "destructor" if g["kind"] == "dtor" else "noexcept"), not types, g.where, g["q"],
              "%s can leave a %s: std::terminate kills the host (thrown in %s)" % (sorted(types), "destructor" if g["kind"] == "dtor" else "noexcept function",
                                                                                   sorted({x[0].split("::")[-1] for v in src.values() for x in v})[:4]))
    r4.require(2, "obligations")

    # ------------------------------------------------------------------ R1.5
    r5 = chk.rule("R1.5", "the optimizer runs inside build_match, i.e. inside parse(): no exception can leave Optimizer::optimize (analysis shared with C02 R2.3)",
                  "parsing yields a tree or eval_error, never another exception type from a fold-time failure")
    from .c02 import decide_optimizer_throws
    decide_optimizer_throws(chk, r5, prog, cg, label="Optimizer::optimize (called from build_match)")


def depth_limit_test(prog, c, cond):
    """the condition is exactly `depth > limit` / `depth >= limit` (no further conjunct that could disable it)"""
    e = strip_casts(cond)
    if e.get("k") != "binop" or e.get("op") not in (">", ">="):
        return False
    l, r = strip_casts(e["lhs"]), strip_casts(e["rhs"])
    if not (l.get("k") == "member" and l.get("name") == "m_current_parse_depth"):
        return False
    return r.get("k") in ("lit", "ref") or (r.get("k") == "other")


def has_depth_guard(prog, g):
    """first statement that contains any call is the construction of a Depth_Counter local"""
    body = g["body"]
    for s in body.get("s", []):
        if s.get("k") == "decl":
            for v in s["vars"]:
                if strip_targs(prog.T(g, v["t"])).endswith("::Depth_Counter"):
                    return True
            if any(x.get("k") in ("call", "construct") for x in walk(s)):
                # a declaration with a call before the guard
                return False
        else:
            if any(x.get("k") == "call" for x in walk(s)):
                return False
    return False


def throw_sources(prog, ef, cg, f, types, limit=6):
    """{type: [(function q, where)]}: functions reachable from f that directly raise one of `types`"""
    out = {}
    if not types:
        return out
    seen = set()
    stack = [fkey(f)]
    while stack:
        k = stack.pop()
        if k in seen:
            continue
        seen.add(k)
        g = prog._by_id.get(k)
        if g is None:
            continue
        if not (ef.mt.get(k, set()) | getattr(ef, "noexcept_escape", {}).get(k, set())) & set(types):
            if k != fkey(f):
                continue
        for n in walk(g["body"]):
            own = ef.node_throws(g, n) if n.get("k") in ("throw", "cast") else None
            if n.get("k") == "throw" and not n.get("rethrow"):
                from ..analysis import norm_type
                t = norm_type(prog.T(g, n.get("tt")))
                if t in types:
                    out.setdefault(t, []).append((strip_targs(g["q"]), "%s:%d" % (g["file"], n["l"])))
            if n.get("k") in ("call", "construct") and n.get("fn") is not None:
                tgt = prog._by_id.get((g["unit"], n["fn"]))
                if tgt is None:
                    d = prog.decls.get((g["unit"], n["fn"]))
                    from .. import models
                    th = models.ext_throws(d["q"]) if d else None
                    for t in (th or []):
                        if t in types:
                            out.setdefault(t, []).append((strip_targs(g["q"]), "%s:%d" % (g["file"], n["l"])))
        for c in cg.callees(k):
            stack.append(c)
    return out
