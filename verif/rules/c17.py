"""C17  Prelude algorithms compute what their names say.

The prelude is ChaiScript source inside a C++ string literal.  What is decided here is the part of the statement
whose truth is in the shape of that script text, by an abstract interpretation of every prelude function over a
small domain (for each range view: a lower bound on the elements left; per loop iteration: how often the view was
advanced, which end was read, how often each callback parameter was called):

  R17.1  every range-driven loop advances its view exactly once on every path that completes an iteration
         (each element is visited once), counting loops step their counter exactly once;
  R17.2  front()/back()/pop_front()/pop_back() are reached only with at least one element left (non-empty test,
         size guard of the function minus the elements already consumed);
  R17.3  within an iteration the end that is read is the end that is dropped (front with pop_front, back with
         pop_back): elements are processed in order, none twice, none skipped;
  R17.4  a callback parameter applied to the current element is called exactly once per iteration;
  R17.5  inputs are left unmodified: no parameter (or alias of one made with := / &) is assigned, stepped,
         has a mutating member called on it, or is handed to back_inserter / bind(push_back, ...);
  R17.6  supporting fact from the C++ side: advancing a range view only moves the view's iterators.

Not decided: the functional result of each algorithm (off-by-one in counts, the combination the callback is used
for), the behaviour of the C++ functions the prelude calls.
"""
import os
import re

from .. import chaiparse as cp
from ..ir import REPO, AnalysisBroken, walk as irwalk, strip_targs
from ..flow import expr_str, strip_casts

MUTATORS = {"push_back", "push_front", "pop_back", "pop_front", "clear", "erase_at", "insert_at", "insert_ref_at", "push_back_ref",
            "push_front_ref", "resize", "erase", "insert", "assign", "swap"}
# functions whose contract is to modify an argument / the object they are a member of
MUTATING_BY_CONTRACT = {("", "insert_at"), ("", "push_back"), ("", "back_inserter"), ("retro", "retro"), ("retro", "pop_back"), ("retro", "pop_front")}
# functions whose contract is to hand back one of their arguments
SELECTORS = {(None, "max", 2), (None, "min", 2)}
SPEC = ["for_each", "map", "filter", "foldl", "reduce", "sum", "product", "any_of", "all_of", "contains", "find", "take", "take_while", "drop",
        "drop_while", "zip", "zip_with", "concat", "join", "reverse", "retro", "generate_range", "min", "max", "even", "odd", "ltrim", "rtrim",
        "trim", "to_string"]


def prelude_text():
    path = os.path.join(REPO, "include", "chaiscript", "language", "chaiscript_prelude.hpp")
    try:
        src = open(path).read()
    except OSError:
        raise AnalysisBroken("C17: %s not found" % path)
    m = re.search(r'R"chaiscript\((.*?)\)chaiscript"', src, re.S)
    if not m:
        raise AnalysisBroken("C17: the prelude's raw string literal was not found in chaiscript_prelude.hpp")
    first_line = src[:m.start(1)].count("\n") + 1
    return m.group(1), first_line, "include/chaiscript/language/chaiscript_prelude.hpp"


def root_id(e):
    while isinstance(e, dict):
        if e["k"] == "id":
            return e["name"]
        if e["k"] in ("member", "index"):
            e = e["obj"]
        elif e["k"] == "call" and e["f"]["k"] == "member" and e["f"]["name"] in ("get_var_attr",):
            e = e["f"]["obj"]
        else:
            return None
    return None


def is_range_ctor(e):
    """range(X) / retro(range(X)) / range(X) wrapped in clone -> X's expression"""
    if isinstance(e, dict) and e["k"] == "call" and e["f"]["k"] == "id" and e["f"]["name"] in ("range", "retro", "range_internal") and len(e["args"]) == 1:
        inner = is_range_ctor(e["args"][0])
        return inner if inner is not None else e["args"][0]
    return None


class Fn:
    """abstract interpretation of one prelude function"""

    def __init__(self, d, report):
        self.d = d
        self.report = report
        self.params = [p["name"] for p in d["params"]] + (["this"] if d.get("cls") else [])
        self.callable_params = set()
        for n in cp.walk(d["body"]):
            if n.get("k") == "call" and n["f"]["k"] == "id" and n["f"]["name"] in self.params:
                self.callable_params.add(n["f"]["name"])
        self.size_guard = {}
        if d.get("guard"):
            for n in cp.walk(d["guard"]):
                if n.get("k") == "binop" and n["op"] in (">=", ">") and n["r"]["k"] == "lit" and n["l"]["k"] == "call" and n["l"]["f"]["k"] == "member" and \
                        n["l"]["f"]["name"] == "size" and n["l"]["f"]["obj"]["k"] == "id":
                    k = int(re.sub(r"\D", "", n["r"]["v"]) or 0) + (1 if n["op"] == ">" else 0)
                    self.size_guard[n["l"]["f"]["obj"]["name"]] = k
        self.nloops = 0

    def name(self):
        d = self.d
        return ("%s::" % d["cls"] if d.get("cls") else "") + d["name"] + "/%d" % len(d["params"])

    # state: dict(rem={R:k}, ranges={R: source}, alias={v: param}, it=None|{pops:{R:[kinds]}, reads:{R:set}, calls:{p:n}, steps:{v:n}})
    def new_state(self):
        return {"rem": {}, "ranges": {}, "alias": {p: p for p in self.params}, "it": None}

    def copy(self, s):
        it = s["it"]
        return {"rem": dict(s["rem"]), "ranges": dict(s["ranges"]), "alias": dict(s["alias"]),
                "it": None if it is None else {"pops": {k: list(v) for k, v in it["pops"].items()}, "reads": {k: set(v) for k, v in it["reads"].items()},
                                                "calls": dict(it["calls"]), "steps": dict(it["steps"]), "elem_calls": dict(it["elem_calls"])}}

    # -- expression effects (in evaluation order); returns list of states (conditions may split)
    def ev(self, e, s, line):
        if not isinstance(e, dict):
            return s
        k = e["k"]
        if k == "call":
            f = e["f"]
            if f["k"] == "member":
                s = self.ev(f["obj"], s, line)
                for a in e["args"]:
                    s = self.ev(a, s, line)
                recv = f["obj"]
                rname = recv["name"] if recv["k"] == "id" else None
                m = f["name"]
                if rname in s["ranges"] and m in ("front", "back", "pop_front", "pop_back"):
                    if s["rem"].get(rname, 0) < 1:
                        self.report("R17.2", self, line, "%s.%s() is reached without a non-empty test (or size guard) covering it" % (rname, m))
                    if m.startswith("pop"):
                        s["rem"][rname] = max(0, s["rem"].get(rname, 0) - 1)
                        if s["it"] is not None:
                            s["it"]["pops"].setdefault(rname, []).append(m[4:])
                    elif s["it"] is not None:
                        s["it"]["reads"].setdefault(rname, set()).add(m)
                elif m in MUTATORS:
                    self.mutation(s, recv, line, "%s() called on" % m)
                return s
            if f["k"] == "id":
                fname = f["name"]
                for a in e["args"]:
                    s = self.ev(a, s, line)
                if fname in self.callable_params and s["it"] is not None:
                    s["it"]["calls"][fname] = s["it"]["calls"].get(fname, 0) + 1
                    if any(n.get("k") == "call" and n["f"]["k"] == "member" and n["f"]["name"] in ("front", "back") for a in e["args"] for n in cp.walk(a)):
                        s["it"]["elem_calls"][fname] = s["it"]["elem_calls"].get(fname, 0) + 1
                if fname == "back_inserter" and e["args"]:
                    self.mutation(s, e["args"][0], line, "back_inserter() built over")
                if fname == "bind" and len(e["args"]) >= 2 and e["args"][0]["k"] == "id" and e["args"][0]["name"] in MUTATORS:
                    self.mutation(s, e["args"][1], line, "bind(%s, ...) built over" % e["args"][0]["name"])
                if fname in MUTATORS and e["args"]:
                    self.mutation(s, e["args"][0], line, "%s() applied to" % fname)
                return s
            s = self.ev(f, s, line)
            for a in e["args"]:
                s = self.ev(a, s, line)
            return s
        if k == "assign":
            s = self.ev(e["r"], s, line)
            if e["op"] == ":=":
                r = root_id(e["l"])
                # rebinding a local is not a mutation of what it referred to; rebinding a parameter's attribute is
                if e["l"]["k"] != "id":
                    self.mutation(s, e["l"], line, "reference-assigned (:=)")
                elif r in self.params:
                    self.mutation(s, e["l"], line, "rebound (:=)")
                else:
                    src = root_id(e["r"])
                    if src in s["alias"]:
                        s["alias"][r] = s["alias"][src]
            else:
                self.mutation(s, e["l"], line, "assigned (%s)" % e["op"])
                tgt = root_id(e["l"])
                if s["it"] is not None and tgt is not None and e["op"] in ("+=", "-="):
                    s["it"]["steps"][tgt] = s["it"]["steps"].get(tgt, 0) + 1
            return s
        if k == "unop":
            s = self.ev(e["e"], s, line)
            if e["op"] in ("++", "--"):
                self.mutation(s, e["e"], line, "stepped (%s)" % e["op"])
                tgt = root_id(e["e"])
                if s["it"] is not None and tgt is not None:
                    s["it"]["steps"][tgt] = s["it"]["steps"].get(tgt, 0) + 1
            return s
        if k == "lambda":
            return s
        for v in e.values():
            if isinstance(v, dict):
                s = self.ev(v, s, line)
            elif isinstance(v, list):
                for x in v:
                    s = self.ev(x, s, line)
        return s

    def mutation(self, s, target, line, what):
        r = root_id(target)
        if r is None:
            return
        owner = s["alias"].get(r)
        if owner is None:
            return
        if (self.d.get("cls") or "", self.d["name"]) in MUTATING_BY_CONTRACT:
            return
        self.report("R17.5", self, line, "%s %s%s" % (what, r, "" if r == owner else " (an alias of the parameter %s)" % owner))

    def cond(self, e, s, line):
        """-> (state if true, state if false, views tested non-empty).  `a && b` evaluates b only in a's true state, so
        `!r.empty() && f(r.front())` reads the front under the non-empty test."""
        if e["k"] == "binop" and e["op"] == "&&":
            tl, fl, t1 = self.cond(e["l"], s, line)
            tr, fr, t2 = self.cond(e["r"], tl, line)
            return tr, fl, t1 + t2
        if e["k"] == "unop" and e["op"] == "!" and e["e"]["k"] == "call" and e["e"]["f"]["k"] == "member" and e["e"]["f"]["name"] == "empty" and \
                e["e"]["f"]["obj"]["k"] == "id":
            r = e["e"]["f"]["obj"]["name"]
            s = self.ev(e, s, line)
            t, f = self.copy(s), self.copy(s)
            if r in t["ranges"]:
                t["rem"][r] = max(t["rem"].get(r, 0), 1)
                f["rem"][r] = 0
            return t, f, [r]
        s = self.ev(e, s, line)
        return self.copy(s), self.copy(s), []

    # -- statements: -> list of (state, outcome)
    def ex(self, n, s):
        k = n["k"]
        line = n.get("line", 0)
        if k == "block":
            cur = [(s, "normal")]
            for st in n["s"]:
                nxt = []
                for s1, o in cur:
                    if o != "normal":
                        nxt.append((s1, o))
                    else:
                        nxt.extend(self.ex(st, s1))
                cur = nxt
            return cur
        if k == "decl":
            if n["init"] is not None:
                s = self.ev(n["init"], s, line)
                src = is_range_ctor(n["init"])
                if src is not None:
                    s["ranges"][n["name"]] = src
                    base = root_id(src)
                    s["rem"][n["name"]] = self.size_guard.get(base, 0) if src["k"] == "id" else 0
                elif n["op"] == ":=" or n["ref"]:
                    r = root_id(n["init"])
                    if r in s["alias"]:
                        s["alias"][n["name"]] = s["alias"][r]
                    else:
                        s["alias"].pop(n["name"], None)
                else:
                    s["alias"].pop(n["name"], None)
            return [(s, "normal")]
        if k == "expr":
            return [(self.ev(n["e"], s, line), "normal")]
        if k == "return":
            return [(self.ev(n["e"], s, line) if n["e"] else s, "return")]
        if k in ("break", "continue"):
            return [(s, k)]
        if k == "if":
            t, f, _ = self.cond(n["cond"], s, line)
            out = self.ex(n["then"], t)
            out += self.ex(n["else"], f) if n["else"] else [(f, "normal")]
            return out
        if k == "while":
            self.nloops += 1
            outer_it = s["it"]
            s = self.copy(s)
            s["it"] = {"pops": {}, "reads": {}, "calls": {}, "steps": {}, "elem_calls": {}}
            t, f, tests = self.cond(n["cond"], s, line)
            driven = [r for r in tests if r in t["ranges"]]
            counters = []
            if not driven:
                for x in cp.walk(n["cond"]):
                    if x.get("k") == "binop" and x["op"] in ("<", "<=", ">", ">=", "!=") and x["l"]["k"] == "id":
                        counters.append(x["l"]["name"])
            for s1, o in self.ex(n["body"], t):
                if o in ("return", "break"):
                    continue
                it = s1["it"]
                for r in driven:
                    pops = it["pops"].get(r, [])
                    if len(pops) != 1:
                        self.report("R17.1", self, line, "a path through the loop body advances %s %d times (pops: %s): %s" % (
                            r, len(pops), pops, "the loop never ends / an element is visited twice" if not pops else "elements are skipped"))
                    elif it["reads"].get(r) and it["reads"][r] != {"front" if pops[0] == "front" else "back"}:
                        self.report("R17.3", self, line, "%s is read with %s() but advanced with pop_%s(): the element processed is not the one dropped" % (
                            r, "/".join(sorted(it["reads"][r])), pops[0]))
                for c in counters:
                    if it["steps"].get(c, 0) != 1 and not driven:
                        self.report("R17.1", self, line, "a path through the loop body steps the counter %s %d times" % (c, it["steps"].get(c, 0)))
                for p, cnt in it["elem_calls"].items():
                    if p != "inserter" and cnt != 1:
                        self.report("R17.4", self, line, "the callback %s is applied to the current element %d times in one iteration" % (p, cnt))
            after = self.copy(f)
            for r in driven:
                after["rem"][r] = 0 if len(tests) == 1 else after["rem"].get(r, 0)
            after["it"] = outer_it
            return [(after, "normal")]
        if k == "for":
            raise cp.ParseError("line %d: for loops are outside the modelled subset" % line)
        if k in ("def", "attr"):
            return [(s, "normal")]
        raise cp.ParseError("line %d: statement kind %s" % (line, k))


# --------------------------------------------------------------------------------------------- R17.8 callback argument roles
# reference: the argument convention of every callback-taking function named by the property (from today's prelude, confirmed by reading;
# changing a convention changes what every caller's callback receives)
ROLE_SPEC = {
    # (function, arity): {position of the callback parameter: set of role tuples}   (positions, not names: renaming a parameter changes nothing)
    ("for_each", 2): {1: {("elem:0",)}},
    ("map", 3): {1: {("elem:0",)}, 2: {("result:1",)}},
    ("map", 2): {1: {("elem:0",)}},
    ("filter", 3): {1: {("elem:0",)}, 2: {("elem:0",)}},
    ("filter", 2): {1: {("elem:0",)}},
    ("foldl", 3): {1: {("elem:0", "acc")}},
    ("reduce", 2): {1: {("acc", "elem:0")}},
    ("any_of", 2): {1: {("elem:0",)}},
    ("all_of", 2): {1: {("elem:0",)}},
    ("take_while", 3): {1: {("elem:0",)}, 2: {("elem:0",)}},
    ("take_while", 2): {1: {("elem:0",)}},
    ("drop_while", 3): {1: {("elem:0",)}, 2: {("elem:0",)}},
    ("drop_while", 2): {1: {("elem:0",)}},
    ("zip_with", 4): {0: {("elem:1", "elem:2")}, 3: {("result:0",)}},
    ("zip_with", 3): {0: {("elem:1", "elem:2")}},
}


class Roles:
    """for each prelude function and each callable parameter: the set of argument-role tuples with which the callback is applied,
    directly or through another prelude function it is handed to"""

    def __init__(self, defs):
        self.defs = {}
        for d in defs:
            if not d.get("cls"):
                self.defs.setdefault((d["name"], len(d["params"])), d)
        self.memo = {}
        self.active = set()

    def summary(self, key):
        if key in self.memo:
            return self.memo[key]
        if key in self.active or key not in self.defs:
            return {}
        self.active.add(key)
        d = self.defs[key]
        params = [p["name"] for p in d["params"]]
        views = {}    # local view -> source expression
        inits = {}    # local -> init expression
        accs = set()
        for n in cp.walk(d["body"]):
            if n.get("k") == "decl" and n.get("init") is not None:
                src = is_range_ctor(n["init"])
                if src is not None:
                    views[n["name"]] = src
                inits[n["name"]] = n["init"]
        callables = {n["f"]["name"] for n in cp.walk(d["body"]) if n.get("k") == "call" and n["f"]["k"] == "id" and n["f"]["name"] in params}
        # parameters handed on to another prelude function in a callback position count as callables too
        changed = True
        while changed:
            changed = False
            for n in cp.walk(d["body"]):
                if n.get("k") == "call" and n["f"]["k"] == "id" and (n["f"]["name"], len(n["args"])) in self.defs and (n["f"]["name"], len(n["args"])) != key:
                    sub = self.summary((n["f"]["name"], len(n["args"])))
                    gp = [p["name"] for p in self.defs[(n["f"]["name"], len(n["args"]))]["params"]]
                    for j, a in enumerate(n["args"]):
                        if a["k"] == "id" and a["name"] in params and gp[j] in sub and a["name"] not in callables:
                            callables.add(a["name"])
                            changed = True
        for n in cp.walk(d["body"]):
            # accumulators: locals that receive the result of a callback application (or of a function the callback was handed to)
            tgt = rhs = None
            if n.get("k") == "assign" and n["l"]["k"] == "id":
                tgt, rhs = n["l"]["name"], n["r"]
            elif n.get("k") == "decl" and n.get("init") is not None:
                tgt, rhs = n["name"], n["init"]
            if tgt is not None and tgt not in params and any(x.get("k") == "call" and x["f"]["k"] == "id" and x["f"]["name"] in callables for x in cp.walk(rhs)):
                accs.add(tgt)

        def source_param(e, depth=0):
            r = root_id(e)
            if r in params:
                return params.index(r)
            if r in views and depth < 5:
                return source_param(views[r], depth + 1)
            if r in inits and depth < 5:
                return source_param(inits[r], depth + 1)
            return None

        def role(a):
            if a["k"] == "call" and a["f"]["k"] == "member" and a["f"]["name"] in ("front", "back"):
                k = source_param(a["f"]["obj"])
                return "elem:%s" % ("?" if k is None else k)
            if a["k"] == "index":
                k = source_param(a["obj"])
                return "elem:%s" % ("?" if k is None else k)
            if a["k"] == "call" and a["f"]["k"] == "id" and a["f"]["name"] in callables:
                return "result:%d" % params.index(a["f"]["name"])
            if a["k"] == "id":
                if a["name"] in accs:
                    return "acc"
                if a["name"] in params:
                    # a parameter that seeds an accumulator is the accumulator's initial value
                    return "acc" if any(v in accs and inits[v].get("k") == "id" and inits[v]["name"] == a["name"] for v in inits) else "param:%d" % params.index(a["name"])
            return "other"

        out = {}
        for n in cp.walk(d["body"]):
            if n.get("k") != "call" or n["f"]["k"] != "id":
                continue
            fname = n["f"]["name"]
            if fname in callables:
                out.setdefault(fname, set()).add(tuple(role(a) for a in n["args"]))
            gkey = (fname, len(n["args"]))
            if gkey in self.defs and gkey != key:
                sub = self.summary(gkey)
                gp = [p["name"] for p in self.defs[gkey]["params"]]
                for j, a in enumerate(n["args"]):
                    if a["k"] == "id" and a["name"] in callables and gp[j] in sub:
                        for tup in sub[gp[j]]:
                            mapped = []
                            for r in tup:
                                if r.startswith("elem:") and r[5:].isdigit():
                                    k = source_param(n["args"][int(r[5:])])
                                    mapped.append("elem:%s" % ("?" if k is None else k))
                                elif r.startswith("param:"):
                                    mapped.append(role(n["args"][int(r[6:])]))
                                elif r.startswith("result:"):
                                    idx = int(r[7:]) if r[7:].isdigit() and int(r[7:]) < len(n["args"]) else None
                                    aa = n["args"][idx] if idx is not None else None
                                    mapped.append("result:%d" % params.index(aa["name"]) if aa is not None and aa["k"] == "id" and aa["name"] in callables else "other")
                                else:
                                    mapped.append(r)
                            out.setdefault(a["name"], set()).add(tuple(mapped))
        self.active.discard(key)
        self.memo[key] = out
        return out


def run(chk):
    text, first_line, relfile = prelude_text()
    chk.explanation = ("Script lint over the prelude's source text (extracted from the raw string literal in chaiscript_prelude.hpp on every run, "
                       "parsed by an independent subset parser): abstract interpretation of each function over element lower bounds per range "
                       "view and per-iteration counters (advances, reads, callback applications, counter steps), plus an alias-aware "
                       "who-may-mutate rule for parameters.  One supporting rule over the C++ range views.")
    chk.assume("range(x) / retro(x) build a view of x; advancing a view does not modify x (R17.6 checks the C++ view classes)")
    chk.assume("`auto y = x` copies, `auto y := x` and `auto &y = x` alias (C03 R3.5)")
    try:
        prog = cp.parse(text)
    except cp.ParseError as e:
        raise AnalysisBroken("C17: the prelude is outside the parsed subset: %s" % e)
    defs = [d for d in prog if d["k"] == "def"]
    rules = {
        "R17.1": chk.rule("R17.1", "every range-driven loop advances its view exactly once per completed iteration; counting loops step their counter once",
                          "each element is visited exactly once, in order"),
        "R17.2": chk.rule("R17.2", "front/back/pop_front/pop_back on a view are reached only with at least one element left",
                          "empty input and counts beyond the length do not read past the view"),
        "R17.3": chk.rule("R17.3", "within an iteration the end that is read is the end that is dropped",
                          "elements are processed in order, none twice, none skipped"),
        "R17.4": chk.rule("R17.4", "a callback parameter applied to the current element is called exactly once per iteration",
                          "the callback is called once per element"),
        "R17.5": chk.rule("R17.5", "no parameter, and no alias of one, is assigned, stepped, mutated through a member or handed to an inserter",
                          "library functions leave their inputs unmodified"),
    }
    rules["R17.7"] = chk.rule("R17.7", "a numeric parameter is never compared with an unsigned size(): the comparison converts a negative count to a huge unsigned value",
                              "numeric arguments including 0 and negative values behave as counts (take(v, -1) is empty, not everything)")
    found = {}

    def report(rid, fn, line, msg):
        found.setdefault((rid, fn.name()), []).append((line, msg))

    nloops = 0
    names = set()
    for d in defs:
        fn = Fn(d, report)
        names.add(d["name"])
        try:
            fn.ex(d["body"], fn.new_state())
        except cp.ParseError as e:
            raise AnalysisBroken("C17: %s: %s" % (fn.name(), e))
        nloops += fn.nloops
        has_loop = fn.nloops > 0
        pnames = {p["name"] for p in d["params"]}
        ncmp = 0
        for x in cp.walk([d["body"], d.get("guard")]):
            if x.get("k") == "binop" and x["op"] in ("<", "<=", ">", ">=", "==", "!="):
                for a, b in ((x["l"], x["r"]), (x["r"], x["l"])):
                    if a["k"] == "id" and a["name"] in pnames and any(y.get("k") == "call" and y["f"]["k"] == "member" and y["f"]["name"] == "size" for y in cp.walk(b)):
                        ncmp += 1
                        report("R17.7", fn, d["line"], "parameter %s is compared with an unsigned size(): a negative %s wraps around" % (a["name"], a["name"]))
        for rid, rule in rules.items():
            if rid in ("R17.1", "R17.3", "R17.4") and not has_loop:
                continue
            if rid == "R17.7" and not any(x.get("k") == "binop" and x["op"] in ("<", "<=", ">", ">=", "==", "!=") for x in cp.walk([d["body"], d.get("guard")])):
                continue
            if rid == "R17.2" and not any(n.get("k") == "call" and n["f"]["k"] == "member" and n["f"]["name"] in ("front", "back", "pop_front", "pop_back") for n in cp.walk(d["body"])):
                continue
            bad = found.get((rid, fn.name()), [])
            where = "%s:%d" % (relfile, first_line + (bad[0][0] if bad else d["line"]) - 1)
            rule.ob("prelude %s" % fn.name(), not bad, where, "prelude:" + fn.name(), "; ".join(m for _, m in bad)[:500])
    missing = [n for n in SPEC if n not in names]
    rules["R17.5"].anchor(not missing, "prelude functions named by the property (missing: %s)" % missing)
    rules["R17.1"].anchor(nloops >= 15, "loops in the prelude (found %d)" % nloops)
    rules["R17.1"].require(15, "loop-carrying functions")
    rules["R17.5"].require(50, "prelude functions")

    # ------------------------------------------------------------------ R17.9 results are not the inputs themselves
    r9 = chk.rule("R17.9", "no library function hands back one of its parameters (or `this`, or an alias of one) as its result: every result is a value of its own",
                  "library functions leave their inputs unmodified: a caller that binds the result by reference and changes it does not change the argument")
    nres = 0
    for d in defs:
        params = {p["name"] for p in d["params"]} | ({"this"} if d.get("cls") else set())
        aliases = set(params)
        for n in cp.walk(d["body"]):
            if n.get("k") == "decl" and n.get("init") is not None and (n.get("op") == ":=" or n.get("ref")) and n["init"].get("k") == "id" and n["init"]["name"] in aliases:
                aliases.add(n["name"])

        def results(blk):
            out = []
            stmts = blk["s"] if blk.get("k") == "block" else [blk]
            if stmts:
                last = stmts[-1]
                if last["k"] == "expr":
                    out.append((last["e"], last.get("line", d["line"])))
                elif last["k"] == "if":
                    out += results(last["then"])
                    if last.get("else") is not None:
                        out += results(last["else"])
                elif last["k"] == "block":
                    out += results(last)
            return out
        res = results(d["body"]) + [(n["e"], n.get("line", d["line"])) for n in cp.walk(d["body"]) if n.get("k") == "return" and n.get("e") is not None]
        nres += len(res)
        bad = [(e["name"], ln) for e, ln in res if e.get("k") == "id" and e["name"] in aliases]
        fnname = ("%s::" % d["cls"] if d.get("cls") else "") + d["name"] + "/%d" % len(d["params"])
        if res and (d.get("cls"), d["name"], len(d["params"])) in SELECTORS:
            r9.note("prelude %s selects one of its arguments by contract (like std::max / std::min): %s" % (fnname, sorted({b[0] for b in bad})))
        elif res:
            r9.ob("prelude %s: the result is not a parameter itself" % fnname, not bad, "%s:%d" % (relfile, first_line + (bad[0][1] if bad else d["line"]) - 1), "prelude:" + fnname,
                  "returns its own argument `%s`: the caller's `var r := f(x); r += ..` modifies x" % (bad[0][0] if bad else ""))
    r9.require(40, "functions with a result")

    # ------------------------------------------------------------------ R17.10 what is stored by reference is a copy, or an un-marked temporary
    r10 = chk.rule("R17.10", "a value handed to a by-reference store (insert_ref_at, push_back_ref, push_front_ref) is clone(..) of the argument, or the argument itself on a path that "
                             "first clears its is-a-temporary mark (x.reset_var_return_value())",
                   "insert_at / push_back have the effect of the std container operation: the stored element is an ordinary value - assignable, and copied by the next `var y = v[i]`")
    nref = 0
    for d in defs:
        params = {p_["name"] for p_ in d["params"]}
        fnname = ("%s::" % d["cls"] if d.get("cls") else "") + d["name"] + "/%d" % len(d["params"])

        def scan(stmts, cleared):
            global_cleared = set(cleared)
            for st in stmts:
                for n in cp.walk(st) if st.get("k") not in ("if", "while", "for", "block") else []:
                    pass
                if st.get("k") == "block":
                    yield from scan(st["s"], global_cleared)
                    continue
                if st.get("k") == "if":
                    yield from scan([st["then"]], global_cleared)
                    if st.get("else") is not None:
                        yield from scan([st["else"]], global_cleared)
                    continue
                if st.get("k") in ("while", "for"):
                    yield from scan([st["body"]], global_cleared)
                    continue
                for n in cp.walk(st):
                    if n.get("k") == "call" and n["f"]["k"] == "member" and n["f"]["name"] == "reset_var_return_value" and n["f"]["obj"].get("k") == "id":
                        global_cleared.add(n["f"]["obj"]["name"])
                    if n.get("k") == "call" and ((n["f"]["k"] == "member" and "_ref" in n["f"]["name"]) or (n["f"]["k"] == "id" and "_ref" in n["f"]["name"])):
                        for a in n["args"][-1:]:          # the stored value is the last argument (positions come first)
                            if a.get("k") == "id" and a["name"] in params:
                                yield (n, a["name"], a["name"] in global_cleared, st.get("line", d["line"]))
                            elif a.get("k") == "call" and a["f"].get("k") == "id" and a["f"]["name"] == "clone":
                                yield (n, "clone(..)", True, st.get("line", d["line"]))
        for n, what, ok, line in scan(d["body"]["s"], set()):
            nref += 1
            r10.ob("prelude %s: %s stored by reference" % (fnname, what), ok, "%s:%d" % (relfile, first_line + line - 1), "prelude:" + fnname,
                   "the parameter `%s` is stored without a copy and without clearing its is-a-temporary mark: the element stays marked, so `v[i] = x` is refused "
                   "(\"cannot assign to temporary\") and `var y = v[i]` aliases the element instead of copying it" % what)
    r10.require(1, "by-reference stores")

    # ------------------------------------------------------------------ R17.8 callback argument roles
    r8 = chk.rule("R17.8", "every application of a callback parameter - direct or through another library function the callback is handed to - passes the "
                           "same roles (element of which input, accumulator, result of another callback) in the same positions, and they are the roles of the reference table",
                  "the callback receives the elements in order and the accumulator in the documented position (reduce: f(acc, elem); foldl: f(elem, acc); zip_with: f(x_i, y_i))")
    roles = Roles(defs)
    ncb = 0
    for key in sorted(roles.defs):
        d = roles.defs[key]
        pnames = [p_["name"] for p_ in d["params"]]
        summ = {pnames.index(k_): v_ for k_, v_ in roles.summary(key).items() if k_ in pnames}
        spec = ROLE_SPEC.get(key)
        for pos in sorted(set(summ) | set(spec or {})):
            cb = "#%d (%s)" % (pos, pnames[pos] if pos < len(pnames) else "?")
            got = summ.get(pos, set())
            ncb += 1
            fname = "%s/%d" % key
            where = "%s:%d" % (relfile, first_line + d["line"] - 1)
            uniform = len(got) == 1
            r8.ob("prelude %s: callback %s is applied with one argument convention" % (fname, cb), uniform, where, "prelude:" + fname,
                  "applications of %s use the conventions %s" % (cb, sorted(got) or "none (the callback is never applied)"))
            if spec is not None:
                want = spec.get(pos)
                r8.ob("prelude %s: callback %s receives %s" % (fname, cb, sorted(want) if want else "nothing (not a callback of the reference table)"), got == want, where, "prelude:" + fname,
                      "applications of %s use %s, the reference convention is %s" % (cb, sorted(got), sorted(want) if want else None))
    missing8 = [k for k in ROLE_SPEC if k not in roles.defs]
    r8.anchor(not missing8, "callback-taking prelude functions of the reference table (missing: %s)" % missing8)
    r8.require(20, "callback parameters")

    # ------------------------------------------------------------------ R17.11 = C08 R8.3: the prelude's private copies are copies
    if not getattr(chk, "nested", False):
        from .. import core
        from . import c08
        r11 = chk.rule("R17.11", "the copying declarations the prelude relies on (`auto retval = initial`, `auto i = num`, `auto retval = r.front()`) really copy: container literals store "
                                 "clone_if_necessary(..) of each element (which also clears the is-a-temporary mark), `var x = e` clones (C08 R8.3 re-decided)",
                       "library functions leave their inputs unmodified: a local the prelude declares with `=` never aliases an element of the caller's container")
        sub = core.Check("C08", tier=chk.tier)
        sub.prog = chk.program()
        sub.nested = True
        c08.run(sub)
        sr = [r for r in sub.rules if r.rid == "R8.3"]
        r11.anchor(bool(sr), "C08 R8.3")
        for v in [v for v in sub.violations if v["rule"] == "R8.3"]:
            r11.ob("R8.3: %s" % v["instance"], False, v["where"], v["function"], v["detail"] + " - an element that stays marked as a temporary is adopted, not copied, by the prelude's `auto x = ..`")
        r11.ob("C08 R8.3 decided (%d obligations)" % sr[0].obligations, True, "", "", "")
        r11.require(1, "rule")

    # ------------------------------------------------------------------ R17.6 (C++ side)
    r6 = chk.rule("R17.6", "advancing a range view (Bidir_Range) only moves the view's own iterators",
                  "iterating over a container with the library algorithms leaves the container unmodified")
    prog_cpp = chk.program()
    pops = [f for f in prog_cpp.fns if strip_targs(f.get("cls") or "") == "chaiscript::bootstrap::standard_library::Bidir_Range" and f["name"] in ("pop_front", "pop_back") and f["tk"] == "inst"]
    r6.anchor(len(pops) >= 2, "Bidir_Range::pop_front / pop_back instantiations")
    chk.touched(pops)
    seen = set()
    for f in pops:
        ident = "Bidir_Range::%s" % f["name"]
        if ident in seen:
            continue
        seen.add(ident)
        writes = []
        calls = []
        for n in irwalk(f["body"]):
            if n.get("k") == "call" and n.get("op") in ("++", "--") and (n.get("obj") is not None or n.get("args")):
                tgt = strip_casts(n.get("obj") or n["args"][0])
                writes.append(tgt.get("name"))
            elif n.get("k") == "unop" and n.get("op") in ("++", "--"):
                writes.append(strip_casts(n["e"]).get("name"))
            elif n.get("k") == "assign":
                writes.append(strip_casts(n["lhs"]).get("name"))
            elif n.get("k") == "call" and n.get("name") in ("erase", "pop_back", "pop_front", "clear", "insert", "push_back"):
                calls.append(n.get("name"))
        ok = bool(writes) and set(writes) <= {"m_begin", "m_end"} and not calls
        r6.ob(ident + " moves only m_begin / m_end", ok, f.where, f["q"], "writes %s, container calls %s" % (writes, calls))
    r6.require(2, "view advances")
