"""C18 R18.6: nothing can leave a destructor or noexcept function of the JSON value / reader / writer (std::terminate would kill the host)."""
from ..ir import walk, strip_targs
from ..analysis import callgraph, fkey, ExceptionFlow

RESOURCE_ONLY = {"std::bad_alloc", "std::length_error"}


def noexcept_rule(chk, prog):
    r6 = chk.rule("R18.6", "nothing but resource exhaustion can leave a destructor or noexcept function of the JSON value, reader and writer",
                  "from_json / to_json either return or raise an error: an exception thrown inside a noexcept function or a destructor is std::terminate, not an error the caller can catch")
    jf = [f for f in prog.fns if f["tk"] != "pattern" and f.get("body") and (f["q"].startswith("chaiscript::json::") or f["q"].startswith("chaiscript::json_wrap::"))]
    r6.anchor(len(jf) >= 20, "functions of chaiscript::json (found %d)" % len(jf))
    cg = callgraph(prog)
    sub = cg.reachable([fkey(f) for f in jf])
    sub |= {fkey(f) for f in jf}
    ef = ExceptionFlow(prog, cg, only=sub)
    ne = getattr(ef, "noexcept_escape", {})
    seen = set()
    for g in sorted(jf, key=lambda g: g["q"]):
        if not (g.get("noexcept") or g["kind"] == "dtor"):
            continue
        ident = strip_targs(g["q"]) + "/%d" % len(g.get("params", []))
        types = set(ne.get(fkey(g), set())) - RESOURCE_ONLY
        key = (ident, bool(types))
        if key in seen:
            continue
        seen.add(key)
        thrown_at = ""
        if types:
            # name the nearest throw site for the report
            stack, vis = [fkey(g)], set()
            while stack and not thrown_at:
                k = stack.pop()
                if k in vis:
                    continue
                vis.add(k)
                h = prog._by_id.get(k)
                if h is None:
                    continue
                for n in walk(h["body"]):
                    if n.get("k") == "throw" and not n.get("rethrow"):
                        thrown_at = "%s (%s:%d)" % (strip_targs(h["q"]), h["file"], n["l"])
                        break
                    if n.get("k") in ("call", "construct") and n.get("fn") is not None:
                        c = prog.fn_by_id(h, n["fn"])
                        if c is not None and ((ef.mt.get(fkey(c), set()) | ne.get(fkey(c), set())) & types):
                            stack.append(fkey(c))
        chk.touched([g])
        r6.ob("%s (%s) lets nothing escape" % (ident, "destructor" if g["kind"] == "dtor" else "noexcept"), not types, g.where, g["q"],
              "%s can leave a %s: std::terminate ends the process instead of an error reaching the caller%s" % (
                  sorted(types), "destructor" if g["kind"] == "dtor" else "noexcept function", (" - thrown in " + thrown_at) if thrown_at else ""))
    r6.require(5, "noexcept functions / destructors")
