"""C12  Built-in containers/strings are bounds-safe.

Decides: no std container / iterator operation with an undefined-behaviour precondition is reachable from
script without a dominating guard that throws.  R12.1 direct bindings fun(&C::m); R12.2 guarded uses inside
the bootstrap helpers, lambdas and the range views.
"""
from ..ir import walk, strip_targs, AnalysisBroken
from ..flow import FnFlow, strip_casts, same_var, expr_str, always_exits, split_cond
from ..paths import PathResolver, ref_inits
from .. import models

SEQ = ("std::vector<", "std::deque<", "std::list<", "std::forward_list<", "std::basic_string<", "std::array<",
       "std::basic_string_view<")
ASSOC = ("std::map<", "std::unordered_map<", "std::set<", "std::multimap<", "std::unordered_set<")
UB_SEQ = {"front", "back", "pop_back", "pop_front", "operator[]"}
UB_ITER_ARG = {"erase", "insert", "emplace", "splice"}
ITER_OPS = {"++", "--", "*", "->"}


def container_kind(cls):
    if not cls:
        return None
    if cls.startswith(SEQ):
        return "seq"
    if cls.startswith(ASSOC):
        return "assoc"
    return None


def is_iterator_type(t):
    t = t.replace("const ", "")
    return "iterator" in t or "_Rb_tree" in t or "_List_" in t or "_Node_" in t


def ub_member(prog, f, decl):
    """Does calling this std member have a UB precondition?  returns reason or None"""
    if decl is None or decl.get("inroot"):
        return None
    cls = decl.get("cls") or ""
    kind = container_kind(cls)
    name = decl["name"]
    if kind == "seq" and name in UB_SEQ:
        return "%s::%s requires a non-empty container / in-range index" % (strip_targs(cls), name)
    if kind and name in UB_ITER_ARG:
        ptypes = [prog.T(decl["unit"], p["t"]) for p in decl.get("params", [])]
        if name in ("insert", "emplace") and len(ptypes) == 2 and ptypes[0] == ptypes[1] and decl.get("targs"):
            # range insert insert(InputIt first, InputIt last): the iterators denote the *source* range, not a position
            return None
        if any(is_iterator_type(t) for t in ptypes):
            return "%s::%s(iterator...) requires a valid dereferenceable iterator" % (strip_targs(cls), name)
    return None


def bound_member(prog, f, arg):
    """fun(&C::m) / fun(static_cast<pm>(&C::m)) -> decl of m (function or None)"""
    for x in walk(arg):
        if x.get("k") == "unop" and x.get("op") == "&":
            e = strip_casts(x.get("e"))
            if e.get("k") == "ref" and e.get("rk") == "func":
                return prog.decl(f, e.get("fn")), x
            if e.get("k") == "ref" and e.get("rk") == "field":
                return None, x
        if x.get("k") == "lambda":
            return None, None
    return None, None


def run(chk):
    prog = chk.program()
    chk.explanation = ("Who-may-bind and check-dominates-use rules over every instantiation of the chaiscript::bootstrap templates "
                       "(Vector, List, Map, Pair, String, arrays, range views): a std member with an undefined-behaviour "
                       "precondition (front/back/pop_*/operator[] of sequences, erase/insert taking iterators, iterator "
                       "* ++ --, std::advance, built-in subscript) is never exposed to script directly, and every internal use is "
                       "dominated by an emptiness / range / extent test whose failing arm throws.")
    chk.assume("range views are used only while their container is not structurally modified (excluded by the property)")
    chk.assume("std members outside the UB table either have no precondition or report violations by throwing (at, substr, resize, map::operator[])")

    boot = [f for f in prog.fns if f["q"].startswith("chaiscript::bootstrap::") and f["tk"] != "pattern"]
    r1 = chk.rule("R12.1", "no std container member with a UB precondition is registered directly with fun(&C::m)",
                  "script cannot reach pop_back/pop_front/front/back/[]/erase(it) on an empty or too-short container")
    r1.anchor(len(boot) > 100, "instantiated functions in chaiscript::bootstrap (found %d)" % len(boot))
    seen = {}
    for f in boot:
        for n in walk(f["body"]):
            if n.get("k") == "call" and n.get("name") == "fun" and n.get("args"):
                d, node = bound_member(prog, f, n["args"][0])
                if d is None or d.get("inroot"):
                    continue
                if not (d.get("cls") or "").startswith("std::"):
                    continue
                chk.touched([f])
                why = ub_member(prog, f, d)
                inst = "%s binds %s::%s" % (strip_targs(f["q"]), strip_targs(d["cls"]), d["name"])
                key = (inst, why is None)
                if key in seen:
                    continue
                seen[key] = True
                r1.ob(inst, why is None, "%s:%d" % (f["file"], n["l"]), f["q"],
                      "registered for script use without a guard: %s; calling it on an empty container is undefined behaviour" % why)
    r1.require(6, "direct bindings of std members")

    # ------------------------------------------------------------------ R12.2
    r2 = chk.rule("R12.2", "every use of a UB-precondition operation inside the bootstrap helpers, lambdas and range views is dominated by a throwing guard on the same object",
                  "front/back/pop on ranges and containers, insert_at/erase_at and array indexing raise instead of touching memory outside the container")
    sites = {}
    for f in boot:
        flow = None
        for n in walk(f["body"]):
            what = None
            subjects = []
            k = n.get("k")
            if k == "call":
                d = prog.decl(f, n.get("fn")) if n.get("fn") is not None else None
                if d is not None and not d.get("inroot"):
                    why = ub_member(prog, f, d)
                    if why:
                        what = "%s::%s" % (strip_targs(d.get("cls") or ""), d["name"])
                        if n.get("obj") is not None:
                            subjects.append(n["obj"])
                        subjects += [a for a in n.get("args", []) if is_iterator_type(prog.T(f, strip_casts(a).get("t")) if strip_casts(a).get("t") is not None else "")]
                    elif n.get("op") in ITER_OPS and is_iterator_type(d.get("cls") or ""):
                        what = "iterator operator%s" % n["op"]
                        subjects.append(n.get("obj") if n.get("obj") is not None else (n["args"][0] if n.get("args") else None))
                    elif d["q"].startswith("std::advance") or d["q"].startswith("std::next") or d["q"].startswith("std::prev"):
                        what = d["name"]
                        subjects += list(n.get("args", []))
            elif k == "subscript":
                bt = prog.T(f, strip_casts(n["base"]).get("t")) if strip_casts(n["base"]).get("t") is not None else ""
                what = "built-in subscript"
                subjects += [n["idx"], n["base"]]
            elif k == "unop" and n.get("op") in ("++", "--", "*"):
                et = prog.T(f, strip_casts(n["e"]).get("t")) if strip_casts(n["e"]).get("t") is not None else ""
                if et.endswith("*") and n["op"] != "*":
                    what = "pointer %s" % n["op"]
                    subjects.append(n["e"])
            if what is None:
                continue
            if flow is None:
                flow = FnFlow(f)
                pr = PathResolver(prog, f)
            chk.touched([f])
            ok, guard = guarded(prog, f, flow, pr, n, [s for s in subjects if s is not None])
            if ok and k == "call" and n.get("op") == "[]" and n.get("obj") is not None and n.get("args") and container_kind((d or {}).get("cls")) == "seq":
                # an index is exact: 0 <= i < size() - a guard that merely mentions the container (`i > size()`, `i >= size() + 1`) admits one slot too many
                ok = index_in_range(prog, f, flow, n, n["obj"], n["args"][0])
            inst = "%s uses %s" % (strip_targs(f["q"]), what)
            e = sites.setdefault(inst, {"ok": True, "where": "%s:%d" % (f["file"], n["l"]), "fn": f["q"], "n": 0, "guard": guard})
            e["n"] += 1
            if not ok and e["ok"]:
                e.update(ok=False, where="%s:%d" % (f["file"], n["l"]), fn=f["q"])
    for inst, e in sorted(sites.items()):
        r2.ob(inst, e["ok"], e["where"], e["fn"],
              "no dominating test on the operated object whose failing arm throws (empty()/size/distance/extent); with an empty or "
              "too-short container this is undefined behaviour", {"sites": e["n"]})
        if e["ok"] and e["guard"]:
            pass
    r2.require(14, "guarded UB-precondition uses")

    # ------------------------------------------------------------------ R12.4 key lookups through search iterators
    r4 = chk.rule("R12.4", "a value is handed out through an iterator obtained from find() only under `!= end()`, and through one obtained from lower_bound()/upper_bound() only under "
                           "`!= end()` and a test that its key is equivalent to the requested key",
                  "Map at/[]/find either have the result of the std::map operation or raise: a lookup of an absent key never yields a neighbouring entry")
    fixture_selfcheck()
    n4 = 0
    for f in boot:
        for inst, ok, where, why in lookup_sites(prog, f):
            n4 += 1
            chk.touched([f])
            r4.ob(inst, ok, where, f["q"], why)
    r4.ob("matcher self-check on fixtures/c12_lookup.cpp: sound find/lower_bound idioms pass, unsound ones are reported (%d lookup sites in the library today)" % n4, True, "", "", "")
    r4.require(1, "obligation")

    # ------------------------------------------------------------------ R12.5 = C17 R17.10: script-level insert_at / push_back store ordinary values
    if not getattr(chk, "nested", False):
        from .. import core
        from . import c17
        r5 = chk.rule("R12.5", "the script-level halves of insert_at / push_back store a copy of their argument or an un-marked temporary (C17 R17.10 re-decided on the prelude)",
                      "insert_at has the effect of the std container operation: the inserted element is an ordinary element afterwards (assignable, copied when read into a variable)")
        sub = core.Check("C17", tier=chk.tier)
        sub.prog = prog
        sub.nested = True
        c17.run(sub)
        sr = [r for r in sub.rules if r.rid == "R17.10"]
        r5.anchor(bool(sr), "C17 R17.10")
        for v in [v for v in sub.violations if v["rule"] == "R17.10"]:
            r5.ob("R17.10: %s" % v["instance"], False, v["where"], v["function"], v["detail"])
        r5.ob("C17 R17.10 decided (%d obligations)" % sr[0].obligations, True, "", "", "")
        r5.require(1, "rule")

    r3 = chk.rule("R12.3", "a position computed as begin()+n is used by erase only under 0 <= n < distance(begin,end) and by insert only under 0 <= n <= distance(begin,end)",
                  "erase_at / insert_at accept exactly the valid positions (no off-by-one past the end)")
    position_bounds(prog, chk, r3, boot)
    r3.require(4, "position uses")


NEG = {"<": ">=", "<=": ">", ">": "<=", ">=": "<", "==": "!=", "!=": "=="}
FLIP = {"<": ">", "<=": ">=", ">": "<", ">=": "<=", "==": "==", "!=": "!="}


def comparisons(prog, f, flow, n):
    """normalised comparison facts (lhs, op, rhs as expression nodes) holding at n"""
    from ..flow import atomic_facts
    out = []
    for a, t in atomic_facts(flow, n):
        a = strip_casts(a)
        if a.get("k") == "binop" and a.get("op") in NEG:
            op = a["op"] if t else NEG[a["op"]]
            out.append((a["lhs"], op, a["rhs"]))
            out.append((a["rhs"], FLIP[op], a["lhs"]))
    return out


def index_in_range(prog, f, flow, n, cont, idx):
    """facts at n: 0 <= idx (or idx unsigned) and idx < number of elements of cont"""
    locs = ref_inits(f)

    def origin(x):
        x = peel(x)
        for _ in range(3):
            if isinstance(x, dict) and x.get("k") == "ref" and x.get("rk") == "local":
                v = locs.get(x.get("vid"))
                if v is not None and v.get("init") is not None and not any(y.get("k") == "assign" and strip_casts(y["lhs"]).get("vid") == x.get("vid") for y in walk(f["body"])):
                    x = peel(v["init"])
                    continue
            break
        return x

    def same_index(a):
        return same_var(peel(a), peel(idx)) or same_var(origin(a), origin(idx))
    cmp_ = comparisons(prog, f, flow, n)
    it = prog.T(f, peel(idx).get("t")) if peel(idx).get("t") is not None else ""
    lower = it.replace("const ", "").startswith("unsigned") or "size_t" in it or "size_type" in it or \
        any(same_index(l) and ((op == ">=" and is_zero(r)) or (op == ">" and is_lit(r, -1))) for l, op, r in cmp_)
    upper = any(same_index(l) and op == "<" and is_extent(prog, f, r, cont, locs) for l, op, r in cmp_)
    return lower and upper


def position_bounds(prog, chk, r3, boot):
    """R12.3: a position begin()+n (std::advance on an iterator from begin(), std::next(begin(), n), begin() + n)
    handed to erase / insert."""
    for f in boot:
        uses = [n for n in walk(f["body"]) if n.get("k") == "call" and n.get("name") in ("erase", "insert", "emplace") and n.get("args") and n.get("obj") is not None and
                n.get("fn") is not None and container_kind((prog.decl(f, n["fn"]) or {}).get("cls")) == "seq"]
        if not uses:
            continue
        flow = FnFlow(f)
        locs = ref_inits(f)
        for u in uses:
            pos = position_of(prog, f, u["args"][0], locs)
            if pos is None:
                continue
            cont, cnt, from_begin = pos
            cmp_ = comparisons(prog, f, flow, u)
            ct = prog.T(f, peel(cnt).get("t")) if peel(cnt).get("t") is not None else ""
            lower = any(same_var(peel(l), peel(cnt)) and ((op == ">=" and is_zero(r)) or (op == ">" and is_lit(r, -1))) for l, op, r in cmp_) or \
                ct.startswith("unsigned") or "size_t" in ct
            strict = any(same_var(peel(r), peel(cnt)) and op == ">" and is_extent(prog, f, l, cont, locs) for l, op, r in cmp_)
            nonstrict = strict or any(same_var(peel(r), peel(cnt)) and op == ">=" and is_extent(prog, f, l, cont, locs) for l, op, r in cmp_)
            need_strict = u["name"] == "erase"
            ok = from_begin and lower and (strict if need_strict else nonstrict)
            cls = (prog.decl(f, u["fn"]) or {}).get("cls", "?")
            r3.ob("%s: %s(begin()+%s) on %s" % (strip_targs(f["q"]), u["name"], expr_str(prog, f, cnt), strip_targs(cls)), ok,
                  "%s:%d" % (f["file"], u["l"]), f["q"],
                  "position begin()+%s is used by %s without the dominating facts 0 <= %s %s number of elements (have: lower bound %s, strict upper bound %s, "
                  "non-strict upper bound %s, starts at begin() %s): a position past the end is undefined behaviour" % (
                      expr_str(prog, f, cnt), u["name"], expr_str(prog, f, cnt), "<" if need_strict else "<=", lower, strict, nonstrict, from_begin))
            chk.touched([f])


def position_of(prog, f, e, locs):
    """(container expr, count expr, starts_at_begin) for an iterator expression that denotes begin()+n, else None"""
    e = peel(e)
    if not isinstance(e, dict):
        return None
    if e.get("k") == "call" and e.get("name") in ("next",) and len(e.get("args", [])) == 2:
        b = peel(e["args"][0])
        if b.get("k") == "call" and b.get("name") in ("begin", "cbegin") and b.get("obj") is not None:
            return (b["obj"], e["args"][1], True)
        return (None, e["args"][1], False)
    if e.get("k") == "call" and e.get("op") == "+" and e.get("obj") is not None and e.get("args"):
        b = peel(e["obj"])
        if b.get("k") == "call" and b.get("name") in ("begin", "cbegin") and b.get("obj") is not None:
            return (b["obj"], e["args"][0], True)
    if e.get("k") == "ref" and e.get("rk") == "local":
        v = locs.get(e.get("vid"))
        init = peel(v["init"]) if v is not None and v.get("init") is not None else {}
        advs = [n for n in walk(f["body"]) if n.get("k") == "call" and n.get("name") == "advance" and len(n.get("args", [])) == 2 and
                peel(n["args"][0]).get("vid") == e.get("vid")]
        if len(advs) == 1:
            fb = init.get("k") == "call" and init.get("name") in ("begin", "cbegin") and init.get("obj") is not None
            return (init.get("obj") if fb else None, advs[0]["args"][1], fb)
        if init.get("k") == "call":
            return position_of(prog, f, init, locs)
    return None


def peel(e):
    """see through casts and single-argument (converting) constructs: iterator -> const_iterator etc."""
    e = strip_casts(e)
    while isinstance(e, dict) and e.get("k") == "construct" and len(e.get("args", [])) == 1:
        e = strip_casts(e["args"][0])
    return e


def is_zero(e):
    e = strip_casts(e)
    return isinstance(e, dict) and e.get("k") == "lit" and e.get("v") == 0


def is_lit(e, v):
    e = strip_casts(e)
    if isinstance(e, dict) and e.get("k") == "lit" and e.get("v") == v:
        return True
    return v < 0 and isinstance(e, dict) and e.get("k") == "unop" and e.get("op") == "-" and is_lit(e.get("e"), -v)


def is_extent(prog, f, e, cont, locs):
    """e denotes the number of elements of the container: container.size(), or std::distance(<begin()>, <end()>) through locals"""
    e = peel(e)
    # a named extent: `const auto size = std::distance(begin, end);` (initialised once, never assigned again)
    hops = 0
    while isinstance(e, dict) and e.get("k") == "ref" and e.get("rk") == "local" and hops < 3:
        v = locs.get(e.get("vid"))
        if v is None or v.get("init") is None or any(x.get("k") == "assign" and strip_casts(x["lhs"]).get("vid") == e.get("vid") for x in walk(f["body"])):
            break
        e = peel(v["init"])
        hops += 1
    if not isinstance(e, dict) or e.get("k") != "call":
        return False

    def origin(x):
        x = peel(x)
        if x.get("k") == "ref" and x.get("rk") == "local":
            v = locs.get(x.get("vid"))
            if v is not None and v.get("init") is not None:
                return peel(v["init"])
        return x
    if e.get("name") == "distance" and len(e.get("args", [])) == 2:
        a, b = origin(e["args"][0]), origin(e["args"][1])
        return a.get("k") == "call" and a.get("name") in ("begin", "cbegin") and b.get("k") == "call" and b.get("name") in ("end", "cend") and \
            (cont is None or (a.get("obj") is not None and same_var(a["obj"], cont) and same_var(b.get("obj"), cont)))
    if e.get("name") == "size" and e.get("obj") is not None:
        return cont is None or same_var(e["obj"], cont)
    return False


def guarded(prog, f, flow, pr, n, subjects):
    """Is node n dominated by a fact established by a throwing guard that mentions one of the subjects?"""
    locals_ = ref_inits(f)

    def roots(e, depth=0):
        """variables / this-fields an expression is derived from (through local copies)"""
        out = []
        e = strip_casts(e)
        if not isinstance(e, dict) or depth > 4:
            return out
        out.append(e)
        if e.get("k") == "ref" and e.get("rk") == "local":
            v = locals_.get(e.get("vid"))
            if v is not None and v.get("init") is not None:
                out += roots(v["init"], depth + 1)
        if e.get("k") == "construct" and len(e.get("args", [])) == 1:
            out += roots(e["args"][0], depth + 1)
        if e.get("k") == "call" and e.get("obj") is not None and e.get("name") in ("begin", "end", "rbegin", "rend"):
            out += roots(e["obj"], depth + 1)
        return out

    subj = []
    for s in subjects:
        subj += roots(s)
    touches_this = any(x.get("k") == "this" or (x.get("k") == "member" and (x.get("base") is None or strip_casts(x.get("base")).get("k") == "this"))
                       for x in subj)

    def mentions(cond, depth=0):
        for x in walk(cond):
            for s in subj:
                if same_var(x, s):
                    return True
            # a named quantity in the test (`const auto size = std::distance(first, c.end())`) stands for what it was computed from
            if depth < 2 and x.get("k") == "ref" and x.get("rk") == "local":
                v = locals_.get(x.get("vid"))
                if v is not None and v.get("init") is not None and mentions(v["init"], depth + 1):
                    return True
            if touches_this and x.get("k") == "call" and x.get("obj") is not None and strip_casts(x["obj"]).get("k") == "this":
                return True
            if touches_this and x.get("k") == "member" and (x.get("base") is None or strip_casts(x.get("base")).get("k") == "this"):
                return True
        return False

    # facts from enclosing arms / earlier exiting ifs: the opposite arm must throw
    cur = n
    for a in flow.ancestors(n):
        k = a.get("k")
        if k == "if" and not a.get("constexpr"):
            if cur is a.get("else") and throws(a.get("then")) and mentions(a["cond"]):
                return True, expr_str(prog, f, a["cond"])
            if cur is a.get("then") and a.get("else") and throws(a.get("else")) and mentions(a["cond"]):
                return True, expr_str(prog, f, a["cond"])
        if k == "binop" and a.get("op") == "||" and cur is a.get("rhs") and mentions(a["lhs"]):
            # `if (guard || uses(x)) throw`: the use is evaluated only when the guard is false, and a true guard throws
            top = a
            for up in flow.ancestors(a):
                if up.get("k") == "binop" and up.get("op") == "||":
                    top = up
                    continue
                if up.get("k") == "if" and not up.get("constexpr") and strip_casts(up.get("cond")) is strip_casts(top) and throws(up.get("then")):
                    return True, expr_str(prog, f, a["lhs"])
                if up.get("k") in ("paren", "cast", "implicit"):
                    top = up
                    continue
                break
        if k == "block":
            sibs = a.get("s", [])
            idx = next((i for i, s in enumerate(sibs) if s is cur), None)
            if idx is not None:
                for s in sibs[:idx]:
                    if s.get("k") == "if" and not s.get("constexpr") and throws(s.get("then")) and mentions(s["cond"]):
                        return True, expr_str(prog, f, s["cond"])
                    # the same guard extracted into a helper that is called as a statement: `throw_if_empty(c);` / `throw_if_empty();`
                    for cond in guard_helper_conditions(prog, f, s):
                        if mentions(cond) or (touches_this and guard_helper_is_member(prog, f, s)):
                            return True, expr_str(prog, f, cond)
        cur = a
    return False, None


def _stmt_call(s):
    c = s
    if isinstance(c, dict) and c.get("k") in ("expr", "exprstmt") and isinstance(c.get("e"), dict):
        c = c["e"]
    c = strip_casts(c) if isinstance(c, dict) else {}
    return c if c.get("k") == "call" and c.get("fn") is not None else None


def guard_helper_conditions(prog, f, s):
    """conditions (with the helper's parameters replaced by the call's arguments) under which the statement-call `s` throws:
    the callee's body is nothing but `if (C) throw ...;` statements"""
    from ..flow import _subst_params
    c = _stmt_call(s)
    if c is None:
        return []
    callee = prog.fn_by_id(f, c["fn"])
    if callee is None or not callee.get("body") or callee is f:
        return []
    stmts = callee["body"].get("s", []) if callee["body"].get("k") == "block" else [callee["body"]]
    out = []
    for st in stmts:
        if not (st.get("k") == "if" and not st.get("constexpr") and throws(st.get("then")) and st.get("else") is None):
            return []
        out.append(_subst_params(st["cond"], c.get("args") or []))
    return out


def guard_helper_is_member(prog, f, s):
    """the guard helper is a member function called on this object (its condition is about this object's own members)"""
    c = _stmt_call(s)
    if c is None:
        return False
    o = strip_casts(c.get("obj") or {})
    callee = prog.fn_by_id(f, c["fn"])
    return callee is not None and callee.get("cls") == f.get("cls") and (c.get("obj") is None or o.get("k") == "this")


def throws(n):
    if n is None or not always_exits(n):
        return False
    has_throw = False
    for x in walk(n):
        if x.get("k") == "return":
            return False
        if x.get("k") == "throw":
            has_throw = True
    return has_throw


# ------------------------------------------------------------------ R12.4 helpers
SEARCHES = {"find": "find", "lower_bound": "bound", "upper_bound": "bound", "equal_range": "bound"}


def lookup_sites(prog, f):
    """yield (instance, ok, where, why) for every dereference of a local iterator obtained from a search member"""
    from ..flow import atomic_facts
    flow = None
    for d in walk(f["body"]):
        if d.get("k") != "decl":
            continue
        for v in d["vars"]:
            init = strip_casts(v.get("init") or {})
            while init.get("k") == "construct" and init.get("args") and len(init["args"]) == 1:
                init = strip_casts(init["args"][0])
            if not (init.get("k") == "call" and init.get("name") in SEARCHES and init.get("obj") is not None):
                continue
            kind = SEARCHES[init["name"]]
            key = strip_casts(init["args"][0]) if init.get("args") else {}
            flow = flow or FnFlow(f)
            for n in walk(f["body"]):
                if not (n.get("k") == "call" and n.get("op") in ("->", "*")):
                    continue
                tgt = strip_casts(n.get("obj") if n.get("obj") is not None else (n["args"][0] if n.get("args") else {}))
                if tgt.get("vid") != v["vid"]:
                    continue
                par = flow.parent(n)
                field = par.get("name") if par is not None and par.get("k") == "member" else None
                facts = list(atomic_facts(flow, n))

                def is_end_cmp(c):
                    c = strip_casts(c)
                    if c.get("k") == "call" and c.get("op") in ("==", "!=") and len(c.get("args", [])) == 2:
                        a, b = strip_casts(c["args"][0]), strip_casts(c["args"][1])
                    elif c.get("k") == "binop" and c.get("op") in ("==", "!="):
                        a, b = strip_casts(c["lhs"]), strip_casts(c["rhs"])
                    else:
                        return None
                    for x, y in ((a, b), (b, a)):
                        if x.get("vid") == v["vid"] and y.get("k") == "call" and y.get("name") in ("end", "cend"):
                            return c["op"]
                    return None
                not_end = any((is_end_cmp(c) == "==" and not t) or (is_end_cmp(c) == "!=" and t) for c, t in facts)

                def key_equiv(c, t):
                    c = strip_casts(c)
                    txt = expr_str(prog, f, c)
                    mentions_it = any(x.get("vid") == v["vid"] for x in walk(c))
                    mentions_key = key.get("vid") is not None and any(x.get("vid") == key.get("vid") for x in walk(c))
                    if not (mentions_it and mentions_key):
                        return False
                    if "key_comp" in txt or (c.get("k") in ("call", "binop") and c.get("op") in ("<", ">")):
                        return not t           # not (key < it->first): together with lower_bound's it->first >= key this is equivalence
                    if c.get("k") in ("call", "binop") and c.get("op") == "==":
                        return bool(t)
                    if c.get("k") in ("call", "binop") and c.get("op") == "!=":
                        return not t
                    return False
                needs_key = kind == "bound" and field != "first"
                eq = any(key_equiv(c, t) for c, t in facts)
                ok = not_end and (eq or not needs_key)
                why = []
                if not not_end:
                    why.append("no `!= end()` test on the iterator is established here")
                if needs_key and not eq:
                    why.append("the iterator comes from %s(): it may point at the next larger key, and no test establishes that its key is equivalent to the requested one" % init["name"])
                yield ("%s: `%s` obtained from %s() is dereferenced (%s)" % (strip_targs(f["q"]), v["name"], init["name"], field or "*"), ok, "%s:%d" % (f["file"], n["l"]),
                       "; ".join(why) + ": a lookup of an absent key returns (and lets the script overwrite) a neighbouring entry")


_fixture_done = {}


def fixture_selfcheck():
    """run the R12.4 matcher on /verif/fixtures/c12_lookup.cpp: the rule has no instance in /repo today, so its matcher is exercised on every run"""
    import hashlib
    import os
    from .. import ir
    src = os.path.join(ir.VERIF, "fixtures", "c12_lookup.cpp")
    try:
        h = hashlib.sha1(open(src, "rb").read()).hexdigest()[:10]
    except OSError:
        raise AnalysisBroken("C12 R12.4: fixture %s is missing" % src)
    if h in _fixture_done:
        return
    prefix = ir.extract_unit("fixture_c12_" + h, src, [], extra_roots=[os.path.join(ir.VERIF, "fixtures") + "/"])
    fp = ir.Program()
    fp.load_unit(prefix, "fixture_c12")
    fp.index()
    got = {}
    for f in fp.fns:
        if f["tk"] == "pattern" or "verif_fixture::" not in f["q"]:
            continue
        name = strip_targs(f["q"]).split("::")[-1]
        for inst, ok, where, why in lookup_sites(fp, f):
            got.setdefault(name, []).append(ok)
        # R12.2's subscript-exactness obligation has no instance in /repo today either (the library uses at()): same self-check
        fl = None
        for x in walk(f["body"]):
            if x.get("k") == "call" and x.get("op") == "[]" and x.get("obj") is not None and x.get("args") and x.get("fn") is not None and \
                    container_kind((fp.decl(f, x["fn"]) or {}).get("cls")) == "seq":
                fl = fl or FnFlow(f)
                got.setdefault(name, []).append(index_in_range(fp, f, fl, x, x["obj"], x["args"][0]))
    want = {"good_lower": True, "bad_lower": False, "good_find": True, "bad_find": False, "good_index": True, "bad_index": False, "bad_index_signed": False}
    for name, w in want.items():
        if name not in got or all(got[name]) != w:
            raise AnalysisBroken("C12 R12.4 / R12.2: matcher self-check failed on fixture function %s (verdicts %s, expected %s)" % (name, got.get(name), w))
    _fixture_done[h] = True
