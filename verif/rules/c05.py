"""C05  Script arithmetic is C++ arithmetic; trapping operations raise.

Decides the opcode->operator table, the trap guards, the type tables and route agreement
(DESIGN.md section 4, C05).  The values C++ then computes are the compiler's business.
"""
from ..ir import walk, children, AnalysisBroken
from ..flow import FnFlow, switch_groups, always_exits, split_cond, strip_casts, same_var, expr_str, uncond_exprs
from .. import models

DIV_OPS = {"/", "%", "/=", "%="}

# reference: opcode -> C++ operator token applied to (c_lhs, c_rhs) resp. written through *t_lhs
BINARY_VALUE = {"equals": "==", "less_than": "<", "greater_than": ">", "less_than_equal": "<=", "greater_than_equal": ">=",
                "not_equal": "!=", "sum": "+", "quotient": "/", "product": "*", "difference": "-", "shift_left": "<<",
                "shift_right": ">>", "remainder": "%", "bitwise_and": "&", "bitwise_or": "|", "bitwise_xor": "^"}
BINARY_ASSIGN = {"assign": "=", "assign_product": "*=", "assign_sum": "+=", "assign_quotient": "/=", "assign_difference": "-=",
                 "assign_bitwise_and": "&=", "assign_bitwise_or": "|=", "assign_shift_left": "<<=", "assign_shift_right": ">>=",
                 "assign_remainder": "%=", "assign_bitwise_xor": "^="}
UNARY_VALUE = {"unary_minus": "-", "unary_plus": "+", "bitwise_complement": "~"}
UNARY_ASSIGN = {"pre_increment": "++", "pre_decrement": "--"}
INTEGRAL_ONLY = {"shift_left", "shift_right", "remainder", "bitwise_and", "bitwise_or", "bitwise_xor", "assign_bitwise_and",
                 "assign_bitwise_or", "assign_shift_left", "assign_shift_right", "assign_remainder", "assign_bitwise_xor",
                 "bitwise_complement"}
# script operator string -> opcode (C++ token semantics), the reference for to_operator / registrations
STRING_OPCODE = {"==": "equals", "<": "less_than", ">": "greater_than", "<=": "less_than_equal", ">=": "greater_than_equal",
                 "!=": "not_equal", "=": "assign", "++": "pre_increment", "--": "pre_decrement", "*=": "assign_product",
                 "+=": "assign_sum", "/=": "assign_quotient", "-=": "assign_difference", "&=": "assign_bitwise_and",
                 "|=": "assign_bitwise_or", "<<=": "assign_shift_left", ">>=": "assign_shift_right", "%=": "assign_remainder",
                 "^=": "assign_bitwise_xor", "<<": "shift_left", ">>": "shift_right", "%": "remainder", "&": "bitwise_and",
                 "|": "bitwise_or", "^": "bitwise_xor", "~": "bitwise_complement", "/": "quotient", "*": "product"}
STRING_OPCODE_BIN = dict(STRING_OPCODE, **{"+": "sum", "-": "difference"})
STRING_OPCODE_UN = dict(STRING_OPCODE, **{"+": "unary_plus", "-": "unary_minus"})

FLOATS = {"float", "double", "long double"}
COMMON = {"t_int32": "int", "t_uint8": "unsigned char", "t_int8": "signed char", "t_uint16": "unsigned short",
          "t_int16": "short", "t_uint32": "unsigned int", "t_uint64": "unsigned long", "t_int64": "long",
          "t_double": "double", "t_float": "float", "t_long_double": "long double"}
SIZES = {"char": (1, True), "signed char": (1, True), "unsigned char": (1, False), "short": (2, True),
         "unsigned short": (2, False), "int": (4, True), "unsigned int": (4, False), "long": (8, True),
         "unsigned long": (8, False), "long long": (8, True), "unsigned long long": (8, False), "wchar_t": (4, True),
         "char16_t": (2, False), "char32_t": (4, False)}
COMMON_BY_SIZE = {(1, True): "t_int8", (1, False): "t_uint8", (2, True): "t_int16", (2, False): "t_uint16",
                  (4, True): "t_int32", (4, False): "t_uint32", (8, True): "t_int64", (8, False): "t_uint64"}


def is_lit(e, v):
    e = strip_casts(e)
    if not isinstance(e, dict):
        return False
    if e.get("k") == "lit" and e.get("lt") in ("int", "char") and e.get("v") == v:
        return True
    if v < 0 and e.get("k") == "unop" and e.get("op") == "-" and is_lit(e.get("e"), -v):
        return True
    if e.get("k") == "construct" and len(e.get("args", [])) == 1:
        return is_lit(e["args"][0], v)
    return False


def throws_type(prog, fn, n, needle):
    """statement n always exits by throwing a type whose name contains needle"""
    if not always_exits(n):
        return False
    found = False
    for x in walk(n):
        if x.get("k") == "throw":
            t = prog.T(fn, x.get("tt")) if x.get("tt") is not None else ""
            if not t and x.get("e"):
                t = expr_str(prog, fn, x["e"])
            if needle in t or needle in expr_str(prog, fn, x.get("e") or {}):
                found = True
            else:
                return False
        elif x.get("k") == "return":
            return False
    return found


def param_index(fn, e):
    e = strip_casts(e)
    if isinstance(e, dict) and e.get("k") == "ref" and e.get("rk") == "param":
        return e.get("idx")
    return None


def guard_capabilities(prog, fn, _depth=0):
    """Which trap guards does calling fn(args) establish?  Returns set of
    ('zero', i): throws arithmetic_error when param i == 0
    ('ovf', i, j): throws arithmetic_error when param j == -1 and param i == min()
    Only effective code is considered (discarded `if constexpr` arms are ignored)."""
    caps = set()
    body = fn["body"]
    for n in uncond_exprs(body):
        if n.get("k") != "if" or n.get("constexpr"):
            continue
        if not throws_type(prog, fn, n.get("then"), "arithmetic_error"):
            continue
        atoms = split_cond(n["cond"], True)
        zero = []
        minus1 = []
        ismin = []
        for a, t in atoms:
            a = strip_casts(a)
            if a.get("k") == "binop" and a.get("op") == "==" and t or (a.get("k") == "binop" and a.get("op") == "!=" and not t):
                l, r = a.get("lhs"), a.get("rhs")
                for x, y in ((l, r), (r, l)):
                    pi = param_index(fn, x)
                    if pi is None:
                        continue
                    if is_lit(y, 0):
                        zero.append(pi)
                    if is_lit(y, -1):
                        minus1.append(pi)
                    ys = strip_casts(y)
                    if isinstance(ys, dict) and ys.get("k") == "call" and ys.get("name") in ("min", "lowest"):
                        ismin.append(pi)
        if len(atoms) == 1 and zero:
            caps.add(("zero", zero[0]))
        for i in ismin:
            for j in minus1:
                if i != j and len(atoms) == 2:
                    caps.add(("ovf", i, j))
    caps |= forwarded_capabilities(prog, fn, body, guard_capabilities, _depth)
    return caps


def forwarded_capabilities(prog, fn, body, capfn, depth):
    """a helper that calls guard functions unconditionally with its own parameters establishes their guards too:
    `check_division(l, r) { check_divide_by_zero(r); check_divide_overflow(l, r); }`"""
    out = set()
    if depth >= 2:
        return out
    for n in uncond_exprs(body):
        if n.get("k") != "call" or n.get("op"):
            continue
        for g in resolve_callees(prog, fn, n):
            if g is fn or not g.get("body"):
                continue
            sub = capfn(prog, g, depth + 1)
            args = n.get("args") or []
            for c in sub:
                idxs = [param_index(fn, args[i]) if i < len(args) else None for i in c[1:]]
                if all(i is not None for i in idxs):
                    out.add((c[0],) + tuple(idxs))
    return out


def resolve_callees(prog, fn, call):
    """Resolved callee Fn(s) of a call node; for dependent calls all same-named functions of the same class."""
    if call.get("fn") is not None:
        f = prog.fn_by_id(fn, call["fn"])
        return [f] if f is not None else []
    if call.get("dep") and call.get("name"):
        cls = fn.get("cls")
        cands = [g for g in prog.named(call["name"]) if g["tk"] == "pattern" and (g.get("cls") == cls or not cls)]
        return cands
    return []


def is_integral_type(t):
    t = t.replace("const ", "").replace(" &", "").replace("&", "").strip()
    return t in SIZES or t in ("bool",)


def run(chk):
    prog = chk.program()
    chk.explanation = ("Static rules over the extracted program representation of Boxed_Number (every instantiation of "
                       "go<LHS,RHS> plus the dependent pattern), the operator tables, the registrations and the evaluator/"
                       "optimizer routes: trap guards dominate every integer / % /= %=, each opcode applies the C++ operator "
                       "it names, every opcode has a handler of the wrapper's arity, string tables agree, width/signedness "
                       "tables name the right C++ types, all four routes reach the same kernel.  Values C++ computes once "
                       "the right operator meets the right types are not re-derived.")
    chk.assume("clang 14 template instantiation is faithful; CHAISCRIPT_NO_PROTECT_DIVIDEBYZERO is not defined (default build)")
    chk.assume("x86-64/LP64 type sizes (int 4, long 8) for the width table, as in the analysed build")

    gos = [f for f in prog.named("go") if f.get("cls") == "chaiscript::Boxed_Number"]
    pats = [f for f in gos if f["tk"] == "pattern"]
    insts = [f for f in gos if f["tk"] == "inst"]
    r51 = chk.rule("R5.1", "every integer / % /= %= in Boxed_Number::go is dominated by a zero guard on its divisor; no other case carries one",
                   "integer division or remainder by zero raises arithmetic_error (never SIGFPE); non-dividing operators are never refused for a zero operand")
    r52 = chk.rule("R5.2", "every signed integer / % /= %= in Boxed_Number::go is dominated by an overflow guard on (dividend, divisor)",
                   "INT_MIN / -1 style traps raise instead of killing the process")
    r51.anchor(len(pats) == 1, "template pattern chaiscript::Boxed_Number::go")
    r51.anchor(len(insts) >= 100, "instantiations of Boxed_Number::go (found %d)" % len(insts))
    chk.touched(gos)

    capcache = {}

    def caps_of(f):
        key = (f["unit"], f["id"])
        if key not in capcache:
            capcache[key] = guard_capabilities(prog, f)
        return capcache[key]

    n_inst_sites = 0
    agg51 = {}
    agg52 = {}

    def agg(tab, inst_id, ok, where, label, detail, data):
        e = tab.setdefault(inst_id, {"ok": True, "where": where, "bad": [], "n": 0, "detail": detail, "data": data})
        e["n"] += 1
        if not ok:
            if e["ok"]:
                e["where"], e["detail"], e["data"] = where, detail, data
            e["ok"] = False
            e["bad"].append(label)

    for f in pats + insts:
        flow = FnFlow(f)
        is_pat = f["tk"] == "pattern"
        targs = f.get("targs") or []
        label = "go<pattern>" if is_pat else "go<%s>" % ",".join(targs)
        # guard calls present in this body: node -> caps with actual args
        guard_calls = []
        for n in walk(f.body):
            if n.get("k") == "call" and not n.get("op"):
                callees = resolve_callees(prog, f, n)
                if not callees:
                    continue
                capsets = [caps_of(g) for g in callees]
                if is_pat:
                    # a dependent call resolves to the pattern; its `if constexpr` is undecided there: look inside
                    capsets = [guard_capabilities_pattern(prog, g) for g in callees]
                common = set.intersection(*capsets) if capsets else set()
                if common:
                    guard_calls.append((n, common))
        used_guards = set()
        for n in walk(f.body):
            k = n.get("k")
            if k not in ("binop", "assign") or n.get("op") not in DIV_OPS:
                continue
            lhs, rhs = n["lhs"], n["rhs"]
            floating = False
            if not is_pat:
                lt, rt = prog.T(f, strip_casts(lhs).get("t")), prog.T(f, strip_casts(rhs).get("t"))
                floating = any(x.replace("const ", "").strip() in FLOATS for x in (lt, rt))
            grp = enclosing_case(flow, n)
            inst_id = "%s/case %s/%s" % ("chaiscript::Boxed_Number::go", grp or "?", n["op"])
            where = "%s:%d" % (f["file"], n["l"])
            dom = list(flow.dominating(n))
            domset = {id(x) for x in dom}
            zero_ok = False
            ovf_ok = False
            for g, caps in guard_calls:
                if id(g) not in domset:
                    continue
                args = g.get("args", [])
                for c in caps:
                    if c[0] == "zero" and c[1] < len(args) and same_var(args[c[1]], rhs):
                        zero_ok = True
                        used_guards.add(id(g))
                    if c[0] == "ovf" and c[1] < len(args) and c[2] < len(args) and same_var(args[c[2]], rhs) and \
                            same_var(args[c[1]], lhs):
                        ovf_ok = True
                        used_guards.add(id(g))
            if floating:
                # no trap possible; a guard on an integral zero divisor of a floating division refuses only
                # an input whose C++ result is undefined (excluded by the property's quantifier)
                continue
            n_inst_sites += 1
            agg(agg51, inst_id, zero_ok, where, label,
                "integer %s on %s is not dominated by a guard that throws arithmetic_error when the divisor is 0 "
                "(division by zero traps: SIGFPE)" % (n["op"], expr_str(prog, f, rhs)),
                {"dominating_calls": [expr_str(prog, f, x) for x in dom if x.get("k") == "call"][:20]})
            if is_pat or overflow_possible(lt, rt):
                agg(agg52, inst_id, ovf_ok, where, label,
                    "signed integer %s is not dominated by a guard that throws arithmetic_error for min() %s -1 "
                    "(overflowing division traps: SIGFPE)" % (n["op"], n["op"]),
                    {"dominating_calls": [expr_str(prog, f, x) for x in dom if x.get("k") == "call"][:20]})
        # guards with no division to protect (spurious refusals)
        for g, caps in guard_calls:
            if id(g) in used_guards:
                continue
            grp = enclosing_case(FnFlow(f) if False else flow, g)
            inst_id = "%s/case %s/guard without division" % ("chaiscript::Boxed_Number::go", grp or "?")
            agg(agg51, inst_id, False, "%s:%d" % (f["file"], g["l"]), label,
                "trap guard %s protects no division or remainder in this case: a legitimate operation with a zero "
                "operand is refused with arithmetic_error" % expr_str(prog, f, g), {})
    for tab, rule in ((agg51, r51), (agg52, r52)):
        for inst_id, e in sorted(tab.items()):
            d = dict(e["data"])
            d["judged_bodies"] = e["n"]
            d["failing_bodies"] = e["bad"][:200]
            rule.ob(inst_id, e["ok"], e["where"], "chaiscript::Boxed_Number::go", e["detail"] + (" [%d of %d bodies]" % (len(e["bad"]), e["n"]) if not e["ok"] else ""), d)
    r51.note("%d integer division sites judged over %d instantiations + pattern; pattern obligations listed, instantiation obligations listed only when violated" % (n_inst_sites, len(insts)))
    r51.require(4, "division sites in the go pattern")

    # ------------------------------------------------------------------ R5.3 opcode -> operator
    r53 = chk.rule("R5.3", "each opcode case applies the C++ operator it names to (c_lhs, c_rhs) / writes through *t_lhs",
                   "a script operator computes what the same C++ operator computes on the same types")
    pat = pats[0]
    roles = go_roles(prog, pat)
    r53.anchor(all(roles.get(k) is not None for k in ("lhs_ptr", "c_lhs", "c_rhs", "bv")), "parameter roles of go (LHS*, const LHS&, const RHS&, const Boxed_Value&): %s" % roles)
    handled_bin = {}
    for f in [pat]:
        flow = FnFlow(f)
        for sw in [n for n in walk(f.body) if n.get("k") == "switch"]:
            integral_only = under_integral_constexpr(flow, sw)
            under_ptr = under_ptr_check(flow, sw, roles)
            for g in switch_groups(sw):
                for lab in g["labels"]:
                    if lab.get("default"):
                        continue
                    en = lab.get("ename")
                    inst_id = "chaiscript::Boxed_Number::go/case %s" % en
                    where = "%s:%d" % (f["file"], lab["l"])
                    handled_bin[en] = True
                    if en in BINARY_VALUE:
                        ok, why = check_value_case(prog, f, g, roles, BINARY_VALUE[en])
                    elif en in BINARY_ASSIGN:
                        ok, why = check_assign_case(prog, f, g, roles, BINARY_ASSIGN[en])
                        if ok and not under_ptr:
                            ok, why = False, "assignment case not under the `if (t_lhs)` null/const check"
                    else:
                        ok, why = False, "opcode %s has no reference semantics as a binary operator" % en
                    if ok and (en in INTEGRAL_ONLY) != integral_only:
                        ok, why = False, "case %s %s the integral-only `if constexpr` section" % (en, "is outside" if en in INTEGRAL_ONLY else "is inside")
                    r53.ob(inst_id, ok, where, f.q, why)
    for en in list(BINARY_VALUE) + list(BINARY_ASSIGN):
        if en not in handled_bin:
            r53.ob("chaiscript::Boxed_Number::go/case %s" % en, False, pat.where, pat.q, "opcode %s has no case in go" % en)

    # unary lambda in oper(Opers, const Boxed_Value&)
    un = [f for f in prog.fns if f["kind"] == "lambda" and f["q"].startswith("chaiscript::Boxed_Number::oper::<lambda") and
          len(f["params"]) == 1 and any(x.get("k") == "unop" and x.get("op") == "++" for x in walk(f.body))]
    un_pat = [f for f in un if f["tk"] == "pattern"]
    r53.anchor(len(un_pat) == 1, "generic unary lambda in Boxed_Number::oper (found %d)" % len(un_pat))
    handled_un = {}
    chk.touched(un)
    for f in un_pat:
        flow = FnFlow(f)
        for sw in [n for n in walk(f.body) if n.get("k") == "switch"]:
            integral_only = under_integral_constexpr(flow, sw)
            under_ptr = any(t and strip_casts(c).get("k") == "ref" and strip_casts(c).get("rk") == "local" for c, t in
                            [a for a in __import__("verif.flow", fromlist=["atomic_facts"]).atomic_facts(flow, sw)])
            for g in switch_groups(sw):
                for lab in g["labels"]:
                    if lab.get("default"):
                        continue
                    en = lab.get("ename")
                    handled_un[en] = True
                    inst_id = "chaiscript::Boxed_Number::oper(unary)/case %s" % en
                    where = "%s:%d" % (f["file"], lab["l"])
                    if en in UNARY_VALUE:
                        ok, why = check_unary_value(prog, f, g, UNARY_VALUE[en])
                    elif en in UNARY_ASSIGN:
                        ok, why = check_unary_assign(prog, f, g, UNARY_ASSIGN[en])
                        if ok and not under_ptr:
                            ok, why = False, "increment/decrement not under the `if (lhs)` null/const check"
                    else:
                        ok, why = False, "opcode %s has no reference semantics as a unary operator" % en
                    if ok and (en in INTEGRAL_ONLY) != integral_only:
                        ok, why = False, "case %s on the wrong side of the integral-only `if constexpr`" % en
                    r53.ob(inst_id, ok, where, f.q, why)
    for en in list(UNARY_VALUE) + list(UNARY_ASSIGN):
        if en not in handled_un:
            r53.ob("chaiscript::Boxed_Number::oper(unary)/case %s" % en, False, un_pat[0].where, un_pat[0].q, "opcode %s has no case in the unary visitor" % en)
    r53.require(30, "opcode cases")

    # ------------------------------------------------------------------ R5.4 wrappers
    r54 = chk.rule("R5.4", "every Boxed_Number::<name> wrapper passes opcode <name> to the oper overload of its own arity, which handles it",
                   "calling an operator as a function agrees with the operator node (route agreement)")
    opers_enum = prog.enums.get("chaiscript::Operators::Opers")
    r54.anchor(opers_enum is not None, "enum chaiscript::Operators::Opers")
    enum_names = [e["name"] for e in opers_enum["enumerators"]]
    wrappers = {}
    for f in prog.fns:
        if f.get("cls") == "chaiscript::Boxed_Number" and f["name"] in enum_names and f["kind"] == "method":
            wrappers[f["name"]] = f
    chk.touched(wrappers.values())
    for name in enum_names:
        if name == "invalid":
            continue
        inst_id = "chaiscript::Boxed_Number::%s" % name
        f = wrappers.get(name)
        if f is None:
            r54.ob(inst_id, False, "", "", "opcode %s has no public wrapper Boxed_Number::%s" % (name, name))
            continue
        calls = [n for n in walk(f.body) if n.get("k") == "call" and n.get("name") == "oper"]
        if not calls and name in ("not_equal", "equals"):
            # `!equals(a, b)` is `a != b` for every pair of numbers (also NaN); the same does not hold for the ordering comparisons
            other = "equals" if name == "not_equal" else "not_equal"
            rets = [n for n in walk(f.body) if n.get("k") == "return" and n.get("e") is not None]
            e = strip_casts(rets[0]["e"]) if len(rets) == 1 else {}
            inner = strip_casts(e.get("e") or {}) if e.get("k") == "unop" and e.get("op") == "!" else {}
            if inner.get("k") == "call" and inner.get("name") == other and len(inner.get("args") or []) == 2 and \
                    all(param_index(f, strip_casts(a)) == i for i, a in enumerate(inner["args"])):
                r54.ob(inst_id, True, f.where, f.q, "")
                r54.note("%s is written as the negation of %s (equivalent for all operands)" % (name, other))
                continue
        if len(calls) != 1:
            r54.ob(inst_id, False, f.where, f.q, "wrapper does not call oper exactly once")
            continue
        c = calls[0]
        a0 = strip_casts(c["args"][0]) if c.get("args") else {}
        passed = a0.get("name") if a0.get("k") == "ref" and a0.get("rk") == "enum" else None
        arity = len(c["args"]) - 1
        want_arity = 1 if (name in UNARY_VALUE or name in UNARY_ASSIGN) else 2
        handled = (name in handled_un) if arity == 1 else (name in handled_bin)
        ok = passed == name and arity == want_arity and handled
        why = ""
        if passed != name:
            why = "wrapper %s passes opcode %s" % (name, passed)
        elif arity != want_arity:
            why = "wrapper %s calls the %d-operand oper overload, but the opcode is handled by the %d-operand one: the call always throws bad_any_cast" % (name, arity, want_arity)
        elif not handled:
            why = "the %d-operand oper overload has no case for %s" % (arity, name)
        # operand plumbing: operands are the wrapper's own parameters' .bv in order
        if ok:
            for i in range(arity):
                a = strip_casts(c["args"][1 + i])
                if not (a.get("k") == "member" and a.get("name") == "bv" and param_index(f, a.get("base")) == i):
                    ok, why = False, "operand %d of %s is not parameter %d's value" % (i, name, i)
        r54.ob(inst_id, ok, f.where, f.q, why)
    r54.require(32, "wrappers")

    # ------------------------------------------------------------------ R5.5 string tables
    r55 = chk.rule("R5.5", "operator string tables agree: registrations, Operators::to_operator and the C++ meaning of each token",
                   "the operator node, the folds and the function route decode the same token to the same opcode")
    to_op = [f for f in prog.named("to_operator") if f.get("cls") == "chaiscript::Operators"]
    r55.anchor(len(to_op) == 1, "chaiscript::Operators::to_operator")
    chk.touched(to_op)
    table = to_operator_table(prog, to_op[0])
    for s, (bin_name, un_name) in sorted(table.items()):
        want_b, want_u = STRING_OPCODE_BIN.get(s), STRING_OPCODE_UN.get(s)
        ok = bin_name == want_b and un_name == want_u
        r55.ob("chaiscript::Operators::to_operator/case %r" % s, ok, to_op[0].where, to_op[0].q,
               "to_operator(%r) = (%s, unary %s), C++ token means (%s, unary %s)" % (s, bin_name, un_name, want_b, want_u))
    regs = [f for f in prog.named("opers_arithmetic_pod")]
    r55.anchor(len(regs) == 1, "bootstrap opers_arithmetic_pod")
    chk.touched(regs)
    nreg = 0
    for name, target, node in registrations(prog, regs[0]):
        nreg += 1
        tname = target.split("::")[-1]
        cands = {STRING_OPCODE_BIN.get(name), STRING_OPCODE_UN.get(name)}
        ok = tname in cands
        why = "registered %s under %r, whose C++ meaning is %s" % (target, name, sorted(x for x in cands if x))
        if ok and name in table:
            b, u = table[name]
            if tname not in (b, u):
                ok, why = False, "function route maps %r to %s but to_operator maps it to %s/%s" % (name, tname, b, u)
        r55.ob("opers_arithmetic_pod/%r -> %s" % (name, tname), ok, "%s:%d" % (regs[0]["file"], node["l"]), regs[0].q, why)
    r55.require(60, "table entries")
    missing = sorted(set(STRING_OPCODE_BIN) - set(table))
    if missing:
        r55.note("tokens not decoded by to_operator (take the function route; values agree by construction, error reporting is R5.7's business): %s" % missing)

    # ------------------------------------------------------------------ R5.6 width / signedness tables
    r56 = chk.rule("R5.6", "Common_Types tables: each case t_X reads the stored value as the C++ type X names; get_common_type maps every arithmetic type to its size/signedness class",
                   "width, signedness and floating-ness of operands are those of the C++ types")
    for fname, how in (("visit", "cast"), ("get_as", "aux"), ("get_as_checked", "aux")):
        fs = [f for f in prog.named(fname) if f.get("cls") == "chaiscript::Boxed_Number" and
              any(n.get("k") == "switch" for n in walk(f.body))]
        r56.anchor(fs, "Boxed_Number::%s" % fname)
        # judge one instantiation per distinct body shape: all of them
        seen_ok = {}
        chk.touched(fs)
        for f in fs:
            if f["tk"] == "pattern":
                continue
            for sw in [n for n in walk(f.body) if n.get("k") == "switch"]:
                for g in switch_groups(sw):
                    for lab in g["labels"]:
                        en = lab.get("ename")
                        if en is None:
                            continue
                        want = COMMON.get(en)
                        got = set()
                        for s in g["stmts"]:
                            for x in walk(s):
                                if how == "cast" and x.get("k") == "cast" and x.get("ck") == "static":
                                    t = prog.T(f, x.get("t"))
                                    if t.endswith("*"):
                                        got.add(t.replace("const ", "").replace("*", "").strip())
                                if how == "aux" and x.get("k") == "call" and x.get("name") == "get_as_aux":
                                    d = prog.decl(f, x.get("fn"))
                                    if d and d.get("targs"):
                                        got.add(d["targs"][-1])
                        ok = got == {want}
                        key = ("%s/case %s" % (fname, en))
                        if key not in seen_ok or not ok:
                            seen_ok[key] = (ok, "%s:%d" % (f["file"], lab["l"]), f.q, "case %s reads the value as %s, expected %s" % (en, sorted(got), want))
        for key, (ok, where, q, why) in sorted(seen_ok.items()):
            r56.ob("chaiscript::Boxed_Number::" + key, ok, where, q, why)
    gct = [f for f in prog.named("get_common_type") if f.get("cls") == "chaiscript::Boxed_Number" and len(f["params"]) == 1]
    r56.anchor(len(gct) == 1, "Boxed_Number::get_common_type(const Boxed_Value&)")
    chk.touched(gct)
    for tname, res, line in common_type_ladder(prog, gct[0]):
        base = tname
        if base in FLOATS:
            want = {"double": "t_double", "float": "t_float", "long double": "t_long_double"}[base]
        else:
            want = COMMON_BY_SIZE.get(SIZES.get(base))
        r56.ob("chaiscript::Boxed_Number::get_common_type/user_type<%s>" % tname, res == want, "%s:%d" % (gct[0]["file"], line),
               gct[0].q, "user_type<%s> classified %s, C++ size/signedness says %s" % (tname, res, want))
    r56.require(55, "table cells")

    # ------------------------------------------------------------------ R5.7 routes
    r57 = chk.rule("R5.7", "all evaluation routes reach Boxed_Number::oper with the decoded opcode; arithmetic_error is preserved by Binary/Fold_Right and reported as eval_error by Equation only",
                   "the four evaluation routes agree and a trap surfaces as the documented exception type")
    routes(prog, chk, r57)
    # the clause "compound assignment reports a trap as eval_error" holds only for tokens the equation node can decode:
    # every compound-assignment token of the kernel must be in to_operator's table
    table57 = to_operator_table(prog, to_op[0])
    for tok in sorted(t for t in STRING_OPCODE_BIN if t.endswith("=") and t not in ("==", "!=", "<=", ">=", "=")):
        r57.ob("Operators::to_operator decodes the compound assignment %r (so that the equation node's arithmetic path, which reports traps as eval_error, applies)" % tok,
               tok in table57, to_op[0].where, to_op[0].q,
               "%r is not decoded: `x %s 0` takes the dispatched function route and surfaces arithmetic_error while its siblings report eval_error" % (tok, tok))
    r57.require(18, "routes")


# =============================================================================== helpers

def guard_capabilities_pattern(prog, fn, _depth=0):
    """Like guard_capabilities but for an uninstantiated pattern: looks inside `if constexpr` arms whose
    condition is dependent (they are effective for the integral instantiations)."""
    caps = set()

    def scan(n):
        for x in uncond_exprs(n):
            if x.get("k") == "if" and x.get("constexpr") and "cv" not in x:
                if x.get("then"):
                    scan(x["then"])
            elif x.get("k") == "if" and not x.get("constexpr"):
                if throws_type(prog, fn, x.get("then"), "arithmetic_error"):
                    fake = {"body": {"k": "block", "s": [x]}}
                    fake.update({k: v for k, v in fn.items() if k != "body"})
                    caps.update(guard_capabilities(prog, _FnView(fn, {"k": "block", "s": [x]})))
    scan(fn["body"])
    caps |= forwarded_capabilities(prog, fn, fn["body"], guard_capabilities_pattern, _depth)
    return caps


class _FnView(dict):
    def __init__(self, fn, body):
        dict.__init__(self, fn)
        self["body"] = body


def enclosing_case(flow, n):
    """ename of the case group that contains n (nearest enclosing switch)."""
    cur = n
    for a in flow.ancestors(n):
        if a.get("k") == "case":
            return a.get("ename") or str(a.get("v"))
        if a.get("k") == "block":
            p = flow.parent(a)
            if p is not None and p.get("k") == "switch":
                sibs = a.get("s", [])
                idx = next((i for i, s in enumerate(sibs) if s is cur), None)
                while idx is not None and idx >= 0:
                    s = sibs[idx]
                    if s.get("k") == "case":
                        lab = s
                        while isinstance(lab.get("sub"), dict) and lab["sub"].get("k") == "case":
                            lab = lab["sub"]
                        return lab.get("ename") or str(lab.get("v"))
                    if s.get("k") == "default":
                        return "default"
                    idx -= 1
        cur = a
    return None


def overflow_possible(lt, rt):
    """can `lhs / rhs` hit min()/-1 ?  Only when the computation type is lhs's own (promoted) signed type
    and the divisor can be -1."""
    def norm(t):
        return t.replace("const ", "").replace("&", "").strip()
    a, b = SIZES.get(norm(lt)), SIZES.get(norm(rt))
    if a is None or b is None:
        return True
    return a[1] and b[1] and a[0] >= 4 and a[0] >= b[0]


def is_signed_computation(lt, rt, op):
    """usual arithmetic conversions on LP64: is the computation type of lhs OP rhs signed?"""
    def norm(t):
        return t.replace("const ", "").replace("&", "").strip()
    lt, rt = norm(lt), norm(rt)

    def promote(t):
        sz, sg = SIZES.get(t, (4, True))
        if sz < 4:
            return (4, True)
        return (sz, sg)
    a, b = promote(lt), promote(rt)
    if a == b:
        return a[1]
    if a[1] == b[1]:
        return a[1]
    s, u = (a, b) if a[1] else (b, a)
    if u[0] >= s[0]:
        return False
    return True


def go_roles(prog, pat):
    roles = {"lhs_ptr": None, "c_lhs": None, "c_rhs": None, "bv": None, "oper": None}
    for i, p in enumerate(pat["params"]):
        t = prog.T(pat, p["t"])
        if t.endswith("*") and "const" not in t:
            roles["lhs_ptr"] = i
        elif "Boxed_Value" in t:
            roles["bv"] = i
        elif "Opers" in t:
            roles["oper"] = i
        elif t.startswith("const") and t.endswith("&"):
            if roles["c_lhs"] is None:
                roles["c_lhs"] = i
            else:
                roles["c_rhs"] = i
    return roles


def under_integral_constexpr(flow, n):
    for a in flow.ancestors(n):
        if a.get("k") == "if" and a.get("constexpr"):
            txt = str(a.get("cond"))
            if "is_floating_point" in txt or a.get("cond", {}).get("k") in ("unop", "binop"):
                return True
    return False


def under_ptr_check(flow, n, roles):
    from ..flow import atomic_facts
    for c, t in atomic_facts(flow, n):
        c = strip_casts(c)
        if t and c.get("k") == "ref" and c.get("rk") == "param" and c.get("idx") == roles["lhs_ptr"]:
            return True
    return False


def _ret_expr(g):
    rets = [s for s in g["stmts"] if isinstance(s, dict) and s.get("k") == "return"]
    if len(rets) != 1 or g["stmts"][-1] is not rets[0]:
        return None
    return rets[0].get("e")


def check_value_case(prog, f, g, roles, op):
    e = _ret_expr(g)
    if e is None:
        return False, "case does not end in a single return"
    e = strip_casts(e)
    if not (e.get("k") == "call" and e.get("name") == "const_var" and len(e.get("args", [])) == 1):
        return False, "value case does not return const_var(<expr>): %s" % expr_str(prog, f, e)
    b = strip_casts(e["args"][0])
    if b.get("k") != "binop" or b.get("op") != op:
        return False, "applies %s where the opcode names %s" % (expr_str(prog, f, b), op)
    if param_index(f, b["lhs"]) != roles["c_lhs"] or param_index(f, b["rhs"]) != roles["c_rhs"]:
        return False, "operands are not (c_lhs, c_rhs) in order: %s" % expr_str(prog, f, b)
    # other statements may only be guards (calls), never writes
    for s in g["stmts"][:-1]:
        if s.get("k") != "call":
            return False, "unexpected statement before return"
    return True, ""


def check_assign_case(prog, f, g, roles, op):
    e = _ret_expr(g)
    if e is None:
        return False, "case does not end in a single return"
    if param_index(f, e) != roles["bv"]:
        # copy-construct of t_bv
        ee = strip_casts(e)
        if not (ee.get("k") == "construct" and ee.get("args") and param_index(f, ee["args"][0]) == roles["bv"]):
            return False, "assignment case does not return the left operand's Boxed_Value (in-place update)"
    assigns = [s for s in g["stmts"][:-1] if s.get("k") == "assign"]
    if len(assigns) != 1:
        return False, "expected exactly one assignment statement"
    a = assigns[0]
    if a.get("op") != op:
        return False, "applies %s where the opcode names %s" % (a.get("op"), op)
    l = strip_casts(a["lhs"])
    if not (l.get("k") == "unop" and l.get("op") == "*" and param_index(f, l.get("e")) == roles["lhs_ptr"]):
        return False, "does not write through *t_lhs"
    if param_index(f, a["rhs"]) != roles["c_rhs"]:
        return False, "right operand is not c_rhs"
    for s in g["stmts"][:-1]:
        if s is not a and s.get("k") != "call":
            return False, "unexpected statement in assignment case"
    return True, ""


def check_unary_value(prog, f, g, op):
    e = _ret_expr(g)
    if e is None:
        return False, "case does not end in a single return"
    e = strip_casts(e)
    if not (e.get("k") == "call" and e.get("name") == "const_var" and len(e.get("args", [])) == 1):
        return False, "value case does not return const_var(<expr>)"
    b = strip_casts(e["args"][0])
    if b.get("k") != "unop" or b.get("op") != op or b.get("post"):
        return False, "applies %s where the opcode names unary %s" % (expr_str(prog, f, b), op)
    if param_index(f, b["e"]) != 0:
        return False, "operand is not the visited value"
    return True, ""


def check_unary_assign(prog, f, g, op):
    e = _ret_expr(g)
    if e is None:
        return False, "case does not end in a single return"
    stm = [s for s in g["stmts"][:-1]]
    if len(stm) != 1 or stm[0].get("k") != "unop" or stm[0].get("op") != op or stm[0].get("post"):
        return False, "expected the single statement %s(*lhs)" % op
    t = strip_casts(stm[0]["e"])
    if not (t.get("k") == "unop" and t.get("op") == "*" and strip_casts(t["e"]).get("rk") == "local"):
        return False, "does not write through the checked pointer"
    ee = strip_casts(e)
    if ee.get("k") == "construct" and ee.get("args"):
        ee = strip_casts(ee["args"][0])
    if not (ee.get("k") == "ref" and ee.get("name") == "t_lhs" or ee.get("k") == "member"):
        return False, "does not return the operand's own Boxed_Value"
    return True, ""


def to_operator_table(prog, f):
    """{string: (binary opcode, unary opcode)} from the hash switch of to_operator."""
    out = {}
    sws = [n for n in walk(f.body) if n.get("k") == "switch"]
    if len(sws) != 1:
        raise AnalysisBroken("C05 R5.5: to_operator is no longer a single switch")
    for g in switch_groups(sws[0]):
        strs = []
        for lab in g["labels"]:
            if lab.get("default"):
                continue
            e = strip_casts(lab.get("e"))
            s = None
            for x in walk(e):
                if x.get("k") == "lit" and x.get("lt") == "string":
                    s = x["v"]
            if s is None:
                raise AnalysisBroken("C05 R5.5: case label in to_operator is not hash(\"literal\")")
            strs.append(s)
        if not strs:
            continue
        rets = [x for s in g["stmts"] for x in walk(s) if x.get("k") == "return"]
        if len(rets) != 1:
            raise AnalysisBroken("C05 R5.5: to_operator case without a single return")
        e = strip_casts(rets[0]["e"])
        if e.get("k") == "ref" and e.get("rk") == "enum":
            pair = (e["name"], e["name"])
        elif e.get("k") == "cond" and param_index(f, e["c"]) == 1:
            pair = (strip_casts(e["b"]).get("name"), strip_casts(e["a"]).get("name"))
        else:
            raise AnalysisBroken("C05 R5.5: unrecognised return in to_operator")
        for s in strs:
            out[s] = pair
    return out


def registrations(prog, f):
    """(name, qualified target, call node) for m.add(fun(&X), "name") in f."""
    for n in walk(f.body):
        if n.get("k") == "call" and n.get("name") == "add" and len(n.get("args", [])) == 2:
            name = None
            for x in walk(n["args"][1]):
                if x.get("k") == "lit" and x.get("lt") == "string":
                    name = x["v"]
                    break
            target = None
            for x in walk(n["args"][0]):
                if x.get("k") == "ref" and x.get("rk") == "func":
                    d = prog.decl(f, x.get("fn"))
                    target = d["q"] if d else x.get("name")
                    break
            if name is not None and target is not None:
                yield name, target, n


def common_type_ladder(prog, f):
    """[(type named in user_type<T>, resulting Common_Types enumerator, line)] from the if-ladder."""
    out = []
    n = None
    for s in f.body.get("s", []):
        if s.get("k") == "if":
            n = s
    while n is not None and n.get("k") == "if":
        cond = n["cond"]
        tname = None
        for x in walk(cond):
            if x.get("k") == "call" and x.get("name") == "user_type":
                d = prog.decl(f, x.get("fn"))
                if d and d.get("targs"):
                    tname = d["targs"][0]
        res = None
        rets = [x for x in walk(n["then"]) if x.get("k") == "return"]
        if len(rets) == 1:
            e = strip_casts(rets[0]["e"])
            if e.get("k") == "ref" and e.get("rk") == "enum":
                res = e["name"]
            elif e.get("k") == "call" and e.get("name") == "get_common_type" and len(e.get("args", [])) == 2:
                a0, a1 = strip_casts(e["args"][0]), strip_casts(e["args"][1])
                sz = a0.get("v")
                sg = None
                if a1.get("k") == "lit":
                    sg = bool(a1.get("v"))
                else:
                    # std::is_signed<T>::value
                    for x in walk(a1):
                        if x.get("k") == "ref" and x.get("name") == "value":
                            q = x.get("q", "")
                            if "integral_constant<bool, true>" in q:
                                sg = True
                            elif "integral_constant<bool, false>" in q:
                                sg = False
                # which T was sizeof applied to?
                ot = prog.T(f, a0.get("of")) if a0.get("of") is not None else None
                if ot is not None and ot != tname:
                    res = "sizeof(%s)!=%s" % (ot, tname)
                elif sz is not None and sg is not None:
                    res = COMMON_BY_SIZE.get((sz, sg))
        if tname is not None:
            out.append((tname, res, n["l"]))
        n = n.get("else")
        if n is not None and n.get("k") == "block" and len(n.get("s", [])) == 1 and n["s"][0].get("k") == "if":
            n = n["s"][0]
    return out


def routes(prog, chk, r):
    """R5.7: evaluator / optimizer routes."""
    def cls_fns(cls_prefix, name):
        return [f for f in prog.named(name) if (f.get("cls") or "").startswith(cls_prefix)]

    def calls_named(f, name, cls=None):
        out = []
        for n in walk(f.body):
            if n.get("k") == "call" and n.get("name") == name:
                if cls:
                    d = prog.decl(f, n.get("fn")) if n.get("fn") is not None else None
                    if not d or d.get("cls") != cls:
                        continue
                out.append(n)
        return out

    # kernel wrappers do_oper -> oper
    dos = [f for f in prog.named("do_oper") if f.get("cls") == "chaiscript::Boxed_Number"]
    r.anchor(len(dos) == 2, "Boxed_Number::do_oper overloads")
    for f in dos:
        cs = calls_named(f, "oper", "chaiscript::Boxed_Number")
        ok = len(cs) == 1 and all(param_index(f, a) == i for i, a in enumerate(cs[0]["args"])) and len(cs[0]["args"]) == len(f["params"])
        r.ob("chaiscript::Boxed_Number::do_oper/%d -> oper" % len(f["params"]), ok, f.where, f.q, "do_oper does not forward its arguments unchanged to oper")
    chk.touched(dos)

    def opcode_source(f, call, fld="m_oper"):
        a0 = strip_casts(call["args"][0])
        return a0

    # Binary_Operator / Fold_Right: do_oper(t_ss, m_oper/ t_oper ...) -> Boxed_Number::do_oper(t_oper, lhs, rhs); handlers
    for cls_prefix, label in (("chaiscript::eval::Binary_Operator_AST_Node<", "Binary_Operator"),
                              ("chaiscript::eval::Fold_Right_Binary_Operator_AST_Node<", "Fold_Right")):
        def kernel_route(f):
            """(call node in f, function holding the kernel call, kernel call node): the kernel is called in f itself or in one forwarding
            helper whose every return is the kernel's result"""
            direct = calls_named(f, "do_oper", "chaiscript::Boxed_Number")
            if direct:
                return direct[0], f, direct[0]
            for n in walk(f.body):
                if n.get("k") == "call" and n.get("fn") is not None and not n.get("op"):
                    h = prog.fn_by_id(f, n["fn"])
                    if h is None or not h.get("body") or not h["file"].startswith("include/chaiscript/language/"):
                        continue
                    inner = calls_named(h, "do_oper", "chaiscript::Boxed_Number")
                    if len(inner) != 1:
                        continue
                    rets = [x for x in walk(h["body"]) if x.get("k") == "return" and x.get("e") is not None]
                    def strip1(e):
                        e = strip_casts(e)
                        while e.get("k") == "construct" and len(e.get("args", [])) == 1:
                            e = strip_casts(e["args"][0])
                        return e
                    if rets and all(strip1(x["e"]) is inner[0] for x in rets) and all(param_index(h, a) is not None for a in inner[0]["args"]):
                        return n, h, inner[0]
            return None
        fs = [f for f in prog.fns if (f.get("cls") or "").startswith(cls_prefix) and f["tk"] == "inst" and f["name"] in ("do_oper", "eval_internal") and kernel_route(f)]
        r.anchor(fs, "%s route to Boxed_Number::do_oper" % label)
        chk.touched(fs)
        for f in fs[:1]:
            c, kf, kc = kernel_route(f)
            flow = FnFlow(f)
            tr = FnFlow(kf).enclosing(kc, "try") if kf is not f else flow.enclosing(c, "try")
            f_handlers = f
            f = f
            ok = tr is not None
            why = "fast path not inside a try"
            if ok:
                hs = tr["handlers"]
                arith = [h for h in hs if "arithmetic_error" in prog.T(kf, h.get("t")) if not h.get("all")]
                ok = bool(arith) and hs.index(arith[0]) == 0 and rethrows(arith[0]) and any(h.get("all") for h in hs)
                why = "arithmetic_error is not rethrown unchanged ahead of the catch-all that converts kernel errors"
            r.ob("%s::%s/arithmetic_error preserved" % (cls_prefix.rstrip("<"), f["name"]), ok, "%s:%d" % (f["file"], c["l"]), f.q, why)
            # opcode must be invalid-checked and both operands arithmetic before the kernel
            facts = [expr_str(prog, f, a) + ("" if t else " [false]") for a, t in __import__("verif.flow", fromlist=["x"]).atomic_facts(flow, c)]
            if label == "Binary_Operator":
                ok2 = any("invalid" in x and "!=" in x for x in facts) and sum("is_arithmetic" in x and "[false]" not in x for x in facts) >= 2
            else:
                # the opcode and the constant right operand were validated where the node is created (checked below)
                ok2 = sum("is_arithmetic" in x and "[false]" not in x for x in facts) >= 1
            r.ob("%s::%s/kernel only for decoded opcode and arithmetic operands" % (cls_prefix.rstrip("<"), f["name"]), ok2, "%s:%d" % (f["file"], c["l"]), f.q, "guards seen: %s" % facts)
            # inside the arithmetic fast path (the arm guarded by the operands' is_arithmetic() test) nothing but the kernel's result is returned
            region = None
            for a in flow.ancestors(c):
                if a.get("k") == "if" and "is_arithmetic" in expr_str(prog, f, a.get("cond") or {}) and any(x is c for x in walk(a.get("then") or {})):
                    region = a["then"]
                    break
            others = []
            for x in walk(region or {}):
                if x.get("k") == "return" and x.get("e") is not None:
                    e = strip_casts(x["e"])
                    while e.get("k") == "construct" and len(e.get("args", [])) == 1:
                        e = strip_casts(e["args"][0])
                    if e is not c:
                        others.append(x)
            r.ob("%s::%s/the arithmetic fast path returns only the kernel's result" % (cls_prefix.rstrip("<"), f["name"]), region is not None and not others,
                 "%s:%d" % (f["file"], (others[0] if others else c)["l"]), f.q,
                 "returns %s without going through Boxed_Number::do_oper: this route yields another type/value than the other routes for the same operands "
                 "(e.g. the left operand's own type instead of the promoted one)" % [expr_str(prog, f, x["e"])[:50] for x in others])
    fold_right_creation(prog, chk, r)
    # constructors decode with to_operator(text)
    for cls_prefix, unary in (("chaiscript::eval::Binary_Operator_AST_Node<", False), ("chaiscript::eval::Prefix_AST_Node<", True),
                              ("chaiscript::eval::Equation_AST_Node<", False), ("chaiscript::eval::Fold_Right_Binary_Operator_AST_Node<", False)):
        cs = [f for f in prog.fns if (f.get("cls") or "").startswith(cls_prefix) and f["kind"] == "ctor" and f["tk"] == "inst"]
        r.anchor(cs, "constructor of %s" % cls_prefix)
        f = cs[0]
        chk.touched(cs[:1])
        init = [i for i in f.get("inits", []) if i.get("field") == "m_oper"]
        ok = False
        why = "m_oper is not initialised from Operators::to_operator(<node text>%s)" % (", true" if unary else "")
        if init:
            e = strip_casts(init[0]["init"])
            if e.get("k") == "call" and e.get("name") == "to_operator":
                args = e["args"]
                flag = strip_casts(args[1]) if len(args) > 1 else {}
                while flag.get("k") == "defarg":
                    flag = strip_casts(flag.get("e"))
                fv = flag.get("v") if flag.get("k") == "lit" else None
                ok = bool(fv) == unary
        r.ob("%s::ctor/m_oper = to_operator(text%s)" % (cls_prefix.rstrip("<"), ", unary" if unary else ""), ok, f.where, f.q, why)
    # Equation: maps std::exception -> eval_error around the kernel
    eq = [f for f in prog.fns if (f.get("cls") or "").startswith("chaiscript::eval::Equation_AST_Node<") and f["name"] == "eval_internal" and f["tk"] == "inst"]
    r.anchor(eq, "Equation_AST_Node::eval_internal")
    chk.touched(eq[:1])
    f = eq[0]
    flow = FnFlow(f)
    cs = calls_named(f, "do_oper", "chaiscript::Boxed_Number")
    ok = len(cs) == 1
    why = "Equation does not call the arithmetic kernel exactly once"
    if ok:
        tr = flow.enclosing(cs[0], "try")
        ok = tr is not None and any(("std::exception" in prog.T(f, h.get("t")) or "arithmetic_error" in prog.T(f, h.get("t"))) and
                                    any(x.get("k") == "throw" and "eval_error" in prog.T(f, x.get("tt")) for x in walk(h["body"]))
                                    for h in tr["handlers"] if not h.get("all"))
        why = "arithmetic_error from compound assignment is not reported as eval_error"
    r.ob("chaiscript::eval::Equation_AST_Node::eval_internal/arithmetic_error -> eval_error", ok, f.where, f.q, why)
    # Prefix: kernel call with m_oper and the evaluated operand
    pf = [f for f in prog.fns if (f.get("cls") or "").startswith("chaiscript::eval::Prefix_AST_Node<") and f["name"] == "eval_internal" and f["tk"] == "inst"]
    r.anchor(pf, "Prefix_AST_Node::eval_internal")
    chk.touched(pf[:1])
    f = pf[0]
    cs = calls_named(f, "do_oper", "chaiscript::Boxed_Number")
    r.ob("chaiscript::eval::Prefix_AST_Node::eval_internal -> Boxed_Number::do_oper(unary)", len(cs) == 1 and len(cs[0]["args"]) == 2, f.where, f.q,
         "Prefix does not reach the unary kernel")
    # optimizer folds: opcode decoded exactly as the corresponding runtime node does
    folds = [f for f in prog.fns if f["q"].startswith("chaiscript::optimizer::") and f["tk"] == "inst" and calls_named(f, "to_operator")]
    r.anchor(len(folds) >= 2, "optimizer folds calling to_operator")
    seen = set()
    for f in folds:
        for c in calls_named(f, "to_operator"):
            flow = FnFlow(f)
            facts = [expr_str(prog, f, a) for a, t in __import__("verif.flow", fromlist=["x"]).atomic_facts(flow, c) if t]
            node_kind = "Prefix" if any("Prefix" in x for x in facts) else ("Binary" if any("Binary" in x for x in facts) else "?")
            args = c["args"]
            flag = strip_casts(args[1]) if len(args) > 1 else {}
            while flag.get("k") == "defarg":
                flag = strip_casts(flag.get("e"))
            unary = bool(flag.get("v")) if flag.get("k") == "lit" else None
            a0 = expr_str(prog, f, args[0])
            key = "%s/%s to_operator(%s)" % (f["cls"], node_kind, "unary" if unary else "binary")
            if key in seen:
                continue
            seen.add(key)
            ok = (node_kind == "Prefix") == bool(unary) and node_kind != "?"
            r.ob(key, ok, "%s:%d" % (f["file"], c["l"]), f.q,
                 "fold of a %s node decodes its operator with unary=%s (the runtime node uses unary=%s)" % (node_kind, unary, node_kind == "Prefix"))


def fold_right_creation(prog, chk, r):
    from ..flow import atomic_facts
    fs = [f for f in prog.fns if f["q"].startswith("chaiscript::optimizer::") and f["tk"] == "inst"]
    n = 0
    for f in fs:
        for c in walk(f.body):
            if c.get("k") == "call" and c.get("name") == "make_unique":
                d = prog.decl(f, c.get("fn"))
                if not d or not any("Fold_Right_Binary_Operator_AST_Node" in t for t in d.get("targs", [])):
                    continue
                n += 1
                if n > 1:
                    continue
                flow = FnFlow(f)
                facts = [expr_str(prog, f, a) + ("" if t else " [false]") for a, t in atomic_facts(flow, c)]
                ok = any("invalid" in x and "!=" in x and "[false]" not in x for x in facts) and \
                    any("is_arithmetic" in x and "[false]" not in x for x in facts)
                r.ob("%s/Fold_Right node created only for a decoded opcode and an arithmetic constant" % f["cls"], ok,
                     "%s:%d" % (f["file"], c["l"]), f.q, "guards seen at the creation site: %s" % facts)
    r.anchor(n >= 1, "creation site of Fold_Right_Binary_Operator_AST_Node in the optimizer")


def rethrows(h):
    b = h.get("body", {})
    st = b.get("s", [])
    return len(st) == 1 and st[0].get("k") == "throw" and st[0].get("rethrow")
