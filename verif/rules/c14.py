"""C14  Engine instances are isolated from one another.

The only way state can cross from one engine object to another is storage that outlives an engine:
variables with static or thread storage duration.  R14.1 inventories all of them; R14.2 checks that the one
legitimate per-thread store is keyed by an identity that is never reused.
"""
import re

from ..ir import walk, strip_targs, AnalysisBroken
from ..flow import strip_casts, expr_str

IMMUTABLE_VALUE = re.compile(r"^(const )?(bool|char|signed char|unsigned char|short|unsigned short|int|unsigned int|long|"
                             r"unsigned long|long long|unsigned long long|float|double|long double|size_t)( const)?$")

ALLOW = [
    (r"::Thread_Storage(<.*>)?::t::my_t$", "the per-thread store itself: one map per thread, entries keyed per storage object (R14.2)"),
    (r"::Thread_Storage(<.*>)?::next_id::s_next_id$", "atomic counter that only hands out unique ids; carries no engine state"),
    (r"^chaiscript::Name_Validator::is_reserved_word(<.*>)?::words$", "const set of keyword hashes built once"),
]


def is_boxed_value_singleton(s):
    """a Boxed_Value with static storage duration: the handle may be const, the shared Data record behind it (attribute map) is not"""
    return re.sub(r"^const\s+", "", s["type"].strip()) == "chaiscript::Boxed_Value"


def classify(s):
    t = s["type"].strip()
    if s.get("constexpr"):
        return True, "constexpr"
    if s.get("const"):
        bt = re.sub(r"^const\s+", "", t)
        if IMMUTABLE_VALUE.match(t) or IMMUTABLE_VALUE.match(bt):
            return True, "const arithmetic"
        if re.match(r"^const char \*const$", t):
            return True, "const pointer to const chars"
    if re.search(r"::threading::Thread_Storage(<.*>)?::", s["q"]) and not re.search(r"::(t::my_t|next_id::s_next_id)$", s["q"]):
        return True, "deferred: objects inside Thread_Storage are decided by R14.2 (key discipline)"
    for rx, why in ALLOW:
        if re.search(rx, s["q"]):
            if s.get("const") or "my_t" in s["q"] or "s_next_id" in s["q"]:
                return True, "allow-listed: " + why
    return False, "mutable or non-trivially-immutable object with static/thread storage duration"


def run(chk):
    prog = chk.program()
    chk.explanation = ("Inventory of every variable with static or thread storage duration declared under include/chaiscript "
                       "(namespace scope, static data members, static/thread_local locals, in every template instantiation): each "
                       "must be constexpr, const of arithmetic/char-pointer type, or one of three allow-listed objects with a stated "
                       "reason.  The per-thread store (Thread_Storage) must key its thread_local map by a never-reused id taken "
                       "from a process-wide atomic counter, not by an address, and every access must use that key.")
    chk.assume("engine state reachable only through the engine object itself dies with it (C++ object lifetime)")

    r1 = chk.rule("R14.1", "no mutable object with static or thread storage duration besides the allow-listed ones",
                  "nothing outlives an engine that could carry its variables, functions, types or conversions into another")
    seen = set()
    for key, s in sorted(prog.statics.items(), key=lambda kv: (kv[1]["file"], kv[1]["line"], kv[1]["q"])):
        if not s["file"].startswith("include/"):
            continue
        ident = strip_targs(s["q"])
        ok, why = classify(s)
        k2 = (ident, ok)
        if k2 in seen:
            continue
        seen.add(k2)
        detail = "%s (%s, type %s%s) can carry state from one engine to another / between threads" % (
            s["q"], "thread_local" if s.get("tls") else "static", s["type"][:120], "" if not s.get("const") else ", const but of class type")
        if is_boxed_value_singleton(s):
            detail = ("%s is one Boxed_Value shared by every engine and thread of the process; the handle is const but get_var_attr / copy_var_attrs write the attribute "
                      "map of the Data record it points to (Boxed_Value::assign writes through): an attribute set on the literal in one engine is visible in every other" % s["q"])
        r1.ob("static %s : %s" % (ident, strip_targs(s["type"])[:60]), ok, "%s:%d" % (s["file"], s["line"]), s.get("infn", ""), detail)
    r1.require(20, "static-storage variables")

    # ------------------------------------------------------------------ R14.2
    r2 = chk.rule("R14.2", "per-thread storage is keyed by a process-unique id that is never reused, and only through that key",
                  "an engine created after another died (even at the same address, even on threads that outlive both) starts empty")
    ts_fns = [f for f in prog.fns if "::threading::Thread_Storage<" in (f.get("cls") or "") and f["tk"] == "inst"]
    r2.anchor(ts_fns, "instantiated members of Thread_Storage")
    chk.touched(ts_fns)
    classes = sorted({f["cls"] for f in ts_fns})
    for cls in classes:
        fs = [f for f in ts_fns if f["cls"] == cls]
        short = strip_targs(cls) + "<" + cls.split("Thread_Storage<", 1)[1].rsplit(">", 1)[0].split("::")[-1][:40] + ">"
        # the thread_local store
        allst = [(f, v) for f in fs for n in walk(f["body"]) if n.get("k") == "decl" for v in n["vars"] if v.get("tls") or v.get("static")]
        maps = [(f, v) for f, v in allst if re.match(r"^std::(unordered_map|map)<", prog.T(f, v["t"]))]
        if len(maps) != 1:
            r2.ob("%s/exactly one thread_local map holds the per-thread objects" % short, False, fs[0].where, cls, "found %d" % len(maps))
            continue
        st = maps[0][1]
        st_type = prog.T(maps[0][0], st["t"])
        # any further static / thread_local object of the class (a lookup cache, say) must itself be keyed by the id, never by an address
        for sf, sv in allst:
            svt = prog.T(sf, sv["t"])
            if sv is st or svt.startswith("std::atomic<"):
                continue
            users = [g for g in fs if g is sf or any(n.get("k") == "call" and n.get("fn") is not None and prog.fn_by_id(g, n["fn"]) is sf for n in walk(g["body"]))]
            addr = "Thread_Storage" in svt or "void *" in svt
            this_cmp = [g for g in users for n in walk(g["body"]) if n.get("k") == "binop" and n.get("op") in ("==", "!=") and
                        any(strip_casts(x).get("k") == "this" for x in (n["lhs"], n["rhs"]))]
            id_cmp = [g for g in users for n in walk(g["body"]) if n.get("k") == "binop" and n.get("op") in ("==", "!=") and
                      any(strip_casts(x).get("k") == "member" and strip_casts(strip_casts(x).get("base") or {"k": "this"}).get("k") == "this" for x in (n["lhs"], n["rhs"]))]
            readers = [g for g in users if g is not sf and g["kind"] != "dtor"]
            ok = not addr and not this_cmp and all(g in id_cmp for g in readers)
            r2.ob("%s/additional per-thread object %s is keyed by the unique id" % (short, sv["name"]), ok, "%s:%d" % (sf["file"], sv["l"]), cls,
                  "%s %s (%s) is %s: only the destroying thread can reset it, so on every other thread a new storage object at the same address inherits "
                  "the dead one's entry" % ("thread_local" if sv.get("tls") else "static", sv["name"], svt[:90],
                                            "matched against the object's address" if (addr or this_cmp) else "read without comparing it to the key member"))
        m = re.match(r"^std::(unordered_map|map)<(.*?), ", st_type)
        keyt = m.group(2) if m else "?"
        r2.ob("%s/store key type is not an address" % short, m is not None and "*" not in keyt and "void" not in keyt, "%s:%d" % (fs[0]["file"], st["l"]), cls,
              "thread_local map is keyed by %s: addresses are reused after destruction, and only the destroying thread erases its entry, so a new "
              "engine at the same address inherits the dead engine's per-thread state on every other thread" % keyt)
        # every access to the store indexes it with one and the same member
        store_fn = maps[0][0]
        key_fields = set()
        bad_access = []
        naccess = 0
        for f in fs:
            if f is store_fn:
                continue
            for n in walk(f["body"]):
                if n.get("k") == "call" and n.get("obj") is not None and strip_casts(n["obj"]).get("k") == "call" and \
                        strip_casts(n["obj"]).get("name") == store_fn["name"]:
                    naccess += 1
                    args = n.get("args", [])
                    a = strip_casts(args[0]) if args else {}
                    if a.get("k") == "member" and strip_casts(a.get("base") or {"k": "this"}).get("k") == "this":
                        key_fields.add(a["name"])
                    else:
                        bad_access.append((f, n, expr_str(prog, f, a)))
        r2.ob("%s/all accesses index the store with the same member" % short, naccess >= 1 and len(key_fields) == 1 and not bad_access,
              fs[0].where, cls, "store indexed with %s %s" % (sorted(key_fields), [b[2] for b in bad_access]))
        if len(key_fields) != 1:
            continue
        kf = list(key_fields)[0]
        # the key member is const and initialised from the atomic counter in every constructor
        rec = prog.records.get(cls)
        fld = next((x for x in (rec or {}).get("fields", []) if x["name"] == kf), None)
        ft = prog.T(rec["unit"], fld["t"]) if fld else "?"
        r2.ob("%s/key member %s is const and not an address" % (short, kf), fld is not None and ft.startswith("const ") and "*" not in ft,
              "%s:%d" % (rec["file"], fld["l"]) if fld else "", cls, "key member has type %s" % ft)
        ctors = [f for f in fs if f["kind"] == "ctor"]
        okc = bool(ctors)
        why = "no constructor found"
        for c in ctors:
            ini = [i for i in c.get("inits", []) if i.get("field") == kf]
            if not ini:
                okc, why = False, "constructor does not initialise %s" % kf
                break
            e = strip_casts(ini[0]["init"])
            if not (e.get("k") == "call" and e.get("fn") is not None):
                okc, why = False, "%s initialised from %s" % (kf, expr_str(prog, c, e))
                break
            gen = prog.fn_by_id(c, e["fn"])
            if gen is None or not unique_id_source(prog, gen):
                okc, why = False, "%s is not initialised from a static atomic counter (++ / fetch_add)" % kf
                break
        r2.ob("%s/key member %s comes from a process-wide atomic counter in every constructor" % (short, kf), okc, fs[0].where, cls, why)
        # copies/moves of the storage object (which would duplicate the key) are deleted
        meths = (rec or {}).get("methods", [])
        copyable = [m_ for m_ in meths if m_["name"] in (cls.split("::")[-1].split("<")[0], "operator=") and not m_.get("deleted") and m_.get("implicit")]
        r2.ob("%s/not copyable (a copy would share the key)" % short, not copyable, fs[0].where, cls, "implicit copy/move operations exist")
    r2.require(5, "obligations")


def unique_id_source(prog, gen):
    """gen's body returns ++X or X.fetch_add(..) (+1) of a static std::atomic local/global"""
    for n in walk(gen["body"]):
        if n.get("k") == "return" and n.get("e") is not None:
            e = strip_casts(n["e"])
            while e.get("k") == "construct" and e.get("args") and len(e["args"]) == 1:
                e = strip_casts(e["args"][0])
            # the fresh id held in a local first: `const auto id = ++counter; return id;`
            if e.get("k") == "ref" and e.get("rk") == "local":
                from ..paths import ref_inits
                v = ref_inits(gen).get(e.get("vid"))
                assigned = any(x.get("k") == "assign" and strip_casts(x["lhs"]).get("vid") == e.get("vid") for x in walk(gen["body"]))
                if v is not None and v.get("init") is not None and not assigned:
                    e = strip_casts(v["init"])
            tgt = None
            if e.get("k") == "call" and e.get("op") == "++":
                tgt = e.get("obj") or (e.get("args") or [None])[0]
            elif e.get("k") == "call" and e.get("name") == "fetch_add":
                tgt = e.get("obj")
            elif e.get("k") == "binop" and e.get("op") == "+":
                l = strip_casts(e["lhs"])
                if l.get("k") == "call" and l.get("name") == "fetch_add":
                    tgt = l.get("obj")
            if tgt is None:
                return False
            tgt = strip_casts(tgt)
            t = prog.T(gen, tgt.get("t")) if tgt.get("t") is not None else ""
            return tgt.get("k") == "ref" and tgt.get("rk") in ("staticlocal", "global") and t.startswith("std::atomic<")
    return False
