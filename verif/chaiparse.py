"""A small, independent parser for the subset of ChaiScript in which the prelude is written.

Used only by the C17 script lint.  It is written from the language's documentation (cheatsheet.md), not
derived from /repo's parser, and it never runs any part of ChaiScript.  Anything outside the subset raises
ParseError, which the check reports as analysis-broken (exit 2) - never as a pass.

AST (dicts):  def{name, cls, params:[{name,type}], guard, body, line}   attr{cls,name}
  block{s:[..]}  decl{kw,name,ref,op('='|':='|None),init}  while{cond,body}  if{cond,then,else}  for{init,cond,inc,body}
  return{e}  break  continue  expr{e}
  expressions: id{name} lit{v} call{f,args} member{obj,name} index{obj,idx} binop{op,l,r} unop{op,e,post}
               assign{op,l,r} lambda{params,caps,body} vec{items} map{items} opref{op}
"""
import re


class ParseError(Exception):
    pass


TOKEN = re.compile(r"""
    (?P<ws>[ \t\r\n]+)
  | (?P<comment>\#[^\n]*|//[^\n]*|/\*.*?\*/)
  | (?P<num>\d+\.\d+(?:[eE][+-]?\d+)?[fFlL]?|\d+[uUlL]*|0[xX][0-9a-fA-F]+)
  | (?P<id>[A-Za-z_][A-Za-z0-9_]*)
  | (?P<str>"(?:[^"\\]|\\.)*")
  | (?P<chr>'(?:[^'\\]|\\.)*')
  | (?P<bt>`[^`]*`)
  | (?P<op>::|:=|\+\+|--|\+=|-=|\*=|/=|%=|<<=|>>=|&=|\|=|\^=|==|!=|<=|>=|&&|\|\||<<|>>|[-+*/%<>=!&|^~?:.,;(){}\[\]])
""", re.X | re.S)

KEYWORDS = {"def", "var", "auto", "global", "while", "for", "if", "else", "return", "break", "continue", "fun", "attr", "class", "try", "catch", "finally", "switch", "case", "default"}

BINARY = [("||",), ("&&",), ("|",), ("^",), ("&",), ("==", "!="), ("<", "<=", ">", ">="), ("<<", ">>"), ("+", "-"), ("*", "/", "%")]
ASSIGN = {"=", ":=", "+=", "-=", "*=", "/=", "%=", "<<=", ">>=", "&=", "|=", "^="}


def tokenize(src):
    out = []
    pos = 0
    line = 1
    while pos < len(src):
        m = TOKEN.match(src, pos)
        if not m:
            raise ParseError("line %d: unexpected character %r" % (line, src[pos]))
        kind = m.lastgroup
        text = m.group(0)
        if kind not in ("ws", "comment"):
            out.append((kind, text, line))
        line += text.count("\n")
        pos = m.end()
    out.append(("eof", "", line))
    return out


class Parser:
    def __init__(self, src):
        self.t = tokenize(src)
        self.i = 0

    # -- helpers
    def peek(self, k=0):
        return self.t[min(self.i + k, len(self.t) - 1)]

    def at(self, text):
        return self.peek()[1] == text and self.peek()[0] in ("op", "id")

    def eat(self, text=None, kind=None):
        tok = self.peek()
        if text is not None and tok[1] != text:
            raise ParseError("line %d: expected %r, found %r" % (tok[2], text, tok[1]))
        if kind is not None and tok[0] != kind:
            raise ParseError("line %d: expected %s, found %r" % (tok[2], kind, tok[1]))
        self.i += 1
        return tok

    def opt(self, text):
        if self.at(text):
            self.i += 1
            return True
        return False

    # -- top level
    def program(self):
        items = []
        while self.peek()[0] != "eof":
            items.append(self.statement())
        return items

    def statement(self):
        kind, text, line = self.peek()
        if kind == "id" and text == "def":
            return self.definition()
        if kind == "id" and text == "attr":
            self.eat()
            cls = self.eat(kind="id")[1]
            self.eat("::")
            name = self.eat(kind="id")[1]
            self.opt(";")
            return {"k": "attr", "cls": cls, "name": name, "line": line}
        if kind == "id" and text in ("var", "auto", "global"):
            self.eat()
            ref = self.opt("&")
            name = self.eat(kind="id")[1]
            op = init = None
            if self.at("=") or self.at(":="):
                op = self.eat()[1]
                init = self.expression()
            self.end_stmt()
            return {"k": "decl", "kw": text, "name": name, "ref": ref, "op": op, "init": init, "line": line}
        if kind == "id" and text == "while":
            self.eat()
            self.eat("(")
            cond = self.expression()
            self.eat(")")
            return {"k": "while", "cond": cond, "body": self.block(), "line": line}
        if kind == "id" and text == "if":
            self.eat()
            self.eat("(")
            cond = self.expression()
            self.eat(")")
            then = self.block()
            els = None
            if self.opt("else"):
                els = self.statement() if self.at("if") else self.block()
            return {"k": "if", "cond": cond, "then": then, "else": els, "line": line}
        if kind == "id" and text == "for":
            self.eat()
            self.eat("(")
            init = None if self.at(";") else self.statement_noend()
            self.eat(";")
            cond = None if self.at(";") else self.expression()
            self.eat(";")
            inc = None if self.at(")") else self.expression()
            self.eat(")")
            return {"k": "for", "init": init, "cond": cond, "inc": inc, "body": self.block(), "line": line}
        if kind == "id" and text == "return":
            self.eat()
            e = None if (self.at(";") or self.at("}")) else self.expression()
            self.end_stmt()
            return {"k": "return", "e": e, "line": line}
        if kind == "id" and text in ("break", "continue"):
            self.eat()
            self.end_stmt()
            return {"k": text, "line": line}
        if kind == "id" and text in ("class", "try", "switch"):
            raise ParseError("line %d: %s statements are outside the analysed subset" % (line, text))
        if self.at("{"):
            return self.block()
        e = self.expression()
        self.end_stmt()
        return {"k": "expr", "e": e, "line": line}

    def statement_noend(self):
        kind, text, line = self.peek()
        if kind == "id" and text in ("var", "auto"):
            self.eat()
            name = self.eat(kind="id")[1]
            op = init = None
            if self.at("=") or self.at(":="):
                op = self.eat()[1]
                init = self.expression()
            return {"k": "decl", "kw": text, "name": name, "ref": False, "op": op, "init": init, "line": line}
        return {"k": "expr", "e": self.expression(), "line": line}

    def end_stmt(self):
        # a statement ends at ';', a line end (not tracked) or before '}'
        self.opt(";")

    def block(self):
        line = self.peek()[2]
        self.eat("{")
        s = []
        while not self.at("}"):
            if self.peek()[0] == "eof":
                raise ParseError("line %d: unterminated block" % line)
            s.append(self.statement())
        self.eat("}")
        return {"k": "block", "s": s, "line": line}

    def definition(self):
        line = self.eat("def")[2]
        cls = None
        if self.peek()[0] == "bt":
            name = self.eat()[1]
        else:
            name = self.eat(kind="id")[1]
            if self.opt("::"):
                cls, name = name, self.eat(kind="id")[1]
        params = []
        self.eat("(")
        while not self.at(")"):
            a = self.eat(kind="id")[1]
            if self.peek()[0] == "id" and self.peek()[1] not in KEYWORDS:
                params.append({"type": a, "name": self.eat(kind="id")[1]})
            else:
                params.append({"type": None, "name": a})
            if not self.opt(","):
                break
        self.eat(")")
        guard = None
        if self.opt(":"):
            guard = self.expression()
        return {"k": "def", "name": name, "cls": cls, "params": params, "guard": guard, "body": self.block(), "line": line}

    # -- expressions
    def expression(self):
        return self.assignment()

    def assignment(self):
        l = self.ternary()
        if self.peek()[0] == "op" and self.peek()[1] in ASSIGN:
            op = self.eat()[1]
            r = self.assignment()
            return {"k": "assign", "op": op, "l": l, "r": r}
        return l

    def ternary(self):
        c = self.binary(0)
        if self.opt("?"):
            a = self.binary(0)
            self.eat(":")
            b = self.ternary()
            return {"k": "cond", "c": c, "a": a, "b": b}
        return c

    def binary(self, level):
        if level == len(BINARY):
            return self.prefix()
        l = self.binary(level + 1)
        while self.peek()[0] == "op" and self.peek()[1] in BINARY[level]:
            op = self.eat()[1]
            r = self.binary(level + 1)
            l = {"k": "binop", "op": op, "l": l, "r": r}
        return l

    def prefix(self):
        if self.peek()[0] == "op" and self.peek()[1] in ("++", "--", "-", "+", "!", "~"):
            op = self.eat()[1]
            return {"k": "unop", "op": op, "e": self.prefix()}
        return self.postfix()

    def postfix(self):
        e = self.primary()
        while True:
            if self.at("("):
                self.eat("(")
                args = []
                while not self.at(")"):
                    args.append(self.expression())
                    if not self.opt(","):
                        break
                self.eat(")")
                e = {"k": "call", "f": e, "args": args}
            elif self.at("."):
                self.eat(".")
                e = {"k": "member", "obj": e, "name": self.eat(kind="id")[1]}
            elif self.at("["):
                self.eat("[")
                idx = self.expression()
                self.eat("]")
                e = {"k": "index", "obj": e, "idx": idx}
            else:
                return e

    def primary(self):
        kind, text, line = self.peek()
        if kind == "num":
            self.eat()
            return {"k": "lit", "v": text}
        if kind in ("str", "chr"):
            self.eat()
            return {"k": "lit", "v": text}
        if kind == "bt":
            self.eat()
            return {"k": "opref", "op": text.strip("`")}
        if kind == "id" and text == "fun":
            self.eat()
            caps = []
            if self.opt("["):
                while not self.at("]"):
                    caps.append(self.eat(kind="id")[1])
                    if not self.opt(","):
                        break
                self.eat("]")
            self.eat("(")
            params = []
            while not self.at(")"):
                a = self.eat(kind="id")[1]
                if self.peek()[0] == "id":
                    a = self.eat(kind="id")[1]
                params.append(a)
                if not self.opt(","):
                    break
            self.eat(")")
            return {"k": "lambda", "params": params, "caps": caps, "body": self.block()}
        if kind == "id" and text not in KEYWORDS:
            self.eat()
            return {"k": "id", "name": text}
        if self.at("("):
            self.eat("(")
            e = self.expression()
            self.eat(")")
            return e
        if self.at("["):
            self.eat("[")
            items = []
            while not self.at("]"):
                a = self.expression()
                if self.opt(":"):
                    a = {"k": "pair", "key": a, "val": self.expression()}
                items.append(a)
                if not self.opt(","):
                    break
            self.eat("]")
            return {"k": "vec", "items": items}
        raise ParseError("line %d: unexpected token %r" % (line, text))


def parse(src):
    return Parser(src).program()


def walk(n):
    if isinstance(n, dict):
        yield n
        for v in n.values():
            yield from walk(v)
    elif isinstance(n, list):
        for x in n:
            yield from walk(x)
