"""Repository-independent reference tables shared by rule modules (std library behaviour)."""
import re


def _base(q):
    """strip template arguments: std::vector<int>::at -> std::vector<>::at"""
    out = []
    depth = 0
    for ch in q:
        if ch == "<":
            if depth == 0:
                out.append("<>")
            depth += 1
        elif ch == ">":
            depth -= 1
        elif depth == 0:
            out.append(ch)
    return "".join(out).replace("operator<>", "operator<")


STD_EXCEPTION_BASES = {
    "std::runtime_error": ["std::exception"],
    "std::logic_error": ["std::exception"],
    "std::invalid_argument": ["std::logic_error"],
    "std::out_of_range": ["std::logic_error"],
    "std::length_error": ["std::logic_error"],
    "std::domain_error": ["std::logic_error"],
    "std::future_error": ["std::logic_error"],
    "std::range_error": ["std::runtime_error"],
    "std::overflow_error": ["std::runtime_error"],
    "std::underflow_error": ["std::runtime_error"],
    "std::system_error": ["std::runtime_error"],
    "std::ios_base::failure": ["std::system_error"],
    "std::bad_cast": ["std::exception"],
    "std::bad_any_cast": ["std::bad_cast"],
    "std::bad_alloc": ["std::exception"],
    "std::bad_function_call": ["std::exception"],
    "std::bad_typeid": ["std::exception"],
    "std::bad_weak_ptr": ["std::exception"],
    "std::bad_exception": ["std::exception"],
    "std::bad_optional_access": ["std::exception"],
}

# std functions whose failure mode is an exception reachable with ordinary (non resource-exhaustion) inputs
_EXT_THROWS = [
    (r"^std::sto(i|l|ll|ul|ull|f|d|ld)$", ["std::invalid_argument", "std::out_of_range"]),
    (r"^std::basic_string<>::(at|substr|erase|insert|replace|compare|copy)$", ["std::out_of_range"]),
    (r"^std::basic_string_view<>::(at|substr|compare|copy)$", ["std::out_of_range"]),
    (r"^std::(vector|deque|array|map|unordered_map)<>::at$", ["std::out_of_range"]),
    (r"^std::function<>::operator\(\)$", ["std::bad_function_call"]),
    (r"^std::future<>::get$", ["<unknown>"]),
    (r"^std::shared_future<>::get$", ["<unknown>"]),
    (r"^std::any_cast<>$", ["std::bad_any_cast"]),
    (r"^std::get<>$", []),
    (r"^std::rethrow_exception$", ["<unknown>"]),
]
_EXT_THROWS = [(re.compile(p), v) for p, v in _EXT_THROWS]

# std algorithms that invoke the callables passed to them before returning
_INVOKERS = re.compile(r"^std::(any_of|all_of|none_of|for_each|find_if|find_if_not|count_if|transform|sort|stable_sort|"
                       r"remove_if|accumulate|generate|generate_n|copy_if|partition|min_element|max_element|"
                       r"lower_bound|upper_bound|equal|mismatch|call_once|invoke|apply|async)<>$")
_OPAQUE = re.compile(r"^std::(function<>::operator\(\)|future<>::get|shared_future<>::get|invoke<>|async<>)$")


def ext_throws(q):
    b = _base(q)
    for rx, v in _EXT_THROWS:
        if rx.search(b):
            return v
    return None


def invokes_callable_args(q):
    return bool(_INVOKERS.search(_base(q)))


def is_opaque_call(q):
    return bool(_OPAQUE.search(_base(q)))


# member functions of std containers / iterators whose precondition violation is undefined behaviour
UB_MEMBERS = {"front", "back", "pop_back", "pop_front", "operator[]", "erase", "insert", "operator*", "operator++",
              "operator--", "operator->"}
