"""Repository knowledge tables shared by rule modules."""
