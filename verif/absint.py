"""A4  Small abstract interpreter for structured code (no goto in the analysed code base).

States are hashable values; the interpreter is path-sensitive up to set union at joins (bounded by
max_states, beyond which the client-supplied `widen` is applied, default: keep all).  Clients supply

  transfer(node, state) -> iterable of successor states   (called for every expression node in evaluation
                                                           order, children first; statements `decl` vars too)
  refine(expr, truth, state) -> iterable of states        (atomic condition known true/false; default identity)
  throws(node, state) -> bool                             (does evaluating this node possibly raise?  default no)

Result of exec(): Flow with .normal .returns .breaks .continues .throws (sets of states).
"""
from .ir import children


class Flow:
    __slots__ = ("normal", "returns", "breaks", "continues", "throws")

    def __init__(self, normal=()):
        self.normal = set(normal)
        self.returns = set()
        self.breaks = set()
        self.continues = set()
        self.throws = set()

    def absorb_exits(self, o):
        self.returns |= o.returns
        self.breaks |= o.breaks
        self.continues |= o.continues
        self.throws |= o.throws


class Throw:
    """A transfer function may yield Throw(state): evaluation of the node raises, leaving `state`."""
    __slots__ = ("state",)

    def __init__(self, state):
        self.state = state


class AbsInt:
    def __init__(self, transfer, refine=None, throws=None, max_iter=12, on_handler=None, on_try_exit=None, on_return=None):
        self.transfer = transfer
        self.refine = refine or (lambda e, t, s: (s,))
        self.throws = throws or (lambda n, s: False)
        self.max_iter = max_iter
        self.on_handler = on_handler          # (handler, state) -> iterable of states at handler entry
        self.on_try_exit = on_try_exit
        self.on_return = on_return            # (return node, state) -> state
        self.incomplete = False               # a loop did not reach its fixpoint within max_iter

    # ------------------------------------------------------------------ expressions
    def eval(self, e, states, fl):
        """Evaluate expression e from each state; returns set of result states; exceptional exits go to fl.throws."""
        if e is None or not isinstance(e, dict):
            return set(states)
        k = e.get("k")
        if k == "lambda":
            return self._apply(e, states, fl)
        if k == "binop" and e.get("op") in ("&&", "||"):
            t, f = self.cond(e, states, fl)
            return t | f
        if k == "cond":
            t, f = self.cond(e.get("c"), states, fl)
            return self.eval(e.get("a"), t, fl) | self.eval(e.get("b"), f, fl)
        cur = set(states)
        for c in self._eval_children(e):
            cur = self.eval(c, cur, fl)
        return self._apply(e, cur, fl)

    def _eval_children(self, e):
        k = e.get("k")
        if k == "assign":
            # right operand first (C++17 sequencing for assignment)
            return [x for x in (e.get("rhs"), e.get("lhs")) if x is not None]
        if k == "call":
            out = []
            if e.get("obj") is not None:
                out.append(e["obj"])
            if e.get("calleeexpr") is not None:
                out.append(e["calleeexpr"])
            out += e.get("args", [])
            return out
        return list(children(e))

    def _apply(self, e, states, fl):
        out = set()
        for s in states:
            if self.throws(e, s):
                fl.throws.add(s)
            for s2 in self.transfer(e, s):
                if isinstance(s2, Throw):
                    fl.throws.add(s2.state)
                else:
                    out.add(s2)
        return out

    def cond(self, e, states, fl):
        """Evaluate e as a condition: returns (states where true, states where false)."""
        if e is None:
            return set(states), set()
        k = e.get("k")
        if k == "unop" and e.get("op") == "!":
            t, f = self.cond(e.get("e"), states, fl)
            return f, t
        if k == "binop" and e.get("op") == "&&":
            t1, f1 = self.cond(e.get("lhs"), states, fl)
            t2, f2 = self.cond(e.get("rhs"), t1, fl)
            return t2, f1 | f2
        if k == "binop" and e.get("op") == "||":
            t1, f1 = self.cond(e.get("lhs"), states, fl)
            t2, f2 = self.cond(e.get("rhs"), f1, fl)
            return t1 | t2, f2
        if k == "cast" and e.get("e") is not None:
            return self.cond(e["e"], states, fl)
        if k == "lit" and e.get("lt") == "bool":
            st = self.eval(e, states, fl)
            return (st, set()) if e.get("v") else (set(), st)
        st = self.eval(e, states, fl)
        t, f = set(), set()
        for s in st:
            t.update(self.refine(e, True, s))
            f.update(self.refine(e, False, s))
        return t, f

    # ------------------------------------------------------------------ statements
    def exec(self, n, states):
        fl = Flow()
        if n is None or not states:
            fl.normal = set(states)
            return fl
        k = n.get("k")
        if k == "block":
            cur = set(states)
            for s in n.get("s", []):
                r = self.exec(s, cur)
                fl.absorb_exits(r)
                cur = r.normal
                if not cur:
                    break
            fl.normal = cur
        elif k == "decl":
            cur = set(states)
            for v in n.get("vars", []):
                if v.get("init") is not None:
                    cur = self.eval(v["init"], cur, fl)
                out = set()
                for s in cur:
                    out.update(self.transfer({"k": "vardecl", "var": v, "l": v.get("l")}, s))
                cur = out
            fl.normal = cur
        elif k == "if":
            cur = set(states)
            if n.get("init") is not None:
                r = self.exec(n["init"], cur)
                fl.absorb_exits(r)
                cur = r.normal
            if n.get("condvar") is not None:
                r = self.exec({"k": "decl", "vars": [n["condvar"]]}, cur)
                fl.absorb_exits(r)
                cur = r.normal
            if n.get("constexpr") and "cv" in n:
                arm = n.get("then") if n["cv"] else n.get("else")
                r = self.exec(arm, cur) if arm is not None else Flow(cur)
                fl.absorb_exits(r)
                fl.normal = r.normal
            else:
                t, f = self.cond(n.get("cond"), cur, fl)
                rt = self.exec(n.get("then"), t)
                rf = self.exec(n.get("else"), f) if n.get("else") is not None else Flow(f)
                fl.absorb_exits(rt)
                fl.absorb_exits(rf)
                fl.normal = rt.normal | rf.normal
        elif k in ("while", "for", "do", "rangefor"):
            self._loop(n, states, fl)
        elif k == "switch":
            from .flow import switch_groups
            cur = self.eval(n.get("cond"), set(states), fl)
            groups = switch_groups(n)
            has_default = any(any(l.get("default") for l in g["labels"]) for g in groups)
            out = set() if has_default else set(cur)
            fall = set()
            for g in groups:
                entry = set(cur) | fall
                r = self.exec({"k": "block", "s": g["stmts"]}, entry)
                fl.returns |= r.returns
                fl.throws |= r.throws
                fl.continues |= r.continues
                out |= r.breaks
                fall = r.normal
            out |= fall
            fl.normal = out
        elif k in ("case", "default", "label", "attributed"):
            r = self.exec(n.get("sub"), states)
            return r
        elif k == "return":
            cur = self.eval(n.get("e"), set(states), fl)
            if self.on_return:
                cur = {self.on_return(n, s) for s in cur}
            fl.returns |= cur
        elif k == "break":
            fl.breaks |= set(states)
        elif k == "continue":
            fl.continues |= set(states)
        elif k == "try":
            body = self.exec(n.get("body"), states)
            fl.returns |= body.returns
            fl.breaks |= body.breaks
            fl.continues |= body.continues
            fl.normal |= body.normal
            thrown = set(body.throws)
            caught_all = False
            for h in n.get("handlers", []):
                entry = set()
                for s in thrown:
                    if self.on_handler:
                        entry.update(self.on_handler(h, s))
                    else:
                        entry.add(s)
                r = self.exec(h.get("body"), entry)
                fl.absorb_exits(r)
                fl.normal |= r.normal
                if h.get("all"):
                    caught_all = True
            if not caught_all:
                fl.throws |= thrown
        elif k == "throw":
            cur = set(states)
            if n.get("e") is not None:
                cur = self.eval(n["e"], cur, fl)
            cur = self._apply(n, cur, fl)
            fl.throws |= cur
        elif k == "null":
            fl.normal = set(states)
        else:
            # expression statement
            fl.normal = self.eval(n, set(states), fl)
        return fl

    def _loop(self, n, states, fl):
        k = n.get("k")
        cur = set(states)
        if k == "for" and n.get("init") is not None:
            r = self.exec(n["init"], cur)
            fl.absorb_exits(r)
            cur = r.normal
        if k == "rangefor":
            cur = self.eval(n.get("range"), cur, fl)
        head = set(cur)
        exits = set()
        seen = set()
        it = 0
        first = True
        while head and it < self.max_iter:
            it += 1
            seen |= head
            if k == "do" and first:
                t = set(head)
            elif k == "rangefor" or n.get("cond") is None:
                t = set(head)
                if k == "rangefor":
                    exits |= head
            else:
                t, f = self.cond(n.get("cond"), head, fl)
                exits |= f
            first = False
            r = self.exec(n.get("body"), t)
            fl.returns |= r.returns
            fl.throws |= r.throws
            exits |= r.breaks
            nxt = r.normal | r.continues
            if k == "for" and n.get("inc") is not None:
                nxt = self.eval(n["inc"], nxt, fl)
            if k == "do":
                t2, f2 = self.cond(n.get("cond"), nxt, fl)
                exits |= f2
                nxt = t2
            head = nxt - seen
        if head:
            self.incomplete = True
        fl.normal |= exits
