"""IR loading: runs the chaifacts extractor over the analysed translation units
(content-hash cached under /verif/.cache) and offers tree helpers.

Nothing in here knows about ChaiScript; repository knowledge lives in rules/ and models.py.
"""
import hashlib
import json
import os
import re
import subprocess
import sys
import time

VERIF = os.path.dirname(os.path.dirname(os.path.abspath(__file__)))
REPO = os.path.abspath(os.environ.get("VERIF_REPO", "/repo"))
CACHE = os.path.join(VERIF, ".cache")
EXTRACTOR = os.path.join(VERIF, "bin", "chaifacts")
EXTRACTOR_SRC = os.path.join(VERIF, "extractor", "chaifacts.cc")
SRC_DIRS = ["include", "src", "static_libs", "unittests", "samples"]
STD = "-std=gnu++17"


class AnalysisBroken(Exception):
    """The analysis cannot decide (extractor failed, anchor vanished, rule lost its instances)."""


def _resource_dir():
    for cand in ("/usr/lib/llvm-14/lib/clang/14.0.6",):
        if os.path.isdir(cand):
            return cand
    return subprocess.check_output(["clang++", "-print-resource-dir"], text=True).strip()


def ensure_extractor():
    if os.path.exists(EXTRACTOR) and os.path.getmtime(EXTRACTOR) >= os.path.getmtime(EXTRACTOR_SRC):
        return
    os.makedirs(os.path.dirname(EXTRACTOR), exist_ok=True)
    cxxflags = subprocess.check_output(["llvm-config-14", "--cxxflags"], text=True).split()
    cmd = ["clang++"] + cxxflags + ["-O1", "-fno-rtti", EXTRACTOR_SRC, "-o", EXTRACTOR + ".tmp%d" % os.getpid(),
                                    "/usr/lib/llvm-14/lib/libclang-cpp.so.14", "/usr/lib/llvm-14/lib/libLLVM-14.so"]
    r = subprocess.run(cmd, stdout=subprocess.PIPE, stderr=subprocess.STDOUT, text=True)
    if r.returncode != 0:
        raise AnalysisBroken("cannot build extractor:\n" + r.stdout[-4000:])
    os.replace(EXTRACTOR + ".tmp%d" % os.getpid(), EXTRACTOR)


def repo_files():
    out = []
    for d in SRC_DIRS:
        top = os.path.join(REPO, d)
        for root, dirs, files in os.walk(top):
            dirs.sort()
            for f in sorted(files):
                if f.endswith((".hpp", ".cpp", ".h", ".hh", ".cc", ".chai", ".inc")):
                    out.append(os.path.join(root, f))
    return out


_tree_hash = None


def tree_hash():
    global _tree_hash
    if _tree_hash is None:
        h = hashlib.sha256()
        for p in repo_files():
            h.update(p.encode())
            with open(p, "rb") as fh:
                h.update(hashlib.sha256(fh.read()).digest())
        for p in (EXTRACTOR_SRC,):
            with open(p, "rb") as fh:
                h.update(fh.read())
        for sub in ("tu", "fixtures"):
            tu = os.path.join(VERIF, sub)
            for f in sorted(os.listdir(tu)) if os.path.isdir(tu) else []:
                with open(os.path.join(tu, f), "rb") as fh:
                    h.update(f.encode())
                    h.update(fh.read())
        h.update(b"v2")
        h.update(REPO.encode())
        _tree_hash = h.hexdigest()[:24]
    return _tree_hash


def relpath(p):
    p = os.path.normpath(p)
    if p.startswith(REPO + "/"):
        return p[len(REPO) + 1:]
    return p


def parse_loc(s):
    """'file:line:col' -> (relative normalised file, line, col)"""
    if not s:
        return ("", 0, 0)
    m = re.match(r"^(.*):(\d+):(\d+)$", s)
    if not m:
        return (s, 0, 0)
    return (relpath(m.group(1)), int(m.group(2)), int(m.group(3)))


def extract_unit(name, src, flags, timeout=3600, extra_roots=()):
    """Run the extractor on one TU (cached). Returns the output prefix."""
    ensure_extractor()
    d = os.path.join(CACHE, tree_hash())
    os.makedirs(d, exist_ok=True)
    prefix = os.path.join(d, name)
    if os.path.exists(prefix + ".ok"):
        return prefix
    tmp = prefix + ".tmp%d" % os.getpid()
    roots = []
    for r in extra_roots:
        roots += ["--root", r]
    cmd = [EXTRACTOR, "--root", REPO + "/"] + roots + ["--out", tmp, "--", src, STD, "-I" + os.path.join(REPO, "include"),
           "-UNDEBUG", "-resource-dir", _resource_dir(), "-w", "-ferror-limit=20"] + list(flags)
    t0 = time.time()
    r = subprocess.run(cmd, stdout=subprocess.PIPE, stderr=subprocess.STDOUT, text=True, timeout=timeout)
    ok = r.returncode == 0 and os.path.exists(tmp + ".meta.json") and os.path.exists(tmp + ".funcs.jsonl")
    if not ok:
        for suf in (".meta.json", ".funcs.jsonl"):
            try:
                os.unlink(tmp + suf)
            except OSError:
                pass
        raise AnalysisBroken("extractor failed on %s (does the tree still compile?):\n%s" % (src, r.stdout[-6000:]))
    os.replace(tmp + ".funcs.jsonl", prefix + ".funcs.jsonl")
    os.replace(tmp + ".meta.json", prefix + ".meta.json")
    with open(prefix + ".ok", "w") as fh:
        fh.write("%.2f\n%s\n" % (time.time() - t0, r.stdout[-500:]))
    _prune_cache(keep=tree_hash())
    return prefix


def _prune_cache(keep, maxdirs=12, min_age_s=1800):
    """Drop old cache directories (never one that may be in use by a concurrent run)."""
    try:
        now = time.time()
        ds = [os.path.join(CACHE, x) for x in os.listdir(CACHE)]
        ds = [x for x in ds if os.path.isdir(x) and os.path.basename(x) != keep]
        ds.sort(key=os.path.getmtime)
        import shutil
        for x in ds[:-maxdirs] if len(ds) > maxdirs else []:
            if now - os.path.getmtime(x) > min_age_s:
                shutil.rmtree(x, ignore_errors=True)
    except OSError:
        pass


# ----------------------------------------------------------------------------- program


class Fn(dict):
    """A function with a body.  Keys as emitted by the extractor plus:
    file, line, col, pid (pattern id 'file:line:col' relative)"""
    __slots__ = ("prog",)

    def __hash__(self):
        return self["id"]

    def __eq__(self, o):
        return self is o

    @property
    def q(self):
        return self["q"]

    @property
    def name(self):
        return self["name"]

    @property
    def body(self):
        return self["body"]

    @property
    def where(self):
        return "%s:%d" % (self["file"], self["line"])


class Program:
    def __init__(self):
        self.units = []
        self.types = []          # per unit: list
        self.fns = []            # all Fn with bodies
        self.decls = {}          # (unit, id) -> decl dict
        self.records = {}        # q -> record dict (first seen)
        self.statics = {}        # (q, loc) -> static var dict
        self.stats = {}
        self.enums = {}
        self._by_name = {}

    # -- loading
    def load_unit(self, prefix, name):
        u = len(self.units)
        with open(prefix + ".meta.json") as fh:
            meta = json.load(fh)
        types = meta["types"]
        self.units.append(name)
        self.types.append(types)
        for d in meta["fns"]:
            d["unit"] = u
            d["file"], d["line"], d["col"] = parse_loc(d.get("loc", ""))
            self.decls[(u, d["id"])] = d
        for r in meta["records"]:
            r["unit"] = u
            r["file"], r["line"], r["col"] = parse_loc(r.get("loc", ""))
            self.records.setdefault(r["q"], r)
        for s in meta["statics"]:
            s["unit"] = u
            s["file"], s["line"], s["col"] = parse_loc(s.get("loc", ""))
            s["type"] = types[s["t"]]
            self.statics.setdefault((s["q"], s["loc"], s.get("infn", "")), s)
        for e in meta.get("enums", []):
            self.enums.setdefault(e["q"], e)
        self.stats[name] = meta["stats"]
        seen = getattr(self, "_seen", None)
        if seen is None:
            seen = self._seen = {}
            self._alias = {}
        n = 0
        with open(prefix + ".funcs.jsonl") as fh:
            for line in fh:
                if not line.strip():
                    continue
                f = Fn(json.loads(line))
                f["unit"] = u
                f["file"], f["line"], f["col"] = parse_loc(f.get("loc", ""))
                f["pid"] = "%s:%d:%d" % (f["file"], f["line"], f["col"])
                # de-duplicate across units by printed signature
                key = (f["q"], f["pid"], tuple(types[p["t"]] for p in f["params"]))
                if key in seen:
                    self._alias[(u, f["id"])] = seen[key]
                    continue
                seen[key] = f
                f.prog = self
                self.fns.append(f)
                n += 1
        return n

    def index(self):
        self._by_name = {}
        self._by_id = {}
        for f in self.fns:
            self._by_name.setdefault(f["name"], []).append(f)
            self._by_id[(f["unit"], f["id"])] = f
        self._by_id.update(self._alias)

    # -- queries
    def T(self, f_or_unit, tid):
        u = f_or_unit["unit"] if isinstance(f_or_unit, dict) else f_or_unit
        if tid is None:
            return ""
        return self.types[u][tid]

    def decl(self, f, fid):
        return self.decls.get((f["unit"], fid))

    def fn_by_id(self, f, fid):
        return self._by_id.get((f["unit"], fid))

    def named(self, name):
        return self._by_name.get(name, [])

    def find(self, qregex, tk=None):
        rx = re.compile(qregex)
        out = [f for f in self.fns if rx.search(f["q"])]
        if tk:
            out = [f for f in out if f["tk"] in tk]
        return out

    def in_file(self, suffix):
        return [f for f in self.fns if f["file"].endswith(suffix)]


_program_cache = {}


def engine_flags():
    return []


def load_program(tier="quick"):
    """quick: the catalogue TU.  thorough: plus every TU the build covers."""
    key = tier
    if key in _program_cache:
        return _program_cache[key]
    t0 = time.time()
    prog = Program()
    units = [("engine_all", os.path.join(VERIF, "tu", "engine_all.cpp"), [])]
    if tier == "thorough":
        units += build_units()
    if len(units) > 1:
        # extract in parallel (one process per unit, one file per unit)
        from concurrent.futures import ThreadPoolExecutor
        with ThreadPoolExecutor(max_workers=min(16, len(units))) as ex:
            futs = [(n, ex.submit(extract_unit, n, s, fl)) for (n, s, fl) in units]
            prefixes = [(n, fu.result()) for n, fu in futs]
    else:
        prefixes = [(n, extract_unit(n, s, fl)) for (n, s, fl) in units]
    counts = {}
    prog.skipped_units = {}
    for n, p in prefixes:
        why = other_configuration(p)
        if why:
            prog.skipped_units[n] = why
            continue
        counts[n] = prog.load_unit(p, n)
    prog.index()
    prog.unit_fn_counts = counts
    prog.load_s = time.time() - t0
    _program_cache[key] = prog
    return prog


def other_configuration(prefix):
    """A unit built in a configuration the properties do not speak about (CHAISCRIPT_NO_THREADS: per-thread storage is a
    plain member, the lock classes are empty).  Mixing its variants of the same class names into one program would
    make the per-class rules compare members of two different classes."""
    try:
        with open(prefix + ".meta.json") as fh:
            meta = json.load(fh)
    except OSError:
        return None
    for r in meta.get("records", []):
        if r.get("q", "").startswith("chaiscript::detail::threading::Thread_Storage<") and any(f.get("name") == "obj" for f in r.get("fields", [])):
            return "built with CHAISCRIPT_NO_THREADS (single-threaded configuration: Thread_Storage is a plain member, locks are no-ops); not merged into the threaded program"
    return None


def build_units():
    """Every translation unit the repository's build covers (from the ninja build when one is
    configured, otherwise synthesised from the source directories)."""
    units = []
    seen = set()
    bdir = os.path.join(REPO, "_build")
    db = None
    if os.path.exists(os.path.join(bdir, "build.ninja")):
        try:
            out = subprocess.run(["ninja", "-C", bdir, "-t", "compdb"], stdout=subprocess.PIPE, stderr=subprocess.DEVNULL,
                                 text=True, timeout=60).stdout
            db = json.loads(out)
        except Exception:
            db = None
    files = []
    if db:
        for e in db:
            f = os.path.normpath(os.path.join(e.get("directory", ""), e["file"]))
            if f.endswith(".cpp") and f.startswith(REPO + "/") and "/_build/" not in f and f not in seen:
                seen.add(f)
                defs = [a for a in e["command"].split() if a.startswith("-D") and a != "-DNDEBUG"]
                files.append((f, defs))
    if not files:
        for d in ("src", "static_libs", "unittests", "samples"):
            dd = os.path.join(REPO, d)
            if os.path.isdir(dd):
                for f in sorted(os.listdir(dd)):
                    if f.endswith(".cpp"):
                        files.append((os.path.join(dd, f), []))
    for f, defs in files:
        name = "u_" + re.sub(r"[^A-Za-z0-9]+", "_", relpath(f))
        defs = [d for d in defs if not d.startswith("-DREADLINE")]
        units.append((name, f, defs))
    return units


# ----------------------------------------------------------------------------- tree helpers

CHILD_KEYS = ("s", "vars", "init", "condvar", "cond", "then", "else", "body", "inc", "var", "range", "sub", "e",
              "handlers", "base", "obj", "args", "lhs", "rhs", "c", "a", "b", "idx", "calleeexpr", "ch", "caps", "inits")


def children(n):
    """Direct child nodes (dict nodes only), in evaluation-ish / source order."""
    if not isinstance(n, dict):
        return
    for k in CHILD_KEYS:
        v = n.get(k)
        if v is None:
            continue
        if isinstance(v, dict):
            yield v
        elif isinstance(v, list):
            for x in v:
                if isinstance(x, dict):
                    yield x


def walk(n):
    """Pre-order walk over all nodes below n (inclusive)."""
    stack = [n]
    while stack:
        x = stack.pop()
        if not isinstance(x, dict):
            continue
        yield x
        ch = list(children(x))
        ch.reverse()
        stack.extend(ch)


def is_node(n, k):
    return isinstance(n, dict) and n.get("k") == k


def parents(root):
    """Map id(node) -> parent node for the tree under root."""
    pm = {}
    stack = [root]
    while stack:
        x = stack.pop()
        for c in children(x):
            pm[id(c)] = x
            stack.append(c)
    return pm


def ancestors(pm, n):
    while True:
        p = pm.get(id(n))
        if p is None:
            return
        yield p
        n = p


def strip_targs(q):
    """Remove template argument lists from a qualified name, keeping <lambda#N> markers and operator< etc."""
    out = []
    depth = 0
    i = 0
    n = len(q)
    while i < n:
        ch = q[i]
        if ch == "<":
            if depth == 0 and q.startswith("<lambda", i):
                j = q.index(">", i)
                out.append(q[i:j + 1])
                i = j + 1
                continue
            if depth == 0 and "".join(out).endswith("operator"):
                out.append(ch)
                i += 1
                if i < n and q[i] in "<=":
                    out.append(q[i])
                    i += 1
                continue
            depth += 1
        elif ch == ">" and depth:
            depth -= 1
        elif depth == 0:
            out.append(ch)
        i += 1
    return "".join(out)
