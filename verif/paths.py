"""Access paths: which object does an expression denote?  (root, field steps, element steps)

Used by who-may-write rules (C09 stack shape, C13 guarded-by, C15).  Resolves local references
(`auto &x = <path>`) and one level of accessor calls whose body is `return <path>;`.
"""
from .ir import walk
from .flow import strip_casts

ELEMENT_CALLS = {"back", "front", "at", "operator[]", "begin", "end", "rbegin", "rend", "find"}
DEREF_CALLS = {"operator*", "operator->", "get", "value"}


def ref_inits(fn):
    """vid -> init expression for local variables (all of them; callers look at 'ref' themselves)."""
    out = {}
    for n in walk(fn["body"]):
        if n.get("k") == "decl":
            for v in n.get("vars", []):
                if v.get("init") is not None:
                    out[v["vid"]] = v
        elif n.get("k") == "rangefor" and n.get("var"):
            v = n["var"]
            out[v["vid"]] = dict(v, init=None, range=n.get("range"))
        elif n.get("k") in ("if", "while") and n.get("condvar"):
            v = n["condvar"]
            if v.get("init") is not None:
                out[v["vid"]] = v
    return out


class PathResolver:
    def __init__(self, prog, fn):
        self.prog = prog
        self.fn = fn
        self.locals = ref_inits(fn)

    def path(self, e, depth=0, subst=None):
        """Return list of steps, first is the root tuple; None if not a path."""
        e = strip_casts(e)
        if not isinstance(e, dict) or depth > 24:
            return None
        k = e.get("k")
        if k == "this":
            if subst and "this" in subst:
                return subst["this"]
            return [("this",)]
        if k == "ref":
            rk = e.get("rk")
            if rk == "param":
                if subst is not None:
                    return subst.get(e.get("idx"))
                return [("param", e.get("idx"), e.get("name"))]
            if rk in ("local", "binding"):
                if subst is not None:
                    return None
                v = self.locals.get(e.get("vid"))
                if v is not None and (v.get("ref") or self._is_alias(v)) and v.get("init") is not None:
                    p = self.path(v["init"], depth + 1)
                    if p is not None:
                        return p
                if v is not None and v.get("range") is not None and v.get("ref"):
                    p = self.path(v["range"], depth + 1)
                    if p is not None:
                        return p + [("elem", "range-for")]
                return [("local", e.get("vid"), e.get("name"))]
            if rk in ("global", "staticlocal"):
                return [("global", e.get("q") or e.get("name"))]
            if rk == "field":
                return [("this",), ("field", e.get("q"), e.get("name"))]
            return None
        if k == "member":
            base = e.get("base")
            bp = self.path(base, depth + 1, subst) if base is not None else ([("this",)] if not subst else subst.get("this"))
            if bp is None:
                return None
            return bp + [("field", e.get("q"), e.get("name"))]
        if k == "unop" and e.get("op") in ("*", "&"):
            return self.path(e.get("e"), depth + 1, subst)
        if k == "subscript":
            bp = self.path(e.get("base"), depth + 1, subst)
            return None if bp is None else bp + [("elem", "[]")]
        if k == "call":
            name = e.get("name")
            obj = e.get("obj")
            if obj is not None and name in ELEMENT_CALLS:
                bp = self.path(obj, depth + 1, subst)
                return None if bp is None else bp + [("elem", name)]
            if obj is not None and name in DEREF_CALLS:
                bp = self.path(obj, depth + 1, subst)
                return None if bp is None else bp + [("deref", name)]
            if e.get("op") in ("*", "->") and e.get("args") and obj is None:
                bp = self.path(e["args"][0], depth + 1, subst)
                return None if bp is None else bp + [("deref", name)]
            # accessor inlining: callee body is `return <path>;`
            callee = self.prog.fn_by_id(self.fn, e.get("fn")) if e.get("fn") is not None else None
            if callee is not None and depth < 20:
                ret = single_return(callee)
                if ret is not None:
                    sub = {}
                    for i, a in enumerate(e.get("args", [])):
                        sub[i] = self.path(a, depth + 1, subst)
                    if obj is not None:
                        sub["this"] = self.path(obj, depth + 1, subst)
                    elif callee.get("cls") and not callee.get("static"):
                        sub["this"] = [("this",)] if subst is None else subst.get("this")
                    r = PathResolver(self.prog, callee)
                    return r.path(ret, depth + 1, sub)
            return None
        if k == "cond":
            return None
        return None

    def _is_alias(self, v):
        """locals that denote (rather than copy) another object: iterators and raw pointers"""
        t = self.prog.T(self.fn, v.get("t")) if v.get("t") is not None else ""
        t = t.replace("const ", "")
        return "__normal_iterator<" in t or "_Rb_tree_iterator" in t or "_Rb_tree_const_iterator" in t or "_List_iterator" in t or \
            "_Node_iterator" in t or t.rstrip().endswith("*")


def single_return(fn):
    b = fn["body"]
    st = [s for s in b.get("s", []) if s.get("k") != "null"] if b.get("k") == "block" else [b]
    if len(st) == 1 and st[0].get("k") == "return" and st[0].get("e") is not None:
        return st[0]["e"]
    # `assert(cond); return <path>;` is still an accessor: the assert macro expands to an expression statement around __assert_fail
    if len(st) >= 2 and st[-1].get("k") == "return" and st[-1].get("e") is not None and \
            all(any(x.get("k") == "call" and x.get("name") in ("__assert_fail", "__assert") for x in walk(p_)) and
                not any(x.get("k") in ("assign", "decl") for x in walk(p_)) for p_ in st[:-1]):
        return st[-1]["e"]
    return None


def field_steps(path):
    return [s for s in (path or []) if s[0] == "field"]


def has_field(path, q):
    return any(s[0] == "field" and s[1] == q for s in (path or []))


def steps_after_field(path, q):
    """steps following the last occurrence of field q"""
    idx = None
    for i, s in enumerate(path or []):
        if s[0] == "field" and s[1] == q:
            idx = i
    if idx is None:
        return None
    return path[idx + 1:]


def path_str(path):
    if path is None:
        return "?"
    out = []
    for s in path:
        if s[0] == "this":
            out.append("this")
        elif s[0] in ("param", "local"):
            out.append(str(s[2]))
        elif s[0] == "global":
            out.append(s[1])
        elif s[0] == "field":
            out.append("." + s[2])
        elif s[0] == "elem":
            out.append("." + s[1] + "()" if s[1] != "[]" else "[]")
        elif s[0] == "deref":
            out.append("->")
    return "".join(out)
