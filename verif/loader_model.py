"""Abstract interpretation of the file loader over file-length classes (C19 R19.5).

The loader (`load_file` with its callees that receive the stream) is straight-line code with branches whose
conditions compare small constants with quantities that are linear in the file length L.  The analysis
interprets the extracted statement tree over this domain:

  * L          a length class: one of the points 0..K-1 or the ray [K, inf)   (K > every literal in the code)
  * m          how many leading bytes of the file equal the UTF-8 BOM (0..min(3, L)); m == 3 <=> file has a BOM
  * integers   linear forms a*L + b (a in {-1,0,1}); comparisons are decided over the class or the analysis
               stops as broken (they always are when K exceeds the literals)
  * stream     (position: linear form, failbit) with the std::istream rules: a short read sets failbit,
               seekg/tellg/read are no-ops while it is set, clear() resets it
  * buffers    (zero-filled?, file offset of the bytes read into it, how many were read, capacity)

For every class it reports what the function returns: a slice [start, start+n) of the file (plus padding
if the read came up short).  The caller compares that with "the bytes of the file minus one leading BOM".
Nothing of ChaiScript is executed; unknown statement or expression forms stop the analysis (exit 2).
"""
from .ir import walk, AnalysisBroken
from .flow import strip_casts

BOM = (0xEF, 0xBB, 0xBF)
INF = float("inf")


class Lin:
    __slots__ = ("a", "b")

    def __init__(self, a, b):
        self.a, self.b = a, b

    def __add__(self, o):
        return Lin(self.a + o.a, self.b + o.b)

    def __sub__(self, o):
        return Lin(self.a - o.a, self.b - o.b)

    def __eq__(self, o):
        return isinstance(o, Lin) and (self.a, self.b) == (o.a, o.b)

    def __hash__(self):
        return hash((self.a, self.b))

    def __repr__(self):
        if self.a == 0:
            return str(self.b)
        s = "L" if self.a == 1 else "%d*L" % self.a
        return s if self.b == 0 else "%s%+d" % (s, self.b)

    def rng(self, L):
        lo, hi = L
        vals = [self.a * lo + self.b, (self.a * hi + self.b) if self.a else self.b]
        return min(vals), max(vals)


def C(n):
    return Lin(0, n)


class St:
    def __init__(self, L, m):
        self.L, self.m = L, m
        self.pos = None
        self.fail = False
        self.opened = False
        self.env = {}
        self.bufs = {}
        self.trace = []
        self.edited = None

    def copy(self):
        s = St(self.L, self.m)
        s.pos, s.fail, s.opened = self.pos, self.fail, self.opened
        s.edited = self.edited
        s.env = dict(self.env)
        s.bufs = {k: dict(v) for k, v in self.bufs.items()}
        s.trace = list(self.trace)
        return s


class Loader:
    def __init__(self, prog):
        self.prog = prog

    # ------------------------------------------------------------------ comparisons
    def cmp(self, st, x, op, y):
        """decide x op y for linear forms over the class; returns True/False"""
        d = x - y
        lo, hi = d.rng(st.L)
        table = {"<": (hi < 0, lo >= 0), "<=": (hi <= 0, lo > 0), ">": (lo > 0, hi <= 0), ">=": (lo >= 0, hi < 0),
                 "==": (lo == 0 and hi == 0, lo > 0 or hi < 0), "!=": (lo > 0 or hi < 0, lo == 0 and hi == 0)}
        t, f = table[op]
        if t:
            return True
        if f:
            return False
        raise AnalysisBroken("loader model: comparison %r %s %r is not decided on the length class %s" % (x, op, y, st.L))

    # ------------------------------------------------------------------ expressions
    def ev(self, fn, e, st):
        """-> list of (value, state)"""
        if e is None:
            return [(None, st)]
        k = e.get("k")
        if k == "lit":
            if e.get("lt") in ("int", "char"):
                v = e.get("v")
                if e.get("lt") == "char":
                    return [(("byte", v & 0xFF), st)]
                return [(C(v), st)]
            if e.get("lt") == "bool":
                return [(bool(e.get("v")), st)]
            return [(None, st)]
        if k == "cast":
            return self.ev(fn, e.get("e"), st)
        if k == "ref":
            if e.get("rk") in ("local", "param"):
                return [(st.env.get(e.get("vid"), ("var", e.get("vid"))), st)]
            return [(("global", e.get("name")), st)]
        if k == "defarg":
            return [(None, st)]
        if k == "unop":
            op = e.get("op")
            out = []
            for v, s in self.ev(fn, e.get("e"), st):
                if op == "!":
                    out.append((self.truth(v, True), s))
                elif op == "&":
                    out.append((v[1] if isinstance(v, tuple) and v[0] == "elem0" else v, s))
                elif op == "-" and isinstance(v, Lin):
                    out.append((Lin(-v.a, -v.b), s))
                else:
                    out.append((None, s))
            return out
        if k == "binop":
            op = e.get("op")
            if op in ("&&", "||"):
                out = []
                for lv, s in self.ev(fn, e["lhs"], st):
                    lt = self.truth(lv)
                    if (op == "&&" and lt is False) or (op == "||" and lt is True):
                        out.append((lt, s))
                    else:
                        for rv, s2 in self.ev(fn, e["rhs"], s):
                            out.append((self.truth(rv), s2))
                return out
            out = []
            for lv, s in self.ev(fn, e["lhs"], st):
                for rv, s2 in self.ev(fn, e["rhs"], s):
                    out.extend((v, s3) for v, s3 in self.binop(op, lv, rv, s2))
            return out
        if k == "assign":
            tgt = strip_casts(e["lhs"])
            out = []
            for rv, s in self.ev(fn, e["rhs"], st):
                if tgt.get("k") == "ref" and tgt.get("vid") is not None:
                    s = s.copy()
                    if e.get("op") == "=":
                        s.env[tgt["vid"]] = rv
                    else:
                        cur = s.env.get(tgt["vid"])
                        res = self.binop(e["op"][:-1], cur, rv, s)
                        s.env[tgt["vid"]] = res[0][0]
                    out.append((s.env[tgt["vid"]], s))
                else:
                    out.append((None, s))
            return out
        if k == "subscript":
            out = []
            for bv, s in self.ev(fn, e["base"], st):
                for iv, s2 in self.ev(fn, e["idx"], s):
                    out.append((self.byte_of(bv, iv, s2), s2))
            return out
        if k == "construct":
            t = self.prog.T(fn, e.get("t"))
            args = [a for a in e.get("args", []) if a.get("k") != "defarg"]
            if "fpos<" in t and len(args) == 1:
                return self.ev(fn, args[0], st)
            if "basic_string<" in t:
                if not args:
                    return [(("string", None), st)]
                if len(args) == 2:
                    a0, a1 = strip_casts(args[0]), strip_casts(args[1])
                    if a0.get("k") == "call" and a0.get("name") == "begin" and a1.get("k") == "call" and a1.get("name") == "end":
                        o0, o1 = strip_casts(a0["obj"]), strip_casts(a1["obj"])
                        if o0.get("vid") is not None and o0.get("vid") == o1.get("vid"):
                            return [(("string", o0["vid"]), st)]
                if len(args) == 1:
                    # copy / move of a string the model already tracks (`return content;`)
                    vals = self.ev(fn, args[0], st)
                    if vals and all(isinstance(v_, tuple) and v_[:1] == ("string",) for v_, _ in vals):
                        return vals
                raise AnalysisBroken("loader model: unrecognised string construction at line %s" % e.get("l"))
            if len(args) == 1:
                return self.ev(fn, args[0], st)
            return [(None, st)]
        if k == "cond":
            out = []
            for cv, s in self.ev(fn, e["c"], st):
                br = e["a"] if self.truth(cv) else e["b"]
                out.extend(self.ev(fn, br, s))
            return out
        if k == "call":
            return self.call(fn, e, st)
        if k in ("this", "member", "typeid", "sizeof", "lambda", "other", "initlist"):
            return [(None, st)]
        raise AnalysisBroken("loader model: expression kind %r at line %s" % (k, e.get("l")))

    def truth(self, v, negate=False):
        if isinstance(v, bool):
            return (not v) if negate else v
        if isinstance(v, Lin) and v.a == 0:
            return ((v.b == 0) if negate else (v.b != 0))
        raise AnalysisBroken("loader model: condition value %r is not a boolean" % (v,))

    def binop(self, op, lv, rv, st):
        if op in ("<", "<=", ">", ">=", "==", "!="):
            if isinstance(lv, Lin) and isinstance(rv, Lin):
                return [(self.cmp(st, lv, op, rv), st)]
            # byte comparisons
            for x, y in ((lv, rv), (rv, lv)):
                if isinstance(y, tuple) and y[0] == "byte" and isinstance(x, tuple) and op in ("==", "!="):
                    res = self.byte_eq(x, y[1])
                    outs = [True, False] if res is None else [res]
                    return [((r if op == "==" else (not r)), st) for r in outs]
            raise AnalysisBroken("loader model: comparison of %r and %r" % (lv, rv))
        if op in ("+", "-") and isinstance(lv, Lin) and isinstance(rv, Lin):
            return [((lv + rv) if op == "+" else (lv - rv), st)]
        return [(None, st)]

    def byte_of(self, bv, iv, st):
        if not (isinstance(bv, tuple) and bv[0] == "buf" and isinstance(iv, Lin) and iv.a == 0):
            return ("byte?",)
        b = st.bufs[bv[1]]
        i = iv.b
        got = b.get("got")
        if got is not None and b.get("start") is not None and self.cmp(st, C(i), "<", got):
            start = b["start"]
            if start.a != 0:
                return ("byte?",)
            j = start.b + i
            if j < st.m:
                return ("byte", BOM[j])
            if j == st.m and j < 3:
                return ("notbom", j)
            return ("byte?",)
        return ("byte", 0) if b.get("zero") else ("byte?",)

    def byte_eq(self, x, lit):
        if x[0] == "byte":
            return x[1] == lit
        if x[0] == "notbom":
            return False if lit == BOM[x[1]] else None
        return None

    # ------------------------------------------------------------------ calls
    def call(self, fn, e, st):
        name = e.get("name")
        obj = e.get("obj")
        args = e.get("args", [])
        if obj is not None:
            ovs = self.ev(fn, obj, st)
            if not (e.get("op") and e["op"] != "[]" and all(isinstance(ov, Lin) or ov is None for ov, _ in ovs)):
                out = []
                for ov, s in ovs:
                    out.extend(self.method(fn, e, name, ov, s))
                return out
        if e.get("op"):
            # overloaded operator as free function / member with args
            vs = []
            s = st
            for a in ([obj] if obj is not None else []) + list(args):
                r = self.ev(fn, a, s)
                if len(r) != 1:
                    raise AnalysisBroken("loader model: nondeterministic operand at line %s" % e.get("l"))
                vs.append(r[0][0])
                s = r[0][1]
            op = e["op"]
            if op in ("-=", "+=") and len(vs) == 2:
                tgt = strip_casts(obj if obj is not None else args[0])
                s = s.copy()
                res = self.binop(op[0], vs[0], vs[1], s)[0][0]
                if tgt.get("vid") is not None:
                    s.env[tgt["vid"]] = res
                return [(res, s)]
            if len(vs) == 2:
                return self.binop(op, vs[0], vs[1], s)
            return [(None, s)]
        if name == "memset" and len(args) == 3:
            r = self.ev(fn, args[0], st)[0]
            v = self.ev(fn, args[1], r[1])[0][0]
            if isinstance(r[0], tuple) and r[0][0] == "buf" and (v == ("byte", 0) or v == C(0)):
                s = r[1].copy()
                s.bufs[r[0][1]]["zero"] = True
                return [(None, s)]
            return [(None, st)]
        if name == "__assert_fail":
            raise _Abort("assertion fails: %s" % (strip_casts(args[0]).get("v") if args else ""))
        callee = self.prog.fn_by_id(fn, e.get("fn")) if e.get("fn") is not None else None
        # a stream handed to a helper: analyse the helper in place
        avs = []
        s = st
        for a in args:
            r = self.ev(fn, a, s)
            if len(r) != 1:
                raise AnalysisBroken("loader model: nondeterministic argument at line %s" % e.get("l"))
            avs.append(r[0][0])
            s = r[0][1]
        if callee is not None and any(v == ("stream",) for v in avs):
            out = []
            s2 = s.copy()
            for p, v in zip(callee["params"], avs):
                s2.env[p["vid"]] = v
            for kind, s3, val in self.exec(callee, callee["body"], s2):
                if kind in ("normal", "return"):
                    out.append((val, s3))
                else:
                    raise _Abort("helper %s leaves by %s" % (callee["name"], kind))
            return out
        return [(None, s)]

    def method(self, fn, e, name, ov, st):
        args = e.get("args", [])
        if ov == ("stream",):
            s = st.copy()
            s.trace.append(name)
            if name == "is_open":
                return [(True, s)]
            if name == "tellg":
                return [(C(-1) if s.fail else s.pos, s)]
            if name == "clear":
                s.fail = False
                return [(None, s)]
            if name in ("good", "fail", "eof", "bad", "operator bool", "operator!"):
                raise AnalysisBroken("loader model: stream state test %s not modelled" % name)
            if name == "seekg":
                real = [a for a in args if a.get("k") != "defarg"]
                off = self.ev(fn, real[0], s)[0][0]
                whence = "beg"
                if len(real) == 2:
                    w = self.ev(fn, real[1], s)[0][0]
                    whence = w[1] if isinstance(w, tuple) else "beg"
                if not isinstance(off, Lin):
                    raise AnalysisBroken("loader model: seekg offset %r" % (off,))
                if not s.fail:
                    s.pos = off if whence == "beg" else (Lin(1, 0) + off if whence == "end" else s.pos + off)
                return [(("stream",), s)]
            if name == "read":
                bv = self.ev(fn, args[0], s)[0][0]
                n = self.ev(fn, args[1], s)[0][0]
                if not (isinstance(bv, tuple) and bv[0] == "buf" and isinstance(n, Lin)):
                    raise AnalysisBroken("loader model: read(%r, %r)" % (bv, n))
                b = s.bufs[bv[1]]
                if self.cmp(s, n, "<", C(0)):
                    raise _Abort("read() with a negative count %r" % n)
                if not self.cmp(s, n, "<=", b["cap"]):
                    raise _Abort("read() of %r bytes into a buffer of %r" % (n, b["cap"]))
                if s.fail:
                    return [(("stream",), s)]
                rem = Lin(1, 0) - s.pos
                if self.cmp(s, n, "<=", rem):
                    b["start"], b["got"] = s.pos, n
                    s.pos = s.pos + n
                else:
                    b["start"], b["got"] = s.pos, rem
                    s.pos = Lin(1, 0)
                    s.fail = True
                return [(("stream",), s)]
            raise AnalysisBroken("loader model: stream operation %s" % name)
        if isinstance(ov, tuple) and ov[0] == "buf":
            if name == "operator[]" or e.get("op") == "[]":
                iv = self.ev(fn, args[0], st)[0][0]
                if isinstance(iv, Lin) and iv.a == 0 and iv.b == 0:
                    if self.cmp(st, st.bufs[ov[1]]["cap"], "<=", C(0)):
                        raise _Abort("element 0 of an empty buffer")
                    return [(("elem0", ov), st)]
                return [(("byte?",), st)]
            if name in ("begin", "end", "data", "size"):
                return [(ov, st)]
        if name == "operator long" or name.startswith("operator "):
            return [(ov, st)]
        if name == "c_str":
            return [(None, st)]
        return [(None, st)]

    # ------------------------------------------------------------------ statements
    def exec(self, fn, n, st):
        """-> list of (kind, state, value); kind in normal | return | throw"""
        if n is None:
            return [("normal", st, None)]
        k = n.get("k")
        if k == "block":
            cur = [("normal", st, None)]
            for c in n.get("s", []):
                nxt = []
                for kind, s, v in cur:
                    if kind != "normal":
                        nxt.append((kind, s, v))
                    else:
                        nxt.extend(self.exec(fn, c, s))
                cur = nxt
            return cur
        if k == "null":
            return [("normal", st, None)]
        if k == "decl":
            cur = [st]
            for v in n["vars"]:
                nxt = []
                for s in cur:
                    t = self.prog.T(fn, v["t"])
                    init = v.get("init")
                    if "basic_ifstream<" in t or "basic_istream<" in t:
                        s = s.copy()
                        flags = [x.get("name") for x in walk(init or {}) if x.get("k") == "ref" and x.get("rk") == "global"]
                        s.pos = Lin(1, 0) if "ate" in flags else C(0)
                        s.opened = True
                        s.env[v["vid"]] = ("stream",)
                        nxt.append(s)
                    elif t.startswith("char[") or t.startswith("unsigned char["):
                        s = s.copy()
                        s.bufs[v["vid"]] = {"zero": init is not None, "start": None, "got": None, "cap": C(int(t[t.index("[") + 1:t.index("]")]))}
                        s.env[v["vid"]] = ("buf", v["vid"])
                        nxt.append(s)
                    elif "std::vector<char" in t:
                        ini = strip_casts(init) if init else {}
                        real = [a for a in ini.get("args", []) if a.get("k") != "defarg"]
                        if len(real) != 1:
                            raise AnalysisBroken("loader model: vector<char> constructed with %d arguments" % len(real))
                        for cap, s2 in self.ev(fn, real[0], s):
                            if not isinstance(cap, Lin):
                                raise AnalysisBroken("loader model: vector size %r" % (cap,))
                            if self.cmp(s2, cap, "<", C(0)):
                                raise _Abort("vector of negative size %r" % cap)
                            s2 = s2.copy()
                            s2.bufs[v["vid"]] = {"zero": True, "start": None, "got": None, "cap": cap}
                            s2.env[v["vid"]] = ("buf", v["vid"])
                            nxt.append(s2)
                    elif init is not None:
                        for val, s2 in self.ev(fn, init, s):
                            s2 = s2.copy()
                            s2.env[v["vid"]] = val
                            nxt.append(s2)
                    else:
                        nxt.append(s)
                cur = nxt
            return [("normal", s, None) for s in cur]
        if k == "if":
            out = []
            for cv, s in self.ev(fn, n["cond"], st):
                br = n.get("then") if self.truth(cv) else n.get("else")
                out.extend(self.exec(fn, br, s))
            return out
        if k == "return":
            if n.get("e") is None:
                return [("return", st, None)]
            return [("return", s, v) for v, s in self.ev(fn, n["e"], st)]
        if k == "throw":
            return [("throw", st, self.prog.T(fn, n.get("tt")) if n.get("tt") is not None else "rethrow")]
        if k in ("while", "for", "do", "rangefor"):
            # loops are not interpreted.  A loop that writes to the text read from the file (or to a buffer holding it) makes the result
            # something else than the file's bytes: recorded, and reported when that text is returned.  A loop that touches neither the
            # stream nor the text has no effect on what the model tracks.
            written = set()
            stream_used = False
            for x in walk(n):
                if x.get("k") == "assign":
                    written.add(strip_casts(x["lhs"]).get("vid"))
                    for y in walk(x["lhs"]):
                        if y.get("k") == "ref":
                            written.add(y.get("vid"))
                if x.get("k") == "call" and x.get("obj") is not None and x.get("name") in (
                        "erase", "replace", "insert", "push_back", "pop_back", "append", "assign", "resize", "clear", "operator[]", "at", "operator+=", "swap"):
                    for y in walk(x["obj"]):
                        if y.get("k") == "ref":
                            written.add(y.get("vid"))
                if x.get("k") == "ref" and isinstance(st.env.get(x.get("vid")), tuple) and st.env[x["vid"]][:1] == ("stream",):
                    stream_used = True
            if stream_used:
                raise AnalysisBroken("loader model: the stream is used inside a loop at line %s (not modelled)" % n.get("l"))
            texts = [vid for vid in written if isinstance(st.env.get(vid), tuple) and st.env[vid][:1] in (("string",), ("buf",))] + [vid for vid in written if vid in st.bufs]
            if texts:
                st = st.copy()
                st.edited = "the text read from the file is rewritten in a loop at line %s before it is returned" % n.get("l")
            return [("normal", st, None)]
        if k in ("switch", "try"):
            raise AnalysisBroken("loader model: statement kind %r at line %s is not modelled" % (k, n.get("l")))
        # expression statement
        return [("normal", s, None) for _, s in self.ev(fn, n, st)]

    # ------------------------------------------------------------------ driver
    def classes(self, fns):
        skip = {id(x) for f in fns for c in walk(f["body"]) if c.get("k") == "call" and c.get("name") == "__assert_fail" for x in walk(c)}
        lits = [abs(x["v"]) for f in fns for x in walk(f["body"]) if x.get("k") == "lit" and x.get("lt") == "int" and isinstance(x.get("v"), int) and id(x) not in skip]
        if max([0] + lits) > 64:
            raise AnalysisBroken("loader model: literal %d in the loader; length classes would not be small" % max(lits))
        kmax = max([3] + lits) + 4
        out = [((n, n), m) for n in range(kmax) for m in range(min(3, n) + 1)]
        out += [((kmax, INF), m) for m in range(4)]
        return out, kmax

    def run(self, f, L, m):
        """-> list of outcome dicts for load function f on class (L, m)"""
        st = St(L, m)
        res = []
        try:
            leaves = self.exec(f, f["body"], st)
        except _Abort as a:
            return [{"kind": "abort", "why": str(a)}]
        for kind, s, v in leaves:
            if kind == "throw":
                res.append({"kind": "throw", "type": v})
            elif kind == "return" and isinstance(v, tuple) and v[0] == "string" and s.edited:
                res.append({"kind": "other", "what": s.edited})
            elif kind == "return" and isinstance(v, tuple) and v[0] == "string":
                if v[1] is None:
                    res.append({"kind": "bytes", "start": None, "n": C(0), "pad": C(0)})
                else:
                    b = s.bufs[v[1]]
                    got = b["got"] if b["got"] is not None else C(0)
                    res.append({"kind": "bytes", "start": b["start"], "n": got, "pad": b["cap"] - got})
            else:
                res.append({"kind": "other", "what": "%s %r" % (kind, v)})
        return res


class _Abort(Exception):
    pass
