"""Check context: obligations, violations, known findings, evidence, exit codes."""
import json
import os
import sys
import time

from . import ir
from .ir import AnalysisBroken, VERIF

EVID = os.environ.get("VERIF_EVID_DIR") or os.path.join(VERIF, "evidence")
KNOWN = os.path.join(VERIF, "known_findings.json")


class Rule:
    def __init__(self, chk, rid, title, decides):
        self.chk = chk
        self.rid = rid
        self.title = title
        self.decides = decides
        self.obligations = 0
        self.discharged = 0
        self.instances = []      # (instance, ok, where)
        self.notes = []
        self.min_instances = 0

    def ob(self, instance, ok, where="", fn="", detail="", data=None):
        """Record one obligation.  instance: stable identity string (no line numbers)."""
        self.obligations += 1
        if ok:
            self.discharged += 1
        self.instances.append({"instance": instance, "ok": bool(ok), "where": where})
        if not ok:
            self.chk._violation(self, instance, where, fn, detail, data)
        return ok

    def note(self, text):
        self.notes.append(text)

    def require(self, n, what="instances"):
        """Frozen minimum: a rule that sees fewer instances than confirmed by hand cannot pass."""
        self.min_instances = n
        if self.obligations < n and self.discharged == self.obligations:
            raise AnalysisBroken("%s %s: only %d %s found, at least %d confirmed by hand on the reference tree "
                                 "(anchor moved? extend the rule)" % (self.chk.pid, self.rid, self.obligations, what, n))

    def anchor(self, cond, what):
        if not cond:
            raise AnalysisBroken("%s %s: anchor vanished: %s" % (self.chk.pid, self.rid, what))


class Check:
    def __init__(self, pid, tier="quick", seed=0, replay=None):
        self.pid = pid
        self.tier = tier
        self.seed = seed
        self.replay = replay
        self.t0 = time.time()
        self.rules = []
        self.violations = []
        self.assumptions = []
        self.explanation = ""
        self.extra = {}
        self.prog = None
        self.fn_touched = set()

    def program(self):
        if self.prog is None:
            self.prog = ir.load_program(self.tier)
            for u, why in sorted(getattr(self.prog, "skipped_units", {}).items()):
                self.assume("translation unit %s is %s" % (u, why))
        from . import flow as _flow
        _flow.PROG = self.prog
        return self.prog

    def rule(self, rid, title, decides=""):
        r = Rule(self, rid, title, decides)
        self.rules.append(r)
        return r

    def touched(self, fns):
        for f in fns:
            self.fn_touched.add((f["unit"], f["id"]))

    def assume(self, text):
        self.assumptions.append(text)

    def _violation(self, rule, instance, where, fn, detail, data):
        self.violations.append({"property": self.pid, "rule": rule.rid, "rule_title": rule.title, "instance": instance,
                                "where": where, "function": fn, "detail": detail, "data": data or {}})

    # ---------------------------------------------------------------- finish
    def finish(self):
        known_open = []
        try:
            with open(KNOWN) as fh:
                kf = json.load(fh)
            known_open = [k for k in kf.get("open", []) if k.get("property") == self.pid]
        except FileNotFoundError:
            pass
        vdir = os.path.join(EVID, "violations")
        os.makedirs(vdir, exist_ok=True)
        for f in os.listdir(vdir):
            if f.startswith(self.pid + "-"):
                os.unlink(os.path.join(vdir, f))
        new = []
        known_hit = []
        for v in self.violations:
            k = next((k for k in known_open if k.get("rule") == v["rule"] and k.get("instance") == v["instance"]), None)
            if k:
                known_hit.append((v, k))
            else:
                new.append(v)
        out = []
        for v, k in known_hit:
            out.append("KNOWN-FINDING: property=%s rule=%s instance=%s at %s -- %s" % (
                self.pid, v["rule"], v["instance"], v["where"], k.get("fails", v["detail"])))
        n = 0
        for v in new:
            n += 1
            path = os.path.join(vdir, "%s-%d.json" % (self.pid, n))
            with open(path, "w") as fh:
                json.dump(v, fh, indent=1)
            out.append("%s: %s [%s %s] in %s: %s" % (v["where"], v["instance"], self.pid, v["rule"], v["function"], v["detail"]))
            out.append("VIOLATION property=%s replay=%s" % (self.pid, path))
        self._write_evidence(len(new), [v for v, _ in known_hit])
        tot_o = sum(r.obligations for r in self.rules)
        tot_d = sum(r.discharged for r in self.rules)
        out.append("%s %s: %d rules, %d obligations, %d discharged, %d known findings, %d new violations, %.1fs" % (
            self.pid, self.tier, len(self.rules), tot_o, tot_d, len(known_hit), len(new), time.time() - self.t0))
        print("\n".join(out))
        return 1 if new else 0

    def _write_evidence(self, nviol, known):
        os.makedirs(EVID, exist_ok=True)
        prog = self.prog
        tot_o = sum(r.obligations for r in self.rules)
        tot_d = sum(r.discharged for r in self.rules)
        samples = []
        for r in self.rules:
            for inst in r.instances[:3]:
                samples.append({"rule": r.rid, "instance": inst["instance"], "where": inst["where"],
                                "verdict": "discharged" if inst["ok"] else "violated"})
        distinct = len({(r.rid, i["instance"]) for r in self.rules for i in r.instances})
        cov = {
            "explanation": self.explanation,
            "obligations": tot_o,
            "discharged": tot_d,
            "evaluations": tot_o,
            "distinct_nontrivial": distinct,
            "rule": "each obligation is one (rule, function, construct) instance enumerated from the extracted program "
                    "representation of /repo's current sources; distinct = distinct (rule, instance identity) pairs",
            "samples": samples[:40],
            "exhaustive": True,
            "rules": [{"id": r.rid, "title": r.title, "decides": r.decides, "obligations": r.obligations,
                       "discharged": r.discharged, "frozen_minimum": r.min_instances, "notes": r.notes,
                       "instances": [i["instance"] + ("" if i["ok"] else "  [VIOLATED]") for i in r.instances][:400]}
                      for r in self.rules],
            "known_findings_hit": [{"rule": v["rule"], "instance": v["instance"], "where": v["where"]} for v in known],
        }
        if prog is not None:
            cov["units"] = prog.units
            cov["functions_with_bodies_loaded"] = len(prog.fns)
            cov["functions_judged"] = len(self.fn_touched)
            cov["extractor_stats"] = prog.stats.get("engine_all", {})
            cov["unit_function_counts"] = getattr(prog, "unit_fn_counts", {})
        cov.update(self.extra)
        ev = {
            "property_id": self.pid,
            "tier": self.tier,
            "seed": self.seed,
            "level": "other",
            "coverage": cov,
            "assumptions": self.assumptions,
            "wall_s": round(time.time() - self.t0, 2),
            "violations": nviol,
        }
        tmp = os.path.join(EVID, ".%s.json.tmp%d" % (self.pid, os.getpid()))
        with open(tmp, "w") as fh:
            json.dump(ev, fh, indent=1)
        os.replace(tmp, os.path.join(EVID, "%s.json" % self.pid))


def run(pid, fn, argv):
    import argparse
    ap = argparse.ArgumentParser()
    ap.add_argument("--tier", default=os.environ.get("VERIF_TIER", "quick"))
    ap.add_argument("--replay", default=None)
    a = ap.parse_args(argv)
    tier = a.tier if a.tier in ("quick", "thorough") else "quick"
    try:
        seed = int(os.environ.get("VERIF_SEED", "0"))
    except ValueError:
        seed = 0
    chk = Check(pid, tier, seed, a.replay)
    try:
        fn(chk)
        if a.replay:
            with open(a.replay) as fh:
                want = json.load(fh)
            hits = [v for v in chk.violations if v["rule"] == want["rule"] and v["instance"] == want["instance"]]
            if hits:
                v = hits[0]
                print("REPLAY: still violated: %s %s %s at %s in %s\n  %s" % (self_pid(chk), v["rule"], v["instance"], v["where"],
                                                                           v["function"], v["detail"]))
                print(json.dumps(v["data"], indent=1)[:4000])
                print("VIOLATION property=%s replay=%s" % (pid, a.replay))
                return 1
            print("REPLAY: instance %s / %s no longer violated on the current tree" % (want["rule"], want["instance"]))
            return 0
        return chk.finish()
    except AnalysisBroken as e:
        print("ANALYSIS-BROKEN property=%s: %s" % (pid, e), file=sys.stderr)
        print("ANALYSIS-BROKEN property=%s: %s" % (pid, str(e).splitlines()[0] if str(e) else ""))
        return 2
    except Exception as e:  # a bug in the rule engine is never a verdict
        import traceback
        traceback.print_exc()
        print("ANALYSIS-BROKEN property=%s: internal error in the rule engine: %r" % (pid, e))
        return 2


def self_pid(chk):
    return chk.pid
