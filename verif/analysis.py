"""Shared analyses: A1 call graph, A2 exception flow."""
import re

from .ir import walk, children
from . import models

UNKNOWN = "<unknown>"   # an exception of a type the analysis cannot name (opaque callee, user code)


def fkey(f):
    return (f["unit"], f["id"])


class CallGraph:
    """Resolved call graph over all functions with bodies.

    edges[key] = list of (callee_key | None, node, kind) with kind in
      'call'      direct / member / operator call with a resolved callee
      'virtual'   one edge per overrider of a virtual callee
      'ctor'      constructor call
      'dtor'      implicit destructor of an automatic object
      'lambda'    closure created here and handed to an invoking std algorithm
      'indirect'  call through std::function / function pointer (callee None)
      'dep'       unresolved dependent call in a template pattern (callee None)
    """

    def __init__(self, prog):
        self.prog = prog
        self.edges = {}
        self.ext_calls = {}      # key -> list of (decl, node) for callees without bodies
        self.overriders = {}     # (unit, id) of a virtual method -> set of (unit,id) of overriding methods (transitive)
        self._build_overriders()
        for f in prog.fns:
            self._scan(f)

    def _build_overriders(self):
        prog = self.prog
        direct = {}
        for (u, i), d in prog.decls.items():
            for o in d.get("overrides", []):
                direct.setdefault((u, o), set()).add((u, i))
        # transitive closure
        for k in list(direct):
            seen = set()
            stack = list(direct[k])
            while stack:
                x = stack.pop()
                if x in seen:
                    continue
                seen.add(x)
                stack.extend(direct.get(x, ()))
            self.overriders[k] = seen

    def _scan(self, f):
        prog = self.prog
        u = f["unit"]
        out = []
        ext = []
        roots = [f["body"]] + [i.get("init") for i in f.get("inits", []) if i.get("init")]
        for root in roots:
            for n in walk(root):
                k = n.get("k")
                if k == "call":
                    fid = n.get("fn")
                    if fid is not None:
                        d = prog.decls.get((u, fid))
                        tgt = prog._by_id.get((u, fid))
                        if n.get("virt"):
                            tgts = set()
                            if tgt is not None:
                                tgts.add(fkey(tgt))
                            for o in self.overriders.get((u, fid), ()):
                                t2 = prog._by_id.get(o)
                                if t2 is not None:
                                    tgts.add(fkey(t2))
                            for t in tgts:
                                out.append((t, n, "virtual"))
                            if not tgts:
                                ext.append((d, n))
                        elif tgt is not None:
                            out.append((fkey(tgt), n, "call"))
                        else:
                            ext.append((d, n))
                            if d is not None and models.invokes_callable_args(d["q"]):
                                for a in n.get("args", []):
                                    for x in walk(a):
                                        if x.get("k") == "lambda" and x.get("fn") is not None:
                                            t2 = prog._by_id.get((u, x["fn"]))
                                            if t2 is not None:
                                                out.append((fkey(t2), n, "lambda"))
                            if d is not None and models.is_opaque_call(d["q"]):
                                out.append((None, n, "indirect"))
                    elif n.get("indirect"):
                        out.append((None, n, "indirect"))
                    elif n.get("dep"):
                        out.append((None, n, "dep"))
                elif k == "construct":
                    fid = n.get("fn")
                    if fid is not None:
                        tgt = prog._by_id.get((u, fid))
                        if tgt is not None:
                            out.append((fkey(tgt), n, "ctor"))
                        else:
                            ext.append((prog.decls.get((u, fid)), n))
                elif k == "decl":
                    for v in n.get("vars", []):
                        if v.get("dtor") is not None:
                            tgt = prog._by_id.get((u, v["dtor"]))
                            if tgt is not None:
                                out.append((fkey(tgt), n, "dtor"))
        self.edges[fkey(f)] = out
        self.ext_calls[fkey(f)] = ext

    def callees(self, key):
        return [c for c, _, _ in self.edges.get(key, []) if c is not None]

    def reachable(self, keys, stop=None):
        seen = set()
        stack = list(keys)
        while stack:
            k = stack.pop()
            if k in seen:
                continue
            seen.add(k)
            if stop and stop(k):
                continue
            stack.extend(self.callees(k))
        return seen

    def sccs(self, keys=None):
        """Tarjan; returns list of SCCs (lists of keys) restricted to keys (default: all)."""
        keys = set(self.edges) if keys is None else set(keys)
        index = {}
        low = {}
        onstack = set()
        st = []
        out = []
        counter = [0]
        for root in keys:
            if root in index:
                continue
            work = [(root, iter([c for c in self.callees(root) if c in keys]))]
            index[root] = low[root] = counter[0]
            counter[0] += 1
            st.append(root)
            onstack.add(root)
            while work:
                v, it = work[-1]
                advanced = False
                for w in it:
                    if w not in index:
                        index[w] = low[w] = counter[0]
                        counter[0] += 1
                        st.append(w)
                        onstack.add(w)
                        work.append((w, iter([c for c in self.callees(w) if c in keys])))
                        advanced = True
                        break
                    elif w in onstack:
                        low[v] = min(low[v], index[w])
                if advanced:
                    continue
                work.pop()
                if work:
                    pv = work[-1][0]
                    low[pv] = min(low[pv], low[v])
                if low[v] == index[v]:
                    comp = []
                    while True:
                        w = st.pop()
                        onstack.discard(w)
                        comp.append(w)
                        if w == v:
                            break
                    out.append(comp)
        return out


_cg_cache = {}


def callgraph(prog):
    if id(prog) not in _cg_cache:
        _cg_cache[id(prog)] = CallGraph(prog)
    return _cg_cache[id(prog)]


# ----------------------------------------------------------------------------- exception flow

class Hierarchy:
    def __init__(self, prog):
        self.bases = {}
        for q, r in prog.records.items():
            self.bases[q] = [b.get("q") for b in r.get("bases", []) if b.get("q")]
        for k, v in models.STD_EXCEPTION_BASES.items():
            self.bases.setdefault(k, v)

    def is_a(self, t, base):
        if t == base:
            return True
        seen = set()
        stack = [t]
        while stack:
            x = stack.pop()
            if x in seen:
                continue
            seen.add(x)
            for b in self.bases.get(x, []):
                if b == base:
                    return True
                stack.append(b)
        return False


def norm_type(t):
    t = t.strip()
    t = re.sub(r"^const\s+", "", t)
    t = re.sub(r"\s*&+$", "", t)
    t = re.sub(r"\s+const$", "", t)
    return t.strip()


class ExceptionFlow:
    """may_throw(f): set of exception type names that can leave f (UNKNOWN for opaque sources)."""

    def __init__(self, prog, cg=None, opaque_throws=True, only=None, cut=None, site_filter=None):
        """only: restrict the fixpoint to these function keys (callees outside contribute nothing);
        cut(fn) -> True: calls into fn contribute nothing (decided elsewhere);
        site_filter(fn, node, types) -> types: client knowledge about one call site (allow-list)."""
        self.prog = prog
        self.cg = cg or callgraph(prog)
        self.h = Hierarchy(prog)
        self.opaque_throws = opaque_throws
        self.only = only
        self.cut = cut
        self.site_filter = site_filter
        self.mt = {}
        self.unmodelled_ext = {}
        self._solve()

    # which of `types` does a handler for `ht` (None = catch-all) catch
    def catches(self, ht, t):
        if ht is None:
            return True
        if t == UNKNOWN:
            return False
        return self.h.is_a(t, ht)

    def _ext_throws(self, d, n, f):
        if d is None:
            return set()
        q = d["q"]
        r = models.ext_throws(q)
        if r is None:
            self.unmodelled_ext[re.sub(r"<.*>", "<>", q)] = self.unmodelled_ext.get(re.sub(r"<.*>", "<>", q), 0) + 1
            return set()
        return set(r)

    def _solve(self):
        prog = self.prog
        fns = {(f["unit"], f["id"]): f for f in prog.fns if self.only is None or (f["unit"], f["id"]) in self.only}
        for k in fns:
            self.mt[k] = set()
        changed = True
        rounds = 0
        order = list(fns)
        while changed and rounds < 60:
            changed = False
            rounds += 1
            for k in order:
                f = fns[k]
                new = self.escaping_fn(f)
                if f.get("noexcept"):
                    # std::terminate instead of propagation
                    self.noexcept_escape = getattr(self, "noexcept_escape", {})
                    if new:
                        self.noexcept_escape[k] = set(new)
                    new = set()
                if new != self.mt[k]:
                    if not new >= self.mt[k]:
                        new = new | self.mt[k]
                    if new != self.mt[k]:
                        self.mt[k] = new
                        changed = True
        self.rounds = rounds

    def escaping_fn(self, f):
        out = set()
        for i in f.get("inits", []):
            if i.get("init"):
                out |= self.escaping(f, i["init"], None)
        out |= self.escaping(f, f["body"], None)
        return out

    def node_throws(self, f, n):
        out = self._node_throws(f, n)
        if out and self.site_filter is not None:
            out = set(self.site_filter(f, n, out))
        return out

    def _callee_mt(self, tgt):
        if self.cut is not None and self.cut(tgt):
            return set()
        return self.mt.get((tgt["unit"], tgt["id"]), set())

    def _node_throws(self, f, n):
        """Exception types raised directly by evaluating node n itself (not its children)."""
        prog = self.prog
        u = f["unit"]
        k = n.get("k")
        out = set()
        if k == "throw":
            if n.get("rethrow"):
                return None  # handled by caller (needs handler context)
            out.add(norm_type(prog.T(f, n.get("tt"))))
        elif k == "call":
            fid = n.get("fn")
            if fid is not None:
                tgt = prog._by_id.get((u, fid))
                if n.get("virt"):
                    tg = set()
                    if tgt is not None:
                        tg.add((tgt["unit"], tgt["id"]))
                    for o in self.cg.overriders.get((u, fid), ()):
                        if o in self.mt:
                            tg.add(o)
                    for t in tg:
                        tf = prog._by_id.get(t)
                        out |= self._callee_mt(tf) if tf is not None else set()
                elif tgt is not None:
                    out |= self._callee_mt(tgt)
                else:
                    d = prog.decls.get((u, fid))
                    out |= self._ext_throws(d, n, f)
                    if d is not None and models.invokes_callable_args(d["q"]):
                        for a in n.get("args", []):
                            for x in walk(a):
                                if x.get("k") == "lambda" and x.get("fn") is not None:
                                    t2 = prog._by_id.get((u, x["fn"]))
                                    if t2 is not None:
                                        out |= self._callee_mt(t2)
            elif n.get("indirect") and self.opaque_throws:
                out.add(UNKNOWN)
        elif k == "construct":
            fid = n.get("fn")
            if fid is not None:
                tgt = prog._by_id.get((u, fid))
                if tgt is not None:
                    out |= self._callee_mt(tgt)
                else:
                    out |= self._ext_throws(prog.decls.get((u, fid)), n, f)
        elif k == "cast" and n.get("ck") == "dynamic":
            if prog.T(f, n.get("t")).endswith("&"):
                out.add("std::bad_cast")
        elif k == "decl":
            for v in n.get("vars", []):
                if v.get("dtor") is not None:
                    tgt = prog._by_id.get((u, v["dtor"]))
                    if tgt is not None:
                        out |= self._callee_mt(tgt)
        return out

    def escaping(self, f, n, caught):
        """Types escaping node n.  caught: the set of types caught by the innermost enclosing handler
        (for `throw;`), or None outside handlers."""
        if not isinstance(n, dict):
            return set()
        k = n.get("k")
        if k == "lambda":
            # the closure's body runs when it is called; its init-captures are evaluated here
            out = set()
            for c in n.get("caps", []):
                if isinstance(c, dict) and c.get("init") is not None:
                    out |= self.escaping(f, c["init"], caught)
            return out
        if k == "try":
            body = self.escaping(f, n["body"], caught)
            out = set()
            remaining = set(body)
            for h in n.get("handlers", []):
                ht = None if h.get("all") else norm_type(self.prog.T(f, h.get("bt")))
                got = {t for t in remaining if self.catches(ht, t)}
                # an UNKNOWN exception may also be caught by a typed handler
                maybe_unknown = UNKNOWN in remaining and ht is not None
                if h.get("all") and UNKNOWN in remaining:
                    got.add(UNKNOWN)
                remaining -= {t for t in got if not (t == UNKNOWN and not h.get("all"))}
                hc = set(got)
                if maybe_unknown:
                    hc.add(UNKNOWN)
                out |= self.escaping(f, h["body"], hc)
            return out | remaining
        if k == "if" and n.get("constexpr") and "cv" in n:
            out = set()
            for key in ("init", "cond"):
                if n.get(key):
                    out |= self.escaping(f, n[key], caught)
            arm = n.get("then") if n["cv"] else n.get("else")
            if arm:
                out |= self.escaping(f, arm, caught)
            return out
        own = self.node_throws(f, n)
        out = set()
        if own is None:
            out |= caught if caught is not None else {UNKNOWN}
        else:
            out |= own
        for c in children(n):
            out |= self.escaping(f, c, caught)
        return out


_ef_cache = {}


def exception_flow(prog):
    if id(prog) not in _ef_cache:
        _ef_cache[id(prog)] = ExceptionFlow(prog)
    return _ef_cache[id(prog)]
