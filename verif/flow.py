"""Structured-tree flow helpers (A3): the analysed code base has no goto, so dominance and
must-pass-through are exact on the statement tree."""
from .ir import children, walk, parents, ancestors

STMT_KINDS = {"block", "decl", "if", "while", "do", "for", "rangefor", "switch", "case", "default", "break", "continue",
              "return", "try", "null", "label", "goto", "attributed", "otherstmt"}


def is_stmt(n):
    return isinstance(n, dict) and n.get("k") in STMT_KINDS


# ----------------------------------------------------------------------------- switch tables

def switch_groups(sw):
    """switch node -> list of groups {labels:[{'v','ename','default'}], stmts:[...], fallsthrough:bool}
    A group starts at a case/default label and extends to the next label at the same level."""
    body = sw.get("body")
    stmts = body.get("s", []) if body and body.get("k") == "block" else ([body] if body else [])
    groups = []
    cur = None

    def open_label(n):
        labels = []
        while isinstance(n, dict) and n.get("k") in ("case", "default"):
            if n["k"] == "case":
                labels.append({"v": n.get("v"), "ename": n.get("ename"), "eq": n.get("eq"), "l": n.get("l"), "e": n.get("e")})
            else:
                labels.append({"default": True, "l": n.get("l")})
            n = n.get("sub")
        return labels, n

    for s in stmts:
        if isinstance(s, dict) and s.get("k") in ("case", "default"):
            labels, first = open_label(s)
            if cur is not None and not cur["stmts"]:
                # 'case A: case B:' written as siblings
                cur["labels"].extend(labels)
            else:
                cur = {"labels": labels, "stmts": []}
                groups.append(cur)
            if first is not None:
                cur["stmts"].append(first)
        else:
            if cur is None:
                cur = {"labels": [], "stmts": []}
                groups.append(cur)
            cur["stmts"].append(s)
    for g in groups:
        g["fallsthrough"] = not (g["stmts"] and always_exits(g["stmts"][-1], in_switch=True)) if g["stmts"] else True
    return groups


# ----------------------------------------------------------------------------- exits

def always_exits(n, in_switch=False, noreturn=None):
    """True if statement n never completes normally (return / throw / break / continue on all paths).
    break/continue count as exits of the enclosing sequence."""
    if not isinstance(n, dict):
        return False
    k = n.get("k")
    if k in ("return", "break", "continue", "goto"):
        return True
    if k == "throw":
        return True
    if k == "call" and noreturn and noreturn(n):
        return True
    if k == "block":
        return any(always_exits(s, in_switch, noreturn) for s in n.get("s", []))
    if k == "if":
        if n.get("constexpr") and "cv" in n:
            arm = n.get("then") if n["cv"] else n.get("else")
            return always_exits(arm, in_switch, noreturn) if arm else False
        return bool(n.get("else")) and always_exits(n.get("then"), in_switch, noreturn) and always_exits(n.get("else"), in_switch, noreturn)
    if k == "try":
        return always_exits(n.get("body"), in_switch, noreturn) and all(always_exits(h.get("body"), in_switch, noreturn) for h in n.get("handlers", []))
    if k in ("case", "default", "label", "attributed"):
        return always_exits(n.get("sub"), in_switch, noreturn)
    if k == "switch":
        gs = switch_groups(n)
        has_default = any(any(l.get("default") for l in g["labels"]) for g in gs)
        if not has_default:
            return False
        # every group must end in return/throw (a break leaves the switch normally)
        for g in gs:
            if not g["stmts"]:
                continue
        return all(_exits_not_break(g["stmts"]) for g in gs if g["stmts"]) and bool(gs)
    if k == "do":
        return always_exits(n.get("body"), in_switch, noreturn) and not _has_break(n.get("body"))
    return False


def _exits_not_break(stmts):
    last = stmts[-1]
    return always_exits(last) and not _ends_in_break(last)


def _ends_in_break(n):
    if not isinstance(n, dict):
        return False
    k = n.get("k")
    if k == "break":
        return True
    if k == "block":
        for s in n.get("s", []):
            if always_exits(s):
                return _ends_in_break(s)
        return False
    if k == "if":
        return _ends_in_break(n.get("then")) or _ends_in_break(n.get("else"))
    return False


def _has_break(n):
    for x in walk(n):
        if x.get("k") == "break":
            return True
    return False


# ----------------------------------------------------------------------------- unconditional sub-expressions

def uncond_exprs(n):
    """Nodes evaluated whenever statement/expression n is evaluated and completes normally
    (skips arms of if/?:, right operands of && ||, loop bodies, handlers, lambda bodies)."""
    if not isinstance(n, dict):
        return
    k = n.get("k")
    yield n
    if k == "if":
        for key in ("init", "condvar", "cond"):
            if n.get(key):
                yield from uncond_exprs(n[key])
        if n.get("constexpr") and "cv" in n:
            arm = n.get("then") if n["cv"] else n.get("else")
            if arm:
                yield from uncond_exprs(arm)
        return
    if k in ("while",):
        yield from uncond_exprs(n.get("cond"))
        return
    if k == "for":
        for key in ("init", "cond"):
            if n.get(key):
                yield from uncond_exprs(n[key])
        return
    if k == "do":
        yield from uncond_exprs(n.get("body"))
        yield from uncond_exprs(n.get("cond"))
        return
    if k == "rangefor":
        yield from uncond_exprs(n.get("range"))
        return
    if k == "switch":
        yield from uncond_exprs(n.get("cond"))
        return
    if k == "try":
        # the body completed normally or a handler did: nothing is certain
        return
    if k == "block":
        for s in n.get("s", []):
            yield from uncond_exprs(s)
            if always_exits(s):
                break
        return
    if k in ("case", "default", "label", "attributed"):
        yield from uncond_exprs(n.get("sub"))
        return
    if k == "binop" and n.get("op") in ("&&", "||"):
        yield from uncond_exprs(n.get("lhs"))
        return
    if k == "cond":
        yield from uncond_exprs(n.get("c"))
        return
    if k == "lambda":
        return
    for c in children(n):
        yield from uncond_exprs(c)


# ----------------------------------------------------------------------------- dominators & facts

class FnFlow:
    """Per-function parent map plus dominance queries."""

    def __init__(self, fn):
        self.fn = fn
        self.body = fn["body"]
        self.pm = parents(self.body)

    def parent(self, n):
        return self.pm.get(id(n))

    def ancestors(self, n):
        return ancestors(self.pm, n)

    def enclosing(self, n, kind):
        for a in self.ancestors(n):
            if a.get("k") == kind:
                return a
        return None

    def dominating(self, n):
        """Yield expression/statement nodes that are evaluated on every path from function entry
        to n (structured approximation, exact without goto): earlier siblings in enclosing
        sequences (their unconditional parts), conditions of enclosing if/while/for/switch,
        earlier operands of the enclosing expression."""
        cur = n
        for a in self.ancestors(n):
            k = a.get("k")
            if k == "block":
                sibs = a.get("s", [])
                idx = next((i for i, s in enumerate(sibs) if s is cur), None)
                if idx is not None:
                    in_switch = self.parent(a) is not None and self.parent(a).get("k") == "switch"
                    i = idx - 1
                    while i >= 0:
                        s = sibs[i]
                        if in_switch and s.get("k") in ("case", "default"):
                            # entering at this label: its sub statement runs, earlier ones may not
                            sub = s
                            while isinstance(sub, dict) and sub.get("k") in ("case", "default"):
                                sub = sub.get("sub")
                            if sub is not None:
                                yield from uncond_exprs(sub)
                            break
                        yield from uncond_exprs(s)
                        i -= 1
                    if in_switch and cur.get("k") in ("case", "default"):
                        pass
            elif k == "if":
                for key in ("init", "condvar", "cond"):
                    if a.get(key) is not None and a.get(key) is not cur:
                        yield from uncond_exprs(a[key])
            elif k in ("while",):
                if a.get("cond") is not cur:
                    yield from uncond_exprs(a.get("cond"))
            elif k == "for":
                if cur is a.get("body") or cur is a.get("inc"):
                    for key in ("init", "cond"):
                        if a.get(key):
                            yield from uncond_exprs(a[key])
                elif cur is a.get("cond") and a.get("init"):
                    yield from uncond_exprs(a["init"])
            elif k == "rangefor":
                if cur is a.get("body"):
                    yield from uncond_exprs(a.get("range"))
            elif k == "switch":
                if cur is not a.get("cond"):
                    yield from uncond_exprs(a.get("cond"))
            elif k == "do":
                pass
            elif k == "try":
                pass
            elif k in ("case", "default", "label", "attributed", "decl", "return"):
                pass
            elif k == "binop" and a.get("op") in ("&&", "||"):
                if cur is a.get("rhs"):
                    yield from uncond_exprs(a.get("lhs"))
            elif k == "cond":
                if cur is not a.get("c"):
                    yield from uncond_exprs(a.get("c"))
            elif k in ("call", "construct", "binop", "assign", "initlist"):
                # earlier arguments are not sequenced before later ones in general; skip
                pass
            cur = a

    def facts(self, n):
        """Yield (cond_expr, truth) pairs known to hold when n is reached:
        enclosing if arms, right operands of && / ||, and earlier 'if (c) <always exits>' siblings."""
        cur = n
        for a in self.ancestors(n):
            k = a.get("k")
            if k == "if":
                if cur is a.get("then"):
                    yield (a["cond"], True)
                elif cur is a.get("else"):
                    yield (a["cond"], False)
            elif k in ("while", "for") and cur is a.get("body") and a.get("cond"):
                yield (a["cond"], True)
            elif k == "binop" and a.get("op") == "&&" and cur is a.get("rhs"):
                yield (a["lhs"], True)
            elif k == "binop" and a.get("op") == "||" and cur is a.get("rhs"):
                yield (a["lhs"], False)
            elif k == "cond":
                if cur is a.get("a"):
                    yield (a["c"], True)
                elif cur is a.get("b"):
                    yield (a["c"], False)
            elif k == "block":
                sibs = a.get("s", [])
                idx = next((i for i, s in enumerate(sibs) if s is cur), None)
                if idx is not None:
                    in_switch = self.parent(a) is not None and self.parent(a).get("k") == "switch"
                    i = idx - 1
                    while i >= 0:
                        s = sibs[i]
                        if in_switch and s.get("k") in ("case", "default"):
                            break
                        for pf in post_facts(s):
                            yield pf
                        for pf in call_guard_facts(self.fn, s):
                            yield pf
                        i -= 1
            cur = a


PROG = None      # set by core.Check.program(): lets facts() look into small guard helpers that are called as statements


def call_guard_facts(fn, s, depth=0):
    """`check(a, b);` as a statement, where check's body is a sequence of `if (C) <always exits>` (a guard helper): after the call
    every such C, with the helper's parameters replaced by the call's arguments, is false."""
    if PROG is None or not isinstance(s, dict) or depth > 1:
        return []
    c = s
    if c.get("k") in ("expr", "exprstmt") and isinstance(c.get("e"), dict):
        c = c["e"]
    c = strip_casts(c)
    if not (isinstance(c, dict) and c.get("k") == "call" and c.get("fn") is not None):
        return []
    callee = PROG.fn_by_id(fn, c["fn"])
    if callee is None or not callee.get("body") or callee is fn or not str(callee.get("file", "")).startswith("include/"):
        return []
    body = callee["body"]
    stmts = body.get("s", []) if body.get("k") == "block" else [body]
    if not stmts or len(stmts) > 6:
        return []
    args = [a for a in (c.get("args") or [])]
    out = []
    for st in stmts:
        if not (st.get("k") == "if" and not st.get("constexpr")):
            return []          # anything else in the helper: not a pure guard
        for cond, truth in post_facts(st):
            out.append((_subst_params(cond, args), truth))
    return out


def _subst_params(e, args):
    if isinstance(e, list):
        return [_subst_params(x, args) for x in e]
    if not isinstance(e, dict):
        return e
    if e.get("k") == "ref" and e.get("rk") == "param" and isinstance(e.get("idx"), int) and e["idx"] < len(args):
        return args[e["idx"]]
    return {k: (_subst_params(v, args) if isinstance(v, (dict, list)) else v) for k, v in e.items()}


def post_facts(s):
    """(cond, truth) pairs that hold whenever statement s completes normally
    (`if (c) <exits> else S` gives c false plus S's own post-facts, recursively).
    Assumes the tested expressions are not reassigned in between (guards in this code base test
    parameters / fresh locals)."""
    out = []
    if not isinstance(s, dict):
        return out
    k = s.get("k")
    if k == "if" and not s.get("constexpr"):
        th, el = s.get("then"), s.get("else")
        if always_exits(th):
            out.append((s["cond"], False))
            if el is not None:
                out += post_facts(el)
        elif el is not None and always_exits(el):
            out.append((s["cond"], True))
            out += post_facts(th)
    elif k == "if" and s.get("constexpr") and "cv" in s:
        arm = s.get("then") if s["cv"] else s.get("else")
        if arm is not None:
            out += post_facts(arm)
    elif k == "block":
        for x in s.get("s", []):
            out += post_facts(x)
    return out


def split_cond(cond, truth):
    """Decompose (cond, truth) through !, &&, || into atomic (expr, truth) facts that must hold."""
    out = []
    stack = [(cond, truth)]
    while stack:
        c, t = stack.pop()
        if not isinstance(c, dict):
            continue
        k = c.get("k")
        if k == "unop" and c.get("op") == "!":
            stack.append((c["e"], not t))
        elif k == "binop" and c.get("op") == "&&" and t:
            stack.append((c["lhs"], True))
            stack.append((c["rhs"], True))
        elif k == "binop" and c.get("op") == "||" and not t:
            stack.append((c["lhs"], False))
            stack.append((c["rhs"], False))
        elif k == "call" and c.get("op") == "!" and c.get("obj") is not None:
            stack.append((c["obj"], not t))
        else:
            out.append((c, t))
    return out


def atomic_facts(flow, n, expand=True):
    """atomic (expr, truth) facts that hold at n.  A fact about a bool local that is initialised once and never assigned again
    (`const bool outermost = depth == 0; if (outermost) ..`) is also reported as the facts its initialiser splits into (the usual
    assumption of post-facts applies: the tested operands are not changed between the declaration and n)."""
    fn = flow.fn
    bools = None
    for c, t in flow.facts(n):
        for a, ta in split_cond(c, t):
            yield a, ta
            if not expand:
                continue
            seen = 0
            work = [(a, ta)]
            while work and seen < 8:
                x, tx = work.pop()
                x2 = strip_casts(x)
                if not (isinstance(x2, dict) and x2.get("k") == "ref" and x2.get("rk") == "local"):
                    continue
                if bools is None:
                    bools = {}
                    assigned = set()
                    for d in walk(fn["body"]):
                        if d.get("k") == "decl":
                            for v in d["vars"]:
                                if v.get("init") is not None and not v.get("ref"):
                                    bools[v["vid"]] = v
                        elif d.get("k") == "assign":
                            assigned.add(strip_casts(d["lhs"]).get("vid"))
                        elif d.get("k") == "unop" and d.get("op") in ("++", "--"):
                            assigned.add(strip_casts(d["e"]).get("vid"))
                    for vid in assigned:
                        bools.pop(vid, None)
                v = bools.get(x2.get("vid"))
                if v is None:
                    continue
                init = strip_casts(v["init"])
                while isinstance(init, dict) and init.get("k") == "paren":
                    init = strip_casts(init.get("e"))
                if not isinstance(init, dict) or init.get("k") not in ("binop", "unop", "call"):
                    continue
                seen += 1
                for b, tb in split_cond(init, tx):
                    yield b, tb
                    work.append((b, tb))


def strip_casts(e):
    while isinstance(e, dict):
        k = e.get("k")
        if k in ("cast", "defarg", "definit", "opaque", "stdinitlist"):
            e = e.get("e")
        elif k == "construct" and e.get("copy") and len(e.get("args", [])) == 1:
            # a copy/move construct of a single argument is transparent for identity purposes
            e = e["args"][0]
        else:
            break
    return e


def same_var(a, b):
    a, b = strip_casts(a), strip_casts(b)
    if not isinstance(a, dict) or not isinstance(b, dict):
        return False
    if a.get("k") == "ref" and b.get("k") == "ref":
        if "vid" in a and "vid" in b:
            return a["vid"] == b["vid"]
        return a.get("rk") == b.get("rk") and a.get("name") == b.get("name") and a.get("q") == b.get("q")
    if a.get("k") == "this" and b.get("k") == "this":
        return True
    if a.get("k") == "member" and b.get("k") == "member":
        return a.get("name") == b.get("name") and same_base(a.get("base"), b.get("base"))
    if a.get("k") == "unop" and b.get("k") == "unop" and a.get("op") == b.get("op"):
        return same_var(a.get("e"), b.get("e"))
    if a.get("k") == "subscript" and b.get("k") == "subscript":
        return same_var(a.get("base"), b.get("base")) and _same_index(a.get("idx"), b.get("idx"))
    if a.get("k") == "call" and b.get("k") == "call" and a.get("op") == "[]" and b.get("op") == "[]":
        aa, ba = a.get("args", []), b.get("args", [])
        return same_base(a.get("obj"), b.get("obj")) and len(aa) == len(ba) == 1 and _same_index(aa[0], ba[0])
    return False


def _same_index(a, b):
    a, b = strip_casts(a), strip_casts(b)
    if not isinstance(a, dict) or not isinstance(b, dict):
        return False
    if a.get("k") == "lit" and b.get("k") == "lit":
        return a.get("v") == b.get("v")
    return same_var(a, b)


def same_base(a, b):
    if a is None and b is None:
        return True
    if a is None:
        return isinstance(b, dict) and strip_casts(b).get("k") == "this"
    if b is None:
        return isinstance(a, dict) and strip_casts(a).get("k") == "this"
    return same_var(a, b)


def expr_str(prog, fn, e, depth=0):
    """Compact rendering of an expression for diagnostics / instance identities."""
    if not isinstance(e, dict):
        return "?"
    if depth > 6:
        return "…"
    k = e.get("k")
    r = lambda x: expr_str(prog, fn, x, depth + 1)
    if k == "ref":
        return e.get("name", "?")
    if k == "member":
        b = e.get("base")
        if b is None or strip_casts(b).get("k") == "this":
            return e.get("name", "?")
        return r(b) + ("->" if e.get("arrow") else ".") + e.get("name", "?")
    if k == "call":
        args = ",".join(r(a) for a in e.get("args", []))
        if e.get("op"):
            if e.get("obj") is not None:
                return "(%s %s %s)" % (r(e["obj"]), e["op"], args)
            return "(%s %s)" % (e["op"], args)
        nm = e.get("name") or "<indirect>"
        if e.get("obj") is not None:
            return "%s%s%s(%s)" % (r(e["obj"]), "->" if e.get("arrow") else ".", nm, args)
        return "%s(%s)" % (nm, args)
    if k == "construct":
        t = prog.T(fn, e.get("t")) if prog else "T"
        t = t.split("<")[0].split("::")[-1]
        return "%s{%s}" % (t, ",".join(r(a) for a in e.get("args", [])))
    if k == "lit":
        return repr(e.get("v")) if e.get("lt") == "string" else str(e.get("v"))
    if k == "unop":
        return ("%s%s" % (r(e["e"]), e["op"])) if e.get("post") else ("%s%s" % (e["op"], r(e["e"])))
    if k in ("binop", "assign"):
        return "%s %s %s" % (r(e["lhs"]), e["op"], r(e["rhs"]))
    if k == "cast":
        return "%s_cast(%s)" % (e.get("ck"), r(e["e"]))
    if k == "cond":
        return "%s ? %s : %s" % (r(e["c"]), r(e["a"]), r(e["b"]))
    if k == "this":
        return "this"
    if k == "subscript":
        return "%s[%s]" % (r(e["base"]), r(e["idx"]))
    if k == "throw":
        return "throw " + (r(e["e"]) if e.get("e") else "")
    if k == "lambda":
        return "<lambda>"
    if k in ("defarg", "definit", "opaque", "stdinitlist", "packexp"):
        return r(e.get("e"))
    if k == "initlist":
        return "{%s}" % ",".join(r(a) for a in e.get("args", []))
    return "<%s>" % k
