import sys, importlib
sys.path.insert(0,'/verif'); sys.setrecursionlimit(20000)
from verif import core, ir
pid=sys.argv[1]
mod=importlib.import_module('verif.rules.'+pid.lower())
chk=core.Check(pid.upper())
try:
    mod.run(chk)
except ir.AnalysisBroken as e:
    print("BROKEN", e)
for r in chk.rules:
    print("==", r.rid, r.title[:80], r.obligations, r.discharged)
    if len(sys.argv)>2 and (sys.argv[2]=='all' or sys.argv[2]==r.rid):
        for i in r.instances: print("   ", "ok " if i['ok'] else "BAD", i['instance'], i['where'])
    for n in r.notes: print("   note:", n)
print("VIOLATIONS")
for v in chk.violations: print(" ", v['rule'], v['instance'], v['where'], '--', v['detail'][:300])
