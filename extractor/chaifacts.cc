// chaifacts: generic fact extractor (libTooling, clang 14).
//
// For one translation unit, writes
//   <out>.funcs.jsonl  one JSON object per function body (structured tree)
//   <out>.meta.json    interned tables: types, function decls, records, static vars, stats
//
// It contains no knowledge about the analysed repository; everything
// repository-specific lives in the Python rule engine.
//
// usage: chaifacts --root <prefix> [--root <prefix2>] --out <prefix> [--max-inst N] -- file.cpp <flags>

#include "clang/AST/ASTConsumer.h"
#include "clang/AST/ASTContext.h"
#include "clang/AST/DeclCXX.h"
#include "clang/AST/DeclTemplate.h"
#include "clang/AST/ExprCXX.h"
#include "clang/AST/RecursiveASTVisitor.h"
#include "clang/AST/StmtCXX.h"
#include "clang/Basic/SourceManager.h"
#include "clang/Frontend/CompilerInstance.h"
#include "clang/Frontend/FrontendAction.h"
#include "clang/Tooling/CompilationDatabase.h"
#include "clang/Tooling/Tooling.h"
#include "llvm/Support/JSON.h"
#include "llvm/Support/raw_ostream.h"

#include <deque>
#include <map>
#include <set>
#include <string>
#include <unordered_map>
#include <vector>

using namespace clang;
namespace json = llvm::json;

namespace {

std::vector<std::string> g_roots;
std::string g_out;
unsigned g_max_inst = 0; // 0 = unlimited

struct Extractor {
  ASTContext &Ctx;
  SourceManager &SM;
  PrintingPolicy PP;

  std::unordered_map<const void *, unsigned> type_ids_by_ptr;
  std::unordered_map<std::string, unsigned> type_ids;
  std::vector<std::string> types;

  std::unordered_map<const Decl *, unsigned> fn_ids;
  std::vector<const FunctionDecl *> fns;

  std::unordered_map<const Decl *, unsigned> var_ids;

  std::deque<const FunctionDecl *> worklist;
  std::set<const FunctionDecl *> emitted;
  std::map<std::string, unsigned> inst_count; // per pattern location
  unsigned n_bodies = 0, n_stmts = 0, n_skipped_cap = 0;

  std::set<const CXXRecordDecl *> records;
  std::set<const VarDecl *> statics;
  std::set<const EnumDecl *> enums;
  std::map<std::string, unsigned> other_classes;

  llvm::raw_fd_ostream *FOut = nullptr;

  explicit Extractor(ASTContext &C) : Ctx(C), SM(C.getSourceManager()), PP(C.getLangOpts()) {
    PP.SuppressTagKeyword = true;
    PP.Bool = true;
    PP.FullyQualifiedName = true;
    PP.PrintCanonicalTypes = true;
    PP.SuppressUnwrittenScope = false;
    PP.SuppressInlineNamespace = true;
  }

  // ---------------------------------------------------------------- locations
  std::string locStr(SourceLocation L) {
    if (L.isInvalid())
      return "";
    L = SM.getExpansionLoc(L);
    PresumedLoc P = SM.getPresumedLoc(L);
    if (P.isInvalid())
      return "";
    return std::string(P.getFilename()) + ":" + std::to_string(P.getLine()) + ":" + std::to_string(P.getColumn());
  }
  unsigned lineOf(SourceLocation L) {
    if (L.isInvalid())
      return 0;
    return SM.getExpansionLineNumber(L);
  }
  bool inRoot(SourceLocation L) {
    if (L.isInvalid())
      return false;
    L = SM.getExpansionLoc(L);
    PresumedLoc P = SM.getPresumedLoc(L);
    if (P.isInvalid())
      return false;
    llvm::StringRef F(P.getFilename());
    for (auto &R : g_roots)
      if (F.startswith(R))
        return true;
    return false;
  }

  // ---------------------------------------------------------------- interning
  unsigned typeId(QualType T) {
    if (T.isNull())
      return 0;
    auto it = type_ids_by_ptr.find(T.getAsOpaquePtr());
    if (it != type_ids_by_ptr.end())
      return it->second;
    std::string S = T.getAsString(PP);
    auto it2 = type_ids.find(S);
    unsigned id;
    if (it2 != type_ids.end())
      id = it2->second;
    else {
      id = types.size();
      types.push_back(S);
      type_ids[S] = id;
    }
    type_ids_by_ptr[T.getAsOpaquePtr()] = id;
    return id;
  }

  unsigned fnId(const FunctionDecl *F) {
    const Decl *C = F->getCanonicalDecl();
    auto it = fn_ids.find(C);
    if (it != fn_ids.end())
      return it->second;
    unsigned id = fns.size();
    fn_ids[C] = id;
    fns.push_back(F);
    // schedule body emission if it has a body under a root
    const FunctionDecl *Def = nullptr;
    if (F->hasBody(Def) && Def && inRoot(Def->getLocation()))
      worklist.push_back(Def);
    return id;
  }

  unsigned varId(const Decl *V) {
    const Decl *C = V->getCanonicalDecl();
    auto it = var_ids.find(C);
    if (it != var_ids.end())
      return it->second;
    unsigned id = var_ids.size() + 1;
    var_ids[C] = id;
    return id;
  }

  std::unordered_map<const Decl *, unsigned> lambda_ord;   // lambda class -> ordinal within its enclosing function
  std::unordered_map<const Decl *, unsigned> lambda_count; // enclosing decl -> lambdas seen so far

  void noteLambda(const CXXRecordDecl *LC) {
    const Decl *C = LC->getCanonicalDecl();
    if (lambda_ord.count(C))
      return;
    const DeclContext *DC = LC->getDeclContext();
    while (DC && !isa<FunctionDecl>(DC) && !isa<CXXRecordDecl>(DC) && !isa<NamespaceDecl>(DC) && !isa<TranslationUnitDecl>(DC))
      DC = DC->getParent();
    const Decl *Key = DC ? cast<Decl>(DC)->getCanonicalDecl() : nullptr;
    lambda_ord[C] = ++lambda_count[Key];
  }

  void printTArgs(llvm::raw_ostream &OS, llvm::ArrayRef<TemplateArgument> Args) {
    OS << "<";
    bool first = true;
    for (auto &A : Args) {
      if (!first)
        OS << ", ";
      first = false;
      A.print(PP, OS, true);
    }
    OS << ">";
  }

  // Stable qualified name: namespaces, records (with template arguments), functions (with template
  // arguments, without parameter lists), lambdas as <lambda#N> (N-th lambda of the enclosing function).
  void printContext(llvm::raw_ostream &OS, const DeclContext *DC) {
    if (!DC || isa<TranslationUnitDecl>(DC))
      return;
    if (isa<LinkageSpecDecl>(DC) || isa<ExportDecl>(DC) || isa<RequiresExprBodyDecl>(DC)) {
      printContext(OS, DC->getParent());
      return;
    }
    if (auto *NS = dyn_cast<NamespaceDecl>(DC)) {
      printContext(OS, DC->getParent());
      if (NS->isInline())
        return;
      if (NS->isAnonymousNamespace())
        OS << "(anonymous)::";
      else
        OS << NS->getName() << "::";
      return;
    }
    if (auto *ND = dyn_cast<NamedDecl>(DC)) {
      printOwn(OS, ND);
      OS << "::";
      return;
    }
    printContext(OS, DC->getParent());
  }

  void printOwn(llvm::raw_ostream &OS, const NamedDecl *D) {
    if (auto *RD = dyn_cast<CXXRecordDecl>(D)) {
      printContext(OS, RD->getDeclContext());
      if (RD->isLambda()) {
        auto it = lambda_ord.find(RD->getCanonicalDecl());
        if (it != lambda_ord.end())
          OS << "<lambda#" << it->second << ">";
        else
          OS << "<lambda@" << lineOf(RD->getLocation()) << ":" << SM.getExpansionColumnNumber(RD->getLocation()) << ">";
        return;
      }
      if (RD->getIdentifier())
        OS << RD->getName();
      else
        OS << "(anonymous class)";
      if (auto *CTS = dyn_cast<ClassTemplateSpecializationDecl>(RD))
        printTArgs(OS, CTS->getTemplateArgs().asArray());
      return;
    }
    if (auto *FD = dyn_cast<FunctionDecl>(D)) {
      if (auto *M = dyn_cast<CXXMethodDecl>(FD))
        if (M->getParent()->isLambda()) {
          printOwn(OS, M->getParent());
          if (auto *Args = FD->getTemplateSpecializationArgs())
            printTArgs(OS, Args->asArray());
          return;
        }
      printContext(OS, FD->getDeclContext());
      OS << FD->getDeclName();
      if (auto *Args = FD->getTemplateSpecializationArgs())
        printTArgs(OS, Args->asArray());
      return;
    }
    printContext(OS, D->getDeclContext());
    OS << D->getDeclName();
  }

  std::string qname(const NamedDecl *D) {
    std::string S;
    llvm::raw_string_ostream OS(S);
    printOwn(OS, D);
    OS.flush();
    return S;
  }

  std::string fnQName(const FunctionDecl *F) { return qname(F); }

  // ---------------------------------------------------------------- expressions
  static const Expr *strip(const Expr *E) {
    while (E) {
      if (auto *P = dyn_cast<ParenExpr>(E))
        E = P->getSubExpr();
      else if (auto *I = dyn_cast<ImplicitCastExpr>(E))
        E = I->getSubExpr();
      else if (auto *C = dyn_cast<ExprWithCleanups>(E))
        E = C->getSubExpr();
      else if (auto *M = dyn_cast<MaterializeTemporaryExpr>(E))
        E = M->getSubExpr();
      else if (auto *B = dyn_cast<CXXBindTemporaryExpr>(E))
        E = B->getSubExpr();
      else if (auto *C2 = dyn_cast<ConstantExpr>(E))
        E = C2->getSubExpr();
      else if (auto *S = dyn_cast<SubstNonTypeTemplateParmExpr>(E))
        E = S->getReplacement();
      else
        break;
    }
    return E;
  }

  void emitExprOrNull(json::OStream &J, const Expr *E) {
    if (!E)
      J.value(nullptr);
    else
      emitExpr(J, E);
  }

  void emitRefTo(json::OStream &J, const ValueDecl *D, const Expr *E) {
    J.attribute("k", "ref");
    if (auto *EC = dyn_cast<EnumConstantDecl>(D)) {
      J.attribute("rk", "enum");
      J.attribute("name", EC->getNameAsString());
      J.attribute("q", qname(EC));
      J.attribute("v", EC->getInitVal().getExtValue());
    } else if (auto *FD = dyn_cast<FunctionDecl>(D)) {
      J.attribute("rk", "func");
      J.attribute("name", FD->getNameAsString());
      J.attribute("fn", fnId(FD));
    } else if (auto *PV = dyn_cast<ParmVarDecl>(D)) {
      J.attribute("rk", "param");
      J.attribute("name", PV->getNameAsString());
      J.attribute("vid", varId(PV));
      J.attribute("idx", PV->getFunctionScopeIndex());
    } else if (auto *VD = dyn_cast<VarDecl>(D)) {
      if (VD->hasLocalStorage())
        J.attribute("rk", "local");
      else if (VD->isStaticLocal())
        J.attribute("rk", "staticlocal");
      else
        J.attribute("rk", "global");
      J.attribute("name", VD->getNameAsString());
      if (!VD->hasLocalStorage())
        J.attribute("q", qname(VD));
      J.attribute("vid", varId(VD));
      if (!VD->hasLocalStorage() && inRoot(VD->getLocation()))
        statics.insert(VD->getCanonicalDecl());
    } else if (auto *BD = dyn_cast<BindingDecl>(D)) {
      J.attribute("rk", "binding");
      J.attribute("name", BD->getNameAsString());
      J.attribute("vid", varId(BD));
      if (auto *DD = BD->getDecomposedDecl())
        J.attribute("of", varId(DD));
    } else if (auto *FD2 = dyn_cast<FieldDecl>(D)) {
      J.attribute("rk", "field");
      J.attribute("name", FD2->getNameAsString());
      J.attribute("q", qname(FD2));
    } else if (auto *NT = dyn_cast<NonTypeTemplateParmDecl>(D)) {
      J.attribute("rk", "tparam");
      J.attribute("name", NT->getNameAsString());
    } else {
      J.attribute("rk", "other");
      J.attribute("name", D->getNameAsString());
      J.attribute("cls", D->getDeclKindName());
    }
    if (E)
      J.attribute("t", typeId(E->getType()));
  }

  void emitArgs(json::OStream &J, llvm::ArrayRef<const Expr *> Args) {
    J.attributeArray("args", [&] {
      for (auto *A : Args)
        emitExpr(J, A);
    });
  }

  void emitExpr(json::OStream &J, const Expr *E0) {
    const Expr *E = strip(E0);
    ++n_stmts;
    J.object([&] {
      J.attribute("l", lineOf(E->getExprLoc()));
      if (auto *DRE = dyn_cast<DeclRefExpr>(E)) {
        emitRefTo(J, DRE->getDecl(), E);
      } else if (auto *ME = dyn_cast<MemberExpr>(E)) {
        const ValueDecl *MD = ME->getMemberDecl();
        J.attribute("k", "member");
        J.attribute("name", MD->getNameAsString());
        J.attribute("q", qname(MD));
        J.attribute("arrow", ME->isArrow());
        if (auto *FD = dyn_cast<FunctionDecl>(MD))
          J.attribute("fn", fnId(FD));
        J.attribute("t", typeId(E->getType()));
        J.attributeBegin("base");
        emitExpr(J, ME->getBase());
        J.attributeEnd();
      } else if (auto *CE = dyn_cast<CXXOperatorCallExpr>(E)) {
        J.attribute("k", "call");
        J.attribute("op", getOperatorSpelling(CE->getOperator()));
        emitCallee(J, CE);
        J.attribute("t", typeId(E->getType()));
        std::vector<const Expr *> A(CE->arg_begin(), CE->arg_end());
        bool member = false;
        if (auto *FD = CE->getDirectCallee())
          if (auto *M = dyn_cast<CXXMethodDecl>(FD))
            member = !M->isStatic();
        if (member && !A.empty()) {
          J.attributeBegin("obj");
          emitExpr(J, A[0]);
          J.attributeEnd();
          A.erase(A.begin());
        }
        emitArgs(J, A);
      } else if (auto *MC = dyn_cast<CXXMemberCallExpr>(E)) {
        J.attribute("k", "call");
        emitCallee(J, MC);
        J.attribute("t", typeId(E->getType()));
        if (const Expr *O = MC->getImplicitObjectArgument()) {
          J.attributeBegin("obj");
          emitExpr(J, O);
          J.attributeEnd();
          if (auto *ME = dyn_cast<MemberExpr>(strip(MC->getCallee())))
            J.attribute("arrow", ME->isArrow());
        } else if (const Expr *Cal = MC->getCallee()) {
          // pointer-to-member call etc.
          J.attributeBegin("calleeexpr");
          emitExpr(J, Cal);
          J.attributeEnd();
        }
        std::vector<const Expr *> A(MC->arg_begin(), MC->arg_end());
        emitArgs(J, A);
      } else if (auto *C = dyn_cast<CallExpr>(E)) {
        J.attribute("k", "call");
        emitCallee(J, C);
        J.attribute("t", typeId(E->getType()));
        std::vector<const Expr *> A(C->arg_begin(), C->arg_end());
        emitArgs(J, A);
      } else if (auto *CC = dyn_cast<CXXConstructExpr>(E)) {
        J.attribute("k", "construct");
        J.attribute("t", typeId(E->getType()));
        if (auto *CD = CC->getConstructor()) {
          J.attribute("fn", fnId(CD));
          if (CD->isCopyOrMoveConstructor())
            J.attribute("copy", true);
        }
        if (CC->isListInitialization())
          J.attribute("list", true);
        if (isa<CXXTemporaryObjectExpr>(CC))
          J.attribute("temp", true);
        std::vector<const Expr *> A(CC->arg_begin(), CC->arg_end());
        emitArgs(J, A);
      } else if (auto *UC = dyn_cast<CXXUnresolvedConstructExpr>(E)) {
        J.attribute("k", "construct");
        J.attribute("dep", true);
        J.attribute("t", typeId(UC->getTypeAsWritten()));
        std::vector<const Expr *> A(UC->arg_begin(), UC->arg_end());
        emitArgs(J, A);
      } else if (auto *IL = dyn_cast<IntegerLiteral>(E)) {
        J.attribute("k", "lit");
        J.attribute("lt", "int");
        J.attribute("v", (int64_t)IL->getValue().getLimitedValue());
        J.attribute("t", typeId(E->getType()));
      } else if (auto *CL = dyn_cast<CharacterLiteral>(E)) {
        J.attribute("k", "lit");
        J.attribute("lt", "char");
        J.attribute("v", (int64_t)CL->getValue());
      } else if (auto *SL = dyn_cast<clang::StringLiteral>(E)) {
        J.attribute("k", "lit");
        J.attribute("lt", "string");
        if (SL->getCharByteWidth() == 1)
          J.attribute("v", json::fixUTF8(SL->getString()));
        else
          J.attribute("v", "<wide>");
      } else if (auto *BL = dyn_cast<CXXBoolLiteralExpr>(E)) {
        J.attribute("k", "lit");
        J.attribute("lt", "bool");
        J.attribute("v", BL->getValue());
      } else if (auto *FL = dyn_cast<FloatingLiteral>(E)) {
        J.attribute("k", "lit");
        J.attribute("lt", "float");
        J.attribute("v", FL->getValueAsApproximateDouble());
      } else if (isa<CXXNullPtrLiteralExpr>(E) || isa<GNUNullExpr>(E)) {
        J.attribute("k", "lit");
        J.attribute("lt", "nullptr");
      } else if (auto *UO = dyn_cast<UnaryOperator>(E)) {
        J.attribute("k", "unop");
        J.attribute("op", UnaryOperator::getOpcodeStr(UO->getOpcode()));
        if (UO->isPostfix())
          J.attribute("post", true);
        J.attribute("t", typeId(E->getType()));
        J.attributeBegin("e");
        emitExpr(J, UO->getSubExpr());
        J.attributeEnd();
      } else if (auto *BO = dyn_cast<BinaryOperator>(E)) {
        J.attribute("k", BO->isAssignmentOp() ? "assign" : "binop");
        J.attribute("op", BO->getOpcodeStr());
        J.attribute("t", typeId(E->getType()));
        if (auto *CAO = dyn_cast<CompoundAssignOperator>(BO))
          J.attribute("ct", typeId(CAO->getComputationResultType()));
        J.attributeBegin("lhs");
        emitExpr(J, BO->getLHS());
        J.attributeEnd();
        J.attributeBegin("rhs");
        emitExpr(J, BO->getRHS());
        J.attributeEnd();
      } else if (auto *RW = dyn_cast<CXXRewrittenBinaryOperator>(E)) {
        J.attribute("k", "rewritten");
        J.attributeBegin("e");
        emitExpr(J, RW->getSemanticForm());
        J.attributeEnd();
      } else if (auto *CO = dyn_cast<ConditionalOperator>(E)) {
        J.attribute("k", "cond");
        J.attribute("t", typeId(E->getType()));
        J.attributeBegin("c");
        emitExpr(J, CO->getCond());
        J.attributeEnd();
        J.attributeBegin("a");
        emitExpr(J, CO->getTrueExpr());
        J.attributeEnd();
        J.attributeBegin("b");
        emitExpr(J, CO->getFalseExpr());
        J.attributeEnd();
      } else if (auto *EC = dyn_cast<ExplicitCastExpr>(E)) {
        J.attribute("k", "cast");
        const char *ck = "cstyle";
        if (isa<CXXStaticCastExpr>(EC))
          ck = "static";
        else if (isa<CXXConstCastExpr>(EC))
          ck = "const";
        else if (isa<CXXReinterpretCastExpr>(EC))
          ck = "reinterpret";
        else if (isa<CXXDynamicCastExpr>(EC))
          ck = "dynamic";
        else if (isa<CXXFunctionalCastExpr>(EC))
          ck = "functional";
        J.attribute("ck", ck);
        J.attribute("t", typeId(EC->getTypeAsWritten()));
        J.attribute("from", typeId(EC->getSubExpr()->getType()));
        J.attribute("vk", EC->isLValue() ? "l" : (EC->isXValue() ? "x" : "pr"));
        J.attributeBegin("e");
        emitExpr(J, EC->getSubExpr());
        J.attributeEnd();
      } else if (isa<CXXThisExpr>(E)) {
        J.attribute("k", "this");
        J.attribute("t", typeId(E->getType()));
      } else if (auto *LE = dyn_cast<LambdaExpr>(E)) {
        J.attribute("k", "lambda");
        const CXXRecordDecl *LC = LE->getLambdaClass();
        noteLambda(LC);
        J.attribute("cls", typeId(Ctx.getRecordType(LC)));
        if (auto *Op = LE->getCallOperator())
          J.attribute("fn", fnId(Op));
        if (LE->isGenericLambda())
          J.attribute("generic", true);
        J.attributeArray("caps", [&] {
          auto InitIt = LE->capture_init_begin();
          for (auto CI = LE->capture_begin(); CI != LE->capture_end(); ++CI, ++InitIt) {
            J.object([&] {
              if (CI->capturesThis()) {
                J.attribute("name", "this");
                J.attribute("byref", CI->getCaptureKind() == LCK_This);
              } else if (CI->capturesVariable()) {
                J.attribute("name", CI->getCapturedVar()->getNameAsString());
                J.attribute("vid", varId(CI->getCapturedVar()));
                J.attribute("byref", CI->getCaptureKind() == LCK_ByRef);
                J.attribute("t", typeId(CI->getCapturedVar()->getType()));
                if (CI->getCapturedVar()->isInitCapture() && CI->getCapturedVar()->getInit()) {
                  J.attribute("initcap", true);
                  J.attributeBegin("init");
                  emitExpr(J, CI->getCapturedVar()->getInit());
                  J.attributeEnd();
                }
              }
              if (CI->isImplicit())
                J.attribute("implicit", true);
            });
          }
        });
        // generic lambdas: instantiations are reached through calls
      } else if (auto *NE = dyn_cast<CXXNewExpr>(E)) {
        J.attribute("k", "new");
        J.attribute("t", typeId(NE->getAllocatedType()));
        if (NE->getNumPlacementArgs() > 0)
          J.attribute("placement", true);
        if (NE->isArray())
          J.attribute("array", true);
        J.attributeBegin("init");
        emitExprOrNull(J, NE->getInitializer());
        J.attributeEnd();
      } else if (auto *DE = dyn_cast<CXXDeleteExpr>(E)) {
        J.attribute("k", "delete");
        J.attributeBegin("e");
        emitExpr(J, DE->getArgument());
        J.attributeEnd();
      } else if (auto *TE = dyn_cast<CXXThrowExpr>(E)) {
        J.attribute("k", "throw");
        if (TE->getSubExpr()) {
          J.attribute("tt", typeId(strip(TE->getSubExpr())->getType().getUnqualifiedType()));
          J.attributeBegin("e");
          emitExpr(J, TE->getSubExpr());
          J.attributeEnd();
        } else
          J.attribute("rethrow", true);
      } else if (auto *TI = dyn_cast<CXXTypeidExpr>(E)) {
        J.attribute("k", "typeid");
        if (TI->isTypeOperand())
          J.attribute("of", typeId(TI->getTypeOperandSourceInfo()->getType()));
        else {
          J.attributeBegin("e");
          emitExpr(J, TI->getExprOperand());
          J.attributeEnd();
        }
      } else if (auto *AS = dyn_cast<ArraySubscriptExpr>(E)) {
        J.attribute("k", "subscript");
        J.attribute("t", typeId(E->getType()));
        J.attributeBegin("base");
        emitExpr(J, AS->getBase());
        J.attributeEnd();
        J.attributeBegin("idx");
        emitExpr(J, AS->getIdx());
        J.attributeEnd();
      } else if (auto *ILE = dyn_cast<InitListExpr>(E)) {
        J.attribute("k", "initlist");
        J.attribute("t", typeId(E->getType()));
        std::vector<const Expr *> A;
        for (unsigned k = 0; k < ILE->getNumInits(); ++k)
          A.push_back(ILE->getInit(k));
        emitArgs(J, A);
      } else if (auto *SIL = dyn_cast<CXXStdInitializerListExpr>(E)) {
        J.attribute("k", "stdinitlist");
        J.attributeBegin("e");
        emitExpr(J, SIL->getSubExpr());
        J.attributeEnd();
      } else if (auto *UE = dyn_cast<UnaryExprOrTypeTraitExpr>(E)) {
        J.attribute("k", "sizeof");
        J.attribute("which", getTraitSpelling(UE->getKind()));
        if (UE->isArgumentType())
          J.attribute("of", typeId(UE->getArgumentType()));
        if (!E->isValueDependent()) {
          Expr::EvalResult R;
          if (E->EvaluateAsInt(R, Ctx))
            J.attribute("v", R.Val.getInt().getExtValue());
        }
      } else if (auto *DA = dyn_cast<CXXDefaultArgExpr>(E)) {
        J.attribute("k", "defarg");
        J.attributeBegin("e");
        emitExpr(J, DA->getExpr());
        J.attributeEnd();
      } else if (auto *DI = dyn_cast<CXXDefaultInitExpr>(E)) {
        J.attribute("k", "definit");
        J.attributeBegin("e");
        emitExprOrNull(J, DI->getExpr());
        J.attributeEnd();
      } else if (auto *SV = dyn_cast<CXXScalarValueInitExpr>(E)) {
        J.attribute("k", "valueinit");
        J.attribute("t", typeId(SV->getType()));
      } else if (auto *DM = dyn_cast<CXXDependentScopeMemberExpr>(E)) {
        J.attribute("k", "member");
        J.attribute("dep", true);
        J.attribute("name", DM->getMember().getAsString());
        J.attribute("arrow", DM->isArrow());
        if (!DM->isImplicitAccess()) {
          J.attributeBegin("base");
          emitExpr(J, DM->getBase());
          J.attributeEnd();
        }
      } else if (auto *UM = dyn_cast<UnresolvedMemberExpr>(E)) {
        J.attribute("k", "member");
        J.attribute("dep", true);
        J.attribute("name", UM->getMemberName().getAsString());
        J.attribute("arrow", UM->isArrow());
        if (!UM->isImplicitAccess()) {
          J.attributeBegin("base");
          emitExpr(J, UM->getBase());
          J.attributeEnd();
        }
      } else if (auto *UL = dyn_cast<UnresolvedLookupExpr>(E)) {
        J.attribute("k", "ref");
        J.attribute("rk", "unresolved");
        J.attribute("name", UL->getName().getAsString());
        std::string Q;
        if (auto *NNS = UL->getQualifier()) {
          llvm::raw_string_ostream OS(Q);
          NNS->print(OS, PP);
        }
        J.attribute("q", Q + UL->getName().getAsString());
      } else if (auto *DS = dyn_cast<DependentScopeDeclRefExpr>(E)) {
        J.attribute("k", "ref");
        J.attribute("rk", "unresolved");
        J.attribute("name", DS->getDeclName().getAsString());
        std::string Q;
        if (auto *NNS = DS->getQualifier()) {
          llvm::raw_string_ostream OS(Q);
          NNS->print(OS, PP);
        }
        J.attribute("q", Q + DS->getDeclName().getAsString());
      } else if (auto *PE = dyn_cast<PackExpansionExpr>(E)) {
        J.attribute("k", "packexp");
        J.attributeBegin("e");
        emitExpr(J, PE->getPattern());
        J.attributeEnd();
      } else if (auto *FE = dyn_cast<CXXFoldExpr>(E)) {
        J.attribute("k", "fold");
        J.attribute("op", BinaryOperator::getOpcodeStr(FE->getOperator()));
        J.attributeBegin("lhs");
        emitExprOrNull(J, FE->getLHS());
        J.attributeEnd();
        J.attributeBegin("rhs");
        emitExprOrNull(J, FE->getRHS());
        J.attributeEnd();
      } else if (auto *PL = dyn_cast<ParenListExpr>(E)) {
        J.attribute("k", "parenlist");
        std::vector<const Expr *> A;
        for (unsigned k = 0; k < PL->getNumExprs(); ++k)
          A.push_back(PL->getExpr(k));
        emitArgs(J, A);
      } else if (auto *NX = dyn_cast<CXXNoexceptExpr>(E)) {
        J.attribute("k", "lit");
        J.attribute("lt", "bool");
        if (!NX->isValueDependent())
          J.attribute("v", NX->getValue());
      } else if (auto *TT = dyn_cast<TypeTraitExpr>(E)) {
        J.attribute("k", "lit");
        J.attribute("lt", "bool");
        J.attribute("trait", true);
        if (!TT->isValueDependent())
          J.attribute("v", TT->getValue());
      } else if (auto *OV = dyn_cast<OpaqueValueExpr>(E)) {
        J.attribute("k", "opaque");
        J.attributeBegin("e");
        emitExprOrNull(J, OV->getSourceExpr());
        J.attributeEnd();
      } else if (auto *IVI = dyn_cast<ImplicitValueInitExpr>(E)) {
        J.attribute("k", "valueinit");
        J.attribute("t", typeId(IVI->getType()));
      } else if (auto *SP = dyn_cast<SizeOfPackExpr>(E)) {
        J.attribute("k", "sizeofpack");
        if (!SP->isValueDependent())
          J.attribute("v", SP->getPackLength());
      } else if (auto *PDE = dyn_cast<CXXPseudoDestructorExpr>(E)) {
        J.attribute("k", "pseudodtor");
        J.attributeBegin("e");
        emitExpr(J, PDE->getBase());
        J.attributeEnd();
      } else {
        J.attribute("k", "other");
        J.attribute("cls", E->getStmtClassName());
        other_classes[E->getStmtClassName()]++;
        J.attributeArray("ch", [&] {
          for (const Stmt *C : E->children()) {
            if (!C)
              J.value(nullptr);
            else if (auto *CE2 = dyn_cast<Expr>(C))
              emitExpr(J, CE2);
            else
              emitStmt(J, C);
          }
        });
      }
    });
  }

  void emitCallee(json::OStream &J, const CallExpr *C) {
    if (const FunctionDecl *FD = C->getDirectCallee()) {
      J.attribute("fn", fnId(FD));
      J.attribute("name", FD->getNameAsString());
      if (auto *M = dyn_cast<CXXMethodDecl>(FD)) {
        if (M->isVirtual()) {
          // a qualified call (Base::f()) is non-virtual
          bool qualified = false;
          if (auto *ME = dyn_cast<MemberExpr>(strip(C->getCallee())))
            qualified = ME->hasQualifier();
          if (!qualified)
            J.attribute("virt", true);
        }
      }
    } else {
      const Expr *Cal = strip(C->getCallee());
      if (auto *UL = dyn_cast<UnresolvedLookupExpr>(Cal)) {
        J.attribute("dep", true);
        J.attribute("name", UL->getName().getAsString());
      } else if (auto *DM = dyn_cast<CXXDependentScopeMemberExpr>(Cal)) {
        J.attribute("dep", true);
        J.attribute("name", DM->getMember().getAsString());
        if (!DM->isImplicitAccess()) {
          J.attribute("arrow", DM->isArrow());
          J.attributeBegin("obj");
          emitExpr(J, DM->getBase());
          J.attributeEnd();
        }
      } else if (auto *UM = dyn_cast<UnresolvedMemberExpr>(Cal)) {
        J.attribute("dep", true);
        J.attribute("name", UM->getMemberName().getAsString());
        if (!UM->isImplicitAccess()) {
          J.attribute("arrow", UM->isArrow());
          J.attributeBegin("obj");
          emitExpr(J, UM->getBase());
          J.attributeEnd();
        }
      } else if (auto *DS = dyn_cast<DependentScopeDeclRefExpr>(Cal)) {
        J.attribute("dep", true);
        J.attribute("name", DS->getDeclName().getAsString());
      } else {
        J.attribute("indirect", true);
        J.attributeBegin("calleeexpr");
        emitExpr(J, Cal);
        J.attributeEnd();
      }
    }
  }

  // ---------------------------------------------------------------- statements
  void emitVar(json::OStream &J, const VarDecl *VD, bool withInit = true) {
    J.object([&] {
      J.attribute("name", VD->getNameAsString());
      J.attribute("vid", varId(VD));
      J.attribute("t", typeId(VD->getType()));
      J.attribute("l", lineOf(VD->getLocation()));
      if (VD->getType()->isReferenceType())
        J.attribute("ref", true);
      if (VD->isStaticLocal())
        J.attribute("static", true);
      if (VD->getTLSKind() != VarDecl::TLS_None)
        J.attribute("tls", true);
      if (VD->isConstexpr())
        J.attribute("constexpr", true);
      if (!VD->hasLocalStorage() && inRoot(VD->getLocation()))
        statics.insert(VD->getCanonicalDecl());
      QualType T = VD->getType().getNonReferenceType();
      if (!VD->getType()->isReferenceType())
        if (const CXXRecordDecl *RD = T->getAsCXXRecordDecl())
          if (RD->hasDefinition() && !RD->hasTrivialDestructor()) {
            J.attribute("nontrivial_dtor", true);
            if (const CXXDestructorDecl *DD = RD->getDestructor())
              J.attribute("dtor", fnId(DD));
          }
      if (auto *DD = dyn_cast<DecompositionDecl>(VD)) {
        J.attributeArray("bindings", [&] {
          for (auto *B : DD->bindings())
            J.object([&] {
              J.attribute("name", B->getNameAsString());
              J.attribute("vid", varId(B));
            });
        });
      }
      if (withInit && VD->getInit()) {
        J.attributeBegin("init");
        emitExpr(J, VD->getInit());
        J.attributeEnd();
      }
    });
  }

  void emitStmtOrNull(json::OStream &J, const Stmt *S) {
    if (!S)
      J.value(nullptr);
    else
      emitStmt(J, S);
  }

  void emitStmt(json::OStream &J, const Stmt *S) {
    if (auto *E = dyn_cast<Expr>(S)) {
      emitExpr(J, E);
      return;
    }
    ++n_stmts;
    J.object([&] {
      J.attribute("l", lineOf(S->getBeginLoc()));
      if (auto *CS = dyn_cast<CompoundStmt>(S)) {
        J.attribute("k", "block");
        J.attribute("endl", lineOf(CS->getRBracLoc()));
        J.attributeArray("s", [&] {
          for (auto *C : CS->body())
            emitStmt(J, C);
        });
      } else if (auto *DS = dyn_cast<DeclStmt>(S)) {
        J.attribute("k", "decl");
        J.attributeArray("vars", [&] {
          for (auto *D : DS->decls())
            if (auto *VD = dyn_cast<VarDecl>(D))
              emitVar(J, VD);
        });
      } else if (auto *IS = dyn_cast<IfStmt>(S)) {
        J.attribute("k", "if");
        if (IS->isConstexpr())
          J.attribute("constexpr", true);
        if (IS->getInit()) {
          J.attributeBegin("init");
          emitStmt(J, IS->getInit());
          J.attributeEnd();
        }
        if (IS->getConditionVariable()) {
          J.attributeBegin("condvar");
          emitVar(J, IS->getConditionVariable());
          J.attributeEnd();
        }
        J.attributeBegin("cond");
        emitExpr(J, IS->getCond());
        J.attributeEnd();
        if (IS->isConstexpr() && !IS->getCond()->isValueDependent()) {
          Expr::EvalResult R;
          if (IS->getCond()->EvaluateAsInt(R, Ctx))
            J.attribute("cv", R.Val.getInt().getBoolValue());
        }
        J.attributeBegin("then");
        emitStmtOrNull(J, IS->getThen());
        J.attributeEnd();
        J.attributeBegin("else");
        emitStmtOrNull(J, IS->getElse());
        J.attributeEnd();
      } else if (auto *WS = dyn_cast<WhileStmt>(S)) {
        J.attribute("k", "while");
        if (WS->getConditionVariable()) {
          J.attributeBegin("condvar");
          emitVar(J, WS->getConditionVariable());
          J.attributeEnd();
        }
        J.attributeBegin("cond");
        emitExpr(J, WS->getCond());
        J.attributeEnd();
        J.attributeBegin("body");
        emitStmtOrNull(J, WS->getBody());
        J.attributeEnd();
      } else if (auto *DoS = dyn_cast<DoStmt>(S)) {
        J.attribute("k", "do");
        J.attributeBegin("cond");
        emitExpr(J, DoS->getCond());
        J.attributeEnd();
        J.attributeBegin("body");
        emitStmtOrNull(J, DoS->getBody());
        J.attributeEnd();
      } else if (auto *FS = dyn_cast<ForStmt>(S)) {
        J.attribute("k", "for");
        J.attributeBegin("init");
        emitStmtOrNull(J, FS->getInit());
        J.attributeEnd();
        J.attributeBegin("cond");
        emitExprOrNull(J, FS->getCond());
        J.attributeEnd();
        J.attributeBegin("inc");
        emitExprOrNull(J, FS->getInc());
        J.attributeEnd();
        J.attributeBegin("body");
        emitStmtOrNull(J, FS->getBody());
        J.attributeEnd();
      } else if (auto *RS = dyn_cast<CXXForRangeStmt>(S)) {
        J.attribute("k", "rangefor");
        J.attributeBegin("var");
        emitVar(J, RS->getLoopVariable(), false); // the implicit `*__begin` initialiser is safe by construction
        J.attributeEnd();
        J.attributeBegin("range");
        emitExprOrNull(J, RS->getRangeInit());
        J.attributeEnd();
        J.attributeBegin("body");
        emitStmtOrNull(J, RS->getBody());
        J.attributeEnd();
      } else if (auto *SS = dyn_cast<SwitchStmt>(S)) {
        J.attribute("k", "switch");
        J.attributeBegin("cond");
        emitExpr(J, SS->getCond());
        J.attributeEnd();
        J.attributeBegin("body");
        emitStmtOrNull(J, SS->getBody());
        J.attributeEnd();
      } else if (auto *CaS = dyn_cast<CaseStmt>(S)) {
        J.attribute("k", "case");
        const Expr *L = CaS->getLHS();
        if (L && !L->isValueDependent()) {
          Expr::EvalResult R;
          if (L->EvaluateAsInt(R, Ctx))
            J.attribute("v", R.Val.getInt().getExtValue());
        }
        if (L) {
          const Expr *LS = strip(L);
          if (auto *DRE = dyn_cast<DeclRefExpr>(LS))
            if (auto *EC = dyn_cast<EnumConstantDecl>(DRE->getDecl())) {
              J.attribute("ename", EC->getNameAsString());
              J.attribute("eq", qname(EC));
            }
          J.attributeBegin("e");
          emitExpr(J, L);
          J.attributeEnd();
        }
        J.attributeBegin("sub");
        emitStmtOrNull(J, CaS->getSubStmt());
        J.attributeEnd();
      } else if (auto *DfS = dyn_cast<DefaultStmt>(S)) {
        J.attribute("k", "default");
        J.attributeBegin("sub");
        emitStmtOrNull(J, DfS->getSubStmt());
        J.attributeEnd();
      } else if (isa<BreakStmt>(S)) {
        J.attribute("k", "break");
      } else if (isa<ContinueStmt>(S)) {
        J.attribute("k", "continue");
      } else if (auto *RetS = dyn_cast<ReturnStmt>(S)) {
        J.attribute("k", "return");
        J.attributeBegin("e");
        emitExprOrNull(J, RetS->getRetValue());
        J.attributeEnd();
      } else if (auto *TS = dyn_cast<CXXTryStmt>(S)) {
        J.attribute("k", "try");
        J.attributeBegin("body");
        emitStmt(J, TS->getTryBlock());
        J.attributeEnd();
        J.attributeArray("handlers", [&] {
          for (unsigned i = 0; i < TS->getNumHandlers(); ++i) {
            const CXXCatchStmt *H = TS->getHandler(i);
            J.object([&] {
              J.attribute("l", lineOf(H->getCatchLoc()));
              if (H->getExceptionDecl()) {
                QualType CT = H->getCaughtType();
                J.attribute("t", typeId(CT));
                J.attribute("bt", typeId(CT.getNonReferenceType().getUnqualifiedType()));
                J.attribute("name", H->getExceptionDecl()->getNameAsString());
                J.attribute("vid", varId(H->getExceptionDecl()));
                if (CT->isReferenceType())
                  J.attribute("ref", true);
              } else
                J.attribute("all", true);
              J.attributeBegin("body");
              emitStmt(J, H->getHandlerBlock());
              J.attributeEnd();
            });
          }
        });
      } else if (isa<NullStmt>(S)) {
        J.attribute("k", "null");
      } else if (auto *LS = dyn_cast<LabelStmt>(S)) {
        J.attribute("k", "label");
        J.attribute("name", LS->getName());
        J.attributeBegin("sub");
        emitStmtOrNull(J, LS->getSubStmt());
        J.attributeEnd();
      } else if (auto *GS = dyn_cast<GotoStmt>(S)) {
        J.attribute("k", "goto");
        J.attribute("name", GS->getLabel()->getName());
      } else if (auto *AS = dyn_cast<AttributedStmt>(S)) {
        J.attribute("k", "attributed");
        J.attributeBegin("sub");
        emitStmtOrNull(J, AS->getSubStmt());
        J.attributeEnd();
      } else {
        J.attribute("k", "otherstmt");
        J.attribute("cls", S->getStmtClassName());
        other_classes[S->getStmtClassName()]++;
        J.attributeArray("ch", [&] {
          for (const Stmt *C : S->children())
            emitStmtOrNull(J, C);
        });
      }
    });
  }

  // ---------------------------------------------------------------- functions
  const char *fnKind(const FunctionDecl *F) {
    if (isa<CXXConstructorDecl>(F))
      return "ctor";
    if (isa<CXXDestructorDecl>(F))
      return "dtor";
    if (isa<CXXConversionDecl>(F))
      return "conv";
    if (auto *M = dyn_cast<CXXMethodDecl>(F)) {
      if (M->getParent()->isLambda())
        return "lambda";
      return "method";
    }
    return "function";
  }

  const char *tmplKind(const FunctionDecl *F) {
    if (F->isDependentContext())
      return "pattern";
    switch (F->getTemplatedKind()) {
    case FunctionDecl::TK_NonTemplate:
      break;
    case FunctionDecl::TK_FunctionTemplate:
      return "pattern";
    case FunctionDecl::TK_MemberSpecialization:
    case FunctionDecl::TK_FunctionTemplateSpecialization:
      return "inst";
    case FunctionDecl::TK_DependentFunctionTemplateSpecialization:
      return "pattern";
    }
    // methods of class template specialisations / lambdas inside instantiations
    const DeclContext *DC = F->getDeclContext();
    while (DC) {
      if (isa<ClassTemplateSpecializationDecl>(DC))
        return "inst";
      if (auto *PF = dyn_cast<FunctionDecl>(DC))
        if (PF->isTemplateInstantiation())
          return "inst";
      DC = DC->getParent();
    }
    return "none";
  }

  void emitFnDeclAttrs(json::OStream &J, const FunctionDecl *F) {
    J.attribute("q", fnQName(F));
    J.attribute("name", F->getNameAsString());
    J.attribute("loc", locStr(F->getLocation()));
    J.attribute("kind", fnKind(F));
    J.attribute("tk", tmplKind(F));
    J.attribute("inroot", inRoot(F->getLocation()));
    if (auto *M = dyn_cast<CXXMethodDecl>(F)) {
      J.attribute("cls", qname(M->getParent()));
      J.attribute("clsloc", locStr(M->getParent()->getLocation()));
      if (M->isConst())
        J.attribute("const", true);
      if (M->isVirtual())
        J.attribute("virtual", true);
      if (M->isStatic())
        J.attribute("static", true);
      if (M->isPure())
        J.attribute("pure", true);
      J.attribute("access", getAccessSpelling(M->getAccess()));
      if (M->size_overridden_methods() > 0) {
        J.attributeArray("overrides", [&] {
          for (auto *O : M->overridden_methods())
            J.value(fnId(O));
        });
      }
      if (inRoot(M->getParent()->getLocation()) && M->getParent()->isCompleteDefinition())
        records.insert(M->getParent()->getCanonicalDecl());
    }
    if (F->isDeleted())
      J.attribute("deleted", true);
    if (F->isDefaulted())
      J.attribute("defaulted", true);
    if (F->isImplicit())
      J.attribute("implicit", true);
    if (auto *FPT = F->getType()->getAs<FunctionProtoType>()) {
      auto EST = FPT->getExceptionSpecType();
      if (EST == EST_BasicNoexcept || EST == EST_NoexceptTrue || EST == EST_DynamicNone || EST == EST_NoThrow)
        J.attribute("noexcept", true);
      else if (EST == EST_DependentNoexcept || EST == EST_Unevaluated || EST == EST_Uninstantiated)
        J.attribute("noexcept_dep", true);
      else if (isa<CXXDestructorDecl>(F) && EST != EST_NoexceptFalse && EST != EST_Dynamic && EST != EST_MSAny)
        J.attribute("noexcept", true);
    }
    J.attribute("ret", typeId(F->getReturnType()));
    J.attributeArray("params", [&] {
      for (auto *P : F->parameters())
        J.object([&] {
          J.attribute("name", P->getNameAsString());
          J.attribute("t", typeId(P->getType()));
          J.attribute("vid", varId(P));
        });
    });
    if (auto *Args = F->getTemplateSpecializationArgs()) {
      J.attributeArray("targs", [&] {
        for (auto &A : Args->asArray()) {
          std::string S;
          llvm::raw_string_ostream OS(S);
          A.print(PP, OS, true);
          OS.flush();
          J.value(S);
        }
      });
    }
  }

  std::string patternKey(const FunctionDecl *F) { return locStr(F->getLocation()); }

  void emitFunction(const FunctionDecl *F) {
    if (!emitted.insert(F->getCanonicalDecl()).second)
      return;
    if (!F->doesThisDeclarationHaveABody())
      return;
    const Stmt *Body = F->getBody();
    if (!Body)
      return;
    std::string tk = tmplKind(F);
    if (g_max_inst && tk == "inst") {
      unsigned &c = inst_count[patternKey(F)];
      if (c >= g_max_inst) {
        ++n_skipped_cap;
        return;
      }
      ++c;
    }
    ++n_bodies;
    unsigned id = fnId(F);
    json::OStream J(*FOut);
    J.object([&] {
      J.attribute("id", id);
      emitFnDeclAttrs(J, F);
      if (auto *CD = dyn_cast<CXXConstructorDecl>(F)) {
        J.attributeArray("inits", [&] {
          for (auto *I : CD->inits()) {
            J.object([&] {
              if (I->isAnyMemberInitializer()) {
                J.attribute("field", I->getAnyMember()->getNameAsString());
                J.attribute("fq", qname(I->getAnyMember()));
              } else if (I->isBaseInitializer()) {
                J.attribute("base", typeId(QualType(I->getBaseClass(), 0)));
              } else if (I->isDelegatingInitializer())
                J.attribute("delegating", true);
              if (!I->isWritten())
                J.attribute("implicit", true);
              J.attributeBegin("init");
              emitExprOrNull(J, I->getInit());
              J.attributeEnd();
            });
          }
        });
      }
      J.attributeBegin("body");
      emitStmt(J, Body);
      J.attributeEnd();
    });
    *FOut << "\n";
  }

  void drain() {
    while (!worklist.empty()) {
      const FunctionDecl *F = worklist.front();
      worklist.pop_front();
      emitFunction(F);
    }
  }

  // ---------------------------------------------------------------- meta
  void writeMeta(const std::string &Path, const std::string &MainFile) {
    std::error_code EC;
    llvm::raw_fd_ostream OS(Path, EC);
    json::OStream J(OS);
    // records may grow while printing decls (fnId on dtor); iterate to fixpoint on fns first
    J.object([&] {
      J.attribute("main", MainFile);
      J.attributeArray("roots", [&] {
        for (auto &R : g_roots)
          J.value(R);
      });
      // decls: note emitFnDeclAttrs may intern more fns (overrides); loop by index
      J.attributeArray("fns", [&] {
        for (unsigned i = 0; i < fns.size(); ++i) {
          const FunctionDecl *F = fns[i];
          J.object([&] {
            J.attribute("id", i);
            emitFnDeclAttrs(J, F);
            J.attribute("hasbody", emitted.count(F->getCanonicalDecl()) > 0 && F->hasBody());
          });
        }
      });
      J.attributeArray("records", [&] {
        // closure over bases
        std::vector<const CXXRecordDecl *> W(records.begin(), records.end());
        std::set<const CXXRecordDecl *> Seen(records.begin(), records.end());
        for (unsigned i = 0; i < W.size(); ++i) {
          const CXXRecordDecl *RD = W[i]->getDefinition();
          if (!RD)
            continue;
          J.object([&] {
            J.attribute("q", qname(RD));
            J.attribute("loc", locStr(RD->getLocation()));
            J.attribute("t", typeId(Ctx.getRecordType(RD)));
            if (RD->isLambda())
              J.attribute("lambda", true);
            if (isa<ClassTemplateSpecializationDecl>(RD))
              J.attribute("tk", "inst");
            else if (RD->isDependentContext())
              J.attribute("tk", "pattern");
            J.attributeArray("bases", [&] {
              for (auto &B : RD->bases()) {
                J.object([&] {
                  J.attribute("t", typeId(B.getType()));
                  if (auto *BD = B.getType()->getAsCXXRecordDecl()) {
                    J.attribute("q", qname(BD));
                    if (BD->getDefinition() && inRoot(BD->getLocation()) && Seen.insert(BD->getCanonicalDecl()).second)
                      W.push_back(BD->getCanonicalDecl());
                  }
                });
              }
            });
            J.attributeArray("fields", [&] {
              for (auto *FD : RD->fields()) {
                J.object([&] {
                  J.attribute("name", FD->getNameAsString());
                  J.attribute("q", qname(FD));
                  J.attribute("t", typeId(FD->getType()));
                  J.attribute("l", lineOf(FD->getLocation()));
                  if (FD->isMutable())
                    J.attribute("mutable", true);
                  J.attribute("access", getAccessSpelling(FD->getAccess()));
                  if (FD->hasInClassInitializer()) {
                    J.attribute("hasinit", true);
                    if (const Expr *IE = FD->getInClassInitializer()) {
                      J.attributeBegin("init");
                      emitExpr(J, IE);
                      J.attributeEnd();
                    }
                  }
                });
              }
              // static data members
              for (auto *D : RD->decls())
                if (auto *VD = dyn_cast<VarDecl>(D))
                  if (VD->isStaticDataMember()) {
                    statics.insert(VD->getCanonicalDecl());
                    J.object([&] {
                      J.attribute("name", VD->getNameAsString());
                      J.attribute("q", qname(VD));
                      J.attribute("t", typeId(VD->getType()));
                      J.attribute("static", true);
                    });
                  }
            });
            J.attributeArray("methods", [&] {
              for (auto *M : RD->methods()) {
                J.object([&] {
                  J.attribute("name", M->getNameAsString());
                  J.attribute("l", lineOf(M->getLocation()));
                  if (M->isConst())
                    J.attribute("const", true);
                  if (M->isVirtual())
                    J.attribute("virtual", true);
                  if (M->isImplicit())
                    J.attribute("implicit", true);
                  if (M->isDeleted())
                    J.attribute("deleted", true);
                  J.attribute("access", getAccessSpelling(M->getAccess()));
                  auto it = fn_ids.find(M->getCanonicalDecl());
                  if (it != fn_ids.end())
                    J.attribute("fn", it->second);
                });
              }
            });
          });
        }
      });
      J.attributeArray("enums", [&] {
        for (auto *ED : enums) {
          J.object([&] {
            J.attribute("q", qname(ED));
            J.attribute("loc", locStr(ED->getLocation()));
            J.attribute("scoped", ED->isScoped());
            J.attributeArray("enumerators", [&] {
              for (auto *EC : ED->enumerators())
                J.object([&] {
                  J.attribute("name", EC->getNameAsString());
                  J.attribute("v", EC->getInitVal().getExtValue());
                });
            });
          });
        }
      });
      J.attributeArray("statics", [&] {
        for (auto *VD : statics) {
          J.object([&] {
            J.attribute("name", VD->getNameAsString());
            J.attribute("q", qname(VD));
            J.attribute("loc", locStr(VD->getLocation()));
            J.attribute("t", typeId(VD->getType()));
            J.attribute("const", VD->getType().isConstQualified());
            J.attribute("constexpr", VD->isConstexpr());
            J.attribute("tls", VD->getTLSKind() != VarDecl::TLS_None);
            J.attribute("staticlocal", VD->isStaticLocal());
            J.attribute("member", VD->isStaticDataMember());
            if (VD->isStaticLocal())
              if (auto *PF = dyn_cast_or_null<FunctionDecl>(VD->getParentFunctionOrMethod()))
                J.attribute("infn", fnQName(PF));
            const DeclContext *DC = VD->getDeclContext();
            bool dep = false;
            while (DC) {
              if (DC->isDependentContext())
                dep = true;
              DC = DC->getParent();
            }
            J.attribute("dep", dep);
            if (VD->getInit() && !dep && (VD->isConstexpr() || VD->getType().isConstQualified())) {
              J.attributeBegin("init");
              emitExpr(J, VD->getInit());
              J.attributeEnd();
            }
          });
        }
      });
      J.attributeArray("types", [&] {
        for (auto &T : types)
          J.value(T);
      });
      J.attributeObject("stats", [&] {
        J.attribute("bodies", n_bodies);
        J.attribute("stmts", n_stmts);
        J.attribute("skipped_by_cap", n_skipped_cap);
        J.attribute("max_inst", g_max_inst);
        J.attributeObject("other_classes", [&] {
          for (auto &KV : other_classes)
            J.attribute(KV.first, KV.second);
        });
      });
    });
    OS << "\n";
  }
};

class Finder : public RecursiveASTVisitor<Finder> {
public:
  Extractor &X;
  explicit Finder(Extractor &X) : X(X) {}
  bool shouldVisitTemplateInstantiations() const { return true; }
  bool shouldVisitImplicitCode() const { return false; }
  bool VisitFunctionDecl(FunctionDecl *F) {
    if (F->doesThisDeclarationHaveABody() && X.inRoot(F->getLocation())) {
      X.fnId(F);
    }
    return true;
  }
  bool VisitCXXRecordDecl(CXXRecordDecl *RD) {
    if (RD->isCompleteDefinition() && X.inRoot(RD->getLocation()))
      X.records.insert(RD->getCanonicalDecl());
    return true;
  }
  bool VisitEnumDecl(EnumDecl *ED) {
    if (ED->isCompleteDefinition() && X.inRoot(ED->getLocation()) && !ED->isDependentContext())
      X.enums.insert(ED->getCanonicalDecl());
    return true;
  }
  bool VisitVarDecl(VarDecl *VD) {
    if (!VD->hasLocalStorage() && !isa<ParmVarDecl>(VD) && X.inRoot(VD->getLocation()))
      X.statics.insert(VD->getCanonicalDecl());
    return true;
  }
};

class Consumer : public ASTConsumer {
public:
  std::string MainFile;
  explicit Consumer(std::string F) : MainFile(std::move(F)) {}
  void HandleTranslationUnit(ASTContext &Ctx) override {
    if (Ctx.getDiagnostics().hasErrorOccurred()) {
      llvm::errs() << "chaifacts: compile errors, no facts written\n";
      return;
    }
    Extractor X(Ctx);
    std::error_code EC;
    llvm::raw_fd_ostream FOut(g_out + ".funcs.jsonl", EC);
    if (EC) {
      llvm::errs() << "chaifacts: cannot write " << g_out << ".funcs.jsonl\n";
      return;
    }
    X.FOut = &FOut;
    Finder F(X);
    F.TraverseDecl(Ctx.getTranslationUnitDecl());
    X.drain();
    FOut.flush();
    X.writeMeta(g_out + ".meta.json", MainFile);
    X.drain(); // writeMeta may have interned more decls; bodies for them
    FOut.flush();
    // rewrite meta if late bodies were added (rare); simplest: write again
    X.writeMeta(g_out + ".meta.json", MainFile);
    llvm::errs() << "chaifacts: " << X.n_bodies << " bodies, " << X.n_stmts << " nodes, " << X.types.size() << " types, "
                 << X.fns.size() << " decls\n";
  }
};

class Action : public ASTFrontendAction {
public:
  std::unique_ptr<ASTConsumer> CreateASTConsumer(CompilerInstance &, llvm::StringRef InFile) override {
    return std::make_unique<Consumer>(InFile.str());
  }
};

class Factory : public tooling::FrontendActionFactory {
public:
  std::unique_ptr<FrontendAction> create() override { return std::make_unique<Action>(); }
};

} // namespace

int main(int argc, const char **argv) {
  std::vector<std::string> flags;
  std::string file;
  int i = 1;
  for (; i < argc; ++i) {
    std::string a = argv[i];
    if (a == "--") {
      ++i;
      break;
    }
    if (a == "--root" && i + 1 < argc)
      g_roots.push_back(argv[++i]);
    else if (a == "--out" && i + 1 < argc)
      g_out = argv[++i];
    else if (a == "--max-inst" && i + 1 < argc)
      g_max_inst = std::stoul(argv[++i]);
    else {
      llvm::errs() << "unknown option " << a << "\n";
      return 2;
    }
  }
  if (i >= argc || g_out.empty() || g_roots.empty()) {
    llvm::errs() << "usage: chaifacts --root <prefix> --out <prefix> [--max-inst N] -- file.cpp <flags>\n";
    return 2;
  }
  file = argv[i++];
  for (; i < argc; ++i)
    flags.push_back(argv[i]);
  tooling::FixedCompilationDatabase DB(".", flags);
  tooling::ClangTool Tool(DB, {file});
  Factory F;
  int rc = Tool.run(&F);
  return rc;
}
