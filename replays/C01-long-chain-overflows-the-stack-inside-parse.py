#!/usr/bin/env python3
"""Writes two inputs that make ChaiScript's parse() overflow the native stack (8 MiB) on the unchanged tree:
     python3 C01-long-chain-overflows-the-stack-inside-parse.py /tmp/chain && /repo/_build/chai /tmp/chain-plus.chai ; echo $?   # 139
The function bodies are never evaluated: the crash happens in the optimizer's recursive declaration search
(optimizer::contains_var_decl_in_scope, called from Block::optimize) which runs inside parse(), see the gdb backtrace in DESIGN.md D32.
A chain of n binary operators / n postfix links is built by a loop (no recursion, no Depth_Counter) into a tree of depth n."""
import sys
base = sys.argv[1] if len(sys.argv) > 1 else "chain"
n = 400000
open(base + "-plus.chai", "w").write("def f(a) { " + "+".join(["a"] * n) + " }\nprint(\"parsed\")\n")
open(base + "-dot.chai", "w").write("def f(a) { a" + ".b" * n + " }\nprint(\"parsed\")\n")
print("wrote %s-plus.chai and %s-dot.chai (%d links each)" % (base, base, n))
