// replay: attribute set on the literal `true` in one engine is visible in another engine
#include <chaiscript/chaiscript.hpp>
#include <iostream>
int main() {
  int seen = 0;
  {
    chaiscript::ChaiScript a;
    a.eval("true.get_var_attr(\"secret\") = 42");
  }
  chaiscript::ChaiScript b;
  try {
    seen = b.eval<int>("true.get_var_attr(\"secret\")");
  } catch (const std::exception &e) { std::cout << "engine b: " << e.what() << "\n"; }
  std::cout << "engine b sees " << seen << "\n";
  return seen == 42 ? 1 : 0;
}
