// replay: converted temporary handed to a C++ function when the call starts outside any script evaluation
#include <chaiscript/chaiscript.hpp>
#include <iostream>
struct Holder { std::string s; ~Holder() { s.assign(s.size(), '#'); } };
int main() {
  chaiscript::ChaiScript chai;
  chai.add(chaiscript::user_type<Holder>(), "Holder");
  chai.add(chaiscript::type_conversion<std::string, Holder>([](const std::string &s) { return Holder{s}; }));
  chai.add(chaiscript::fun([](const Holder &h) { return h.s; }), "use_holder");
  // from script: fine
  std::cout << chai.eval<std::string>("use_holder(\"a string that is long enough to live on the heap\")") << "\n";
  auto f = chai.eval<std::function<std::string(const std::string &)>>("use_holder");
  std::string r = f("a string that is long enough to live on the heap");
  std::cout << r << "\n";
  return r == "a string that is long enough to live on the heap" ? 0 : 1;
}
