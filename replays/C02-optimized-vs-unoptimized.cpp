// replay helper: evaluate a script with the default optimizer and with optimization disabled, print both outcomes
#include <chaiscript/chaiscript_basic.hpp>
#include <chaiscript/chaiscript_stdlib.hpp>
#include <chaiscript/language/chaiscript_parser.hpp>
#include <iostream>
#include <fstream>
#include <sstream>
struct No_Optimizer { template<typename T> auto optimize(chaiscript::eval::AST_Node_Impl_Ptr<T> p) { return p; } };
template<typename Opt> std::string run(const std::string &src) {
  chaiscript::ChaiScript_Basic chai(chaiscript::Std_Lib::library(),
      std::make_unique<chaiscript::parser::ChaiScript_Parser<chaiscript::eval::Noop_Tracer, Opt>>());
  std::ostringstream out;
  chai.add(chaiscript::fun([&out](const std::string &s) { out << s << "\n"; }), "emit");
  try { chai.eval(src); out << "ok"; } catch (const chaiscript::exception::eval_error &e) { out << "eval_error: " << e.reason; }
  catch (const std::exception &e) { out << "exception: " << e.what(); }
  return out.str();
}
int main(int argc, char **argv) {
  std::ifstream f(argv[1]); std::stringstream ss; ss << f.rdbuf();
  auto a = run<chaiscript::optimizer::Optimizer_Default>(ss.str());
  auto b = run<No_Optimizer>(ss.str());
  std::cout << "optimized:\n" << a << "\nunoptimized:\n" << b << "\n" << (a == b ? "SAME" : "DIFFERENT") << "\n";
  return a == b ? 0 : 1;
}
