// replay (ThreadSanitizer): two threads of one engine touch the attribute map of the literal `true`
#include <chaiscript/chaiscript.hpp>
#include <thread>
#include <iostream>
int main() {
  chaiscript::ChaiScript chai;
  auto work = [&chai](int id) {
    for (int i = 0; i < 200; ++i) {
      chai.eval("true.get_var_attr(\"k" + std::to_string(id) + "_" + std::to_string(i) + "\") = " + std::to_string(i));
    }
  };
  std::thread a(work, 1), b(work, 2);
  a.join(); b.join();
  std::cout << chai.eval<int>("true.get_var_attr(\"k1_5\")") << " done\n";
}
