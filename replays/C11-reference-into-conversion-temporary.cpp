// replay: a reference obtained through the API (eval<const T&>) refers to a conversion temporary
#include <chaiscript/chaiscript.hpp>
#include <iostream>
struct Holder { std::string s; ~Holder() { s.assign(s.size(), '#'); } };
int main() {
  chaiscript::ChaiScript chai;
  chai.add(chaiscript::user_type<Holder>(), "Holder");
  chai.add(chaiscript::type_conversion<std::string, Holder>([](const std::string &s) { return Holder{s}; }));
  const Holder &h = chai.eval<const Holder &>("\"a string that is long enough to live on the heap\"");
  std::string seen = h.s;
  std::cout << seen << "\n";
  return seen == "a string that is long enough to live on the heap" ? 0 : 1;
}
