#include <chaiscript/chaiscript.hpp>
#include <condition_variable>
#include <iostream>
#include <mutex>
#include <thread>
// A long-lived worker thread uses engine 1, engine 1 is destroyed by main, engine 2 is created
// (very likely at the same address); the worker then looks at engine 2's locals.
int main() {
  std::mutex m; std::condition_variable cv; int stage = 0; chaiscript::ChaiScript *cur = nullptr; std::string seen;
  std::thread worker([&] {
    std::unique_lock<std::mutex> l(m);
    cv.wait(l, [&] { return stage == 1; });
    cur->eval("var secret = 4242");
    stage = 2; cv.notify_all();
    cv.wait(l, [&] { return stage == 3; });
    try { seen = std::to_string(cur->eval<int>("secret")); } catch (const std::exception &e) { seen = "not visible"; }
    stage = 4; cv.notify_all();
  });
  void *addr1, *addr2;
  {
    auto e1 = std::make_unique<chaiscript::ChaiScript>();
    addr1 = e1.get();
    { std::unique_lock<std::mutex> l(m); cur = e1.get(); stage = 1; cv.notify_all(); cv.wait(l, [&] { return stage == 2; }); }
  }
  auto e2 = std::make_unique<chaiscript::ChaiScript>();
  addr2 = e2.get();
  { std::unique_lock<std::mutex> l(m); cur = e2.get(); stage = 3; cv.notify_all(); cv.wait(l, [&] { return stage == 4; }); }
  worker.join();
  std::cout << "same address: " << (addr1 == addr2) << "; engine 2 sees engine 1's local 'secret': " << seen << "\n";
  return seen == "not visible" ? 0 : 1;
}
