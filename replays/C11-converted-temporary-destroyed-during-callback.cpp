// A converted temporary bound to `const Wrap &` must stay alive for the whole C++ call, also when the
// C++ function calls back into script and the callback opens a scope and makes a call of its own.
#include <chaiscript/chaiscript.hpp>
#include <cstdio>
static int live = 0;
struct Obj { int v = 7; };
struct Wrap {
  int v; bool alive = true;
  explicit Wrap(const Obj &o) : v(o.v) { ++live; }
  Wrap(const Wrap &w) : v(w.v) { ++live; }
  ~Wrap() { alive = false; --live; }
};
static int bad = 0;
void hold(const Wrap &w, const std::function<void()> &cb) {
  int before = live;
  cb();
  if (live != before) { ++bad; std::printf("FAIL: converted temporary destroyed during the call (live %d -> %d)\n", before, live); }
  (void)w;
}
int main() {
  chaiscript::ChaiScript chai;
  chai.add(chaiscript::user_type<Obj>(), "Obj");
  chai.add(chaiscript::constructor<Obj()>(), "Obj");
  chai.add(chaiscript::user_type<Wrap>(), "Wrap");
  chai.add(chaiscript::type_conversion<Obj, Wrap>([](const Obj &o) { return Wrap(o); }));
  chai.add(chaiscript::fun(&hold), "hold");
  chai.eval("def f() { var o = Obj(); hold(o, fun(){ var z = 1; print(z) }); }; f();");
  chai.eval("def g() { var o = Obj(); hold(o, fun(){ 1 }); }; g();");
  if (!bad) std::printf("PASS\n");
  return bad ? 1 : 0;
}
