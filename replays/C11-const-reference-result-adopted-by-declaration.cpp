#include <chaiscript/chaiscript.hpp>
#include <cstdio>
struct Inner { int v = 5; Inner() = default; Inner(const Inner &i) : v(i.v) { std::puts("copy Inner"); } ~Inner() { v = -1; std::puts("~Inner"); }
  int value() const { return v; } };
struct Obj { Inner in; const Inner &cinner() const { return in; } Inner &inner() { return in; } };
int main() {
  chaiscript::ChaiScript chai;
  chai.add(chaiscript::user_type<Obj>(), "Obj");
  chai.add(chaiscript::constructor<Obj()>(), "Obj");
  chai.add(chaiscript::user_type<Inner>(), "Inner");
  chai.add(chaiscript::constructor<Inner(const Inner &)>(), "Inner");
  chai.add(chaiscript::fun(&Obj::cinner), "cinner");
  chai.add(chaiscript::fun(&Inner::value), "value");
  chai.eval("def g() { var o = Obj(); var x = o.cinner(); print(x.is_var_reference()); return x; }; var r = g(); print(\"after g\"); print(r.value())");
}
