// replay: element of a const Vector modified from script
#include <chaiscript/chaiscript.hpp>
#include <iostream>
int main() {
  chaiscript::ChaiScript chai;
  std::vector<chaiscript::Boxed_Value> v{chaiscript::var(1), chaiscript::var(2), chaiscript::var(3)};
  const auto cv = chaiscript::const_var(v);
  chai.add_global_const(cv, "CV");
  try { chai.eval("CV.push_back(4)"); std::cout << "push_back accepted\n"; } catch (const std::exception &e) { std::cout << "push_back rejected\n"; }
  try { chai.eval("CV[0] = 42"); std::cout << "element assignment accepted\n"; } catch (const std::exception &e) { std::cout << "element assignment rejected: " << e.what() << "\n"; }
  try { chai.eval("for (x : CV) { x = 99 }"); std::cout << "loop assignment accepted\n"; } catch (const std::exception &e) { std::cout << "loop assignment rejected\n"; }
  const auto &ref = chaiscript::boxed_cast<const std::vector<chaiscript::Boxed_Value> &>(cv);
  std::cout << chaiscript::boxed_cast<int>(ref[0]) << " " << chaiscript::boxed_cast<int>(ref[1]) << "\n";
  return chaiscript::boxed_cast<int>(ref[0]) == 1 ? 0 : 1;
}
