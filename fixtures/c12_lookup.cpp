// Fixture for C12 R12.4 (key lookup through an ordered-search iterator). Not part of ChaiScript: the rule's matcher is run on this
// file on every check so that it provably recognises both the sound and the unsound idiom even while /repo contains no instance.
#include <map>
#include <stdexcept>
#include <string>
namespace verif_fixture {
  template<typename M>
  decltype(auto) good_lower(M &m, const typename M::key_type &k) {
    const auto itr = m.lower_bound(k);
    if (itr == m.end() || m.key_comp()(k, itr->first)) {
      throw std::out_of_range("key not found");
    }
    return (itr->second);
  }
  template<typename M>
  decltype(auto) bad_lower(M &m, const typename M::key_type &k) {
    const auto itr = m.lower_bound(k);
    if (itr == m.end()) {
      throw std::out_of_range("key not found");
    }
    return (itr->second);
  }
  template<typename M>
  decltype(auto) good_find(M &m, const typename M::key_type &k) {
    const auto itr = m.find(k);
    if (itr == m.end()) {
      throw std::out_of_range("key not found");
    }
    return (itr->second);
  }
  template<typename M>
  decltype(auto) bad_find(M &m, const typename M::key_type &k) {
    const auto itr = m.find(k);
    return (itr->second);
  }
  inline int use() {
    std::map<std::string, int> m;
    return good_lower(m, "a") + bad_lower(m, "a") + good_find(m, "a") + bad_find(m, "a");
  }
}
