// Fixture for C12 R12.4 (key lookup through an ordered-search iterator). Not part of ChaiScript: the rule's matcher is run on this
// file on every check so that it provably recognises both the sound and the unsound idiom even while /repo contains no instance.
#include <map>
#include <stdexcept>
#include <string>
#include <vector>
namespace verif_fixture {
  template<typename M>
  decltype(auto) good_lower(M &m, const typename M::key_type &k) {
    const auto itr = m.lower_bound(k);
    if (itr == m.end() || m.key_comp()(k, itr->first)) {
      throw std::out_of_range("key not found");
    }
    return (itr->second);
  }
  template<typename M>
  decltype(auto) bad_lower(M &m, const typename M::key_type &k) {
    const auto itr = m.lower_bound(k);
    if (itr == m.end()) {
      throw std::out_of_range("key not found");
    }
    return (itr->second);
  }
  template<typename M>
  decltype(auto) good_find(M &m, const typename M::key_type &k) {
    const auto itr = m.find(k);
    if (itr == m.end()) {
      throw std::out_of_range("key not found");
    }
    return (itr->second);
  }
  template<typename M>
  decltype(auto) bad_find(M &m, const typename M::key_type &k) {
    const auto itr = m.find(k);
    return (itr->second);
  }
  // R12.2 (subscript exactness): an index into a sequence container is used only under 0 <= i < size()
  template<typename C>
  decltype(auto) good_index(C &c, int index) {
    const auto pos = static_cast<typename C::size_type>(index);
    if (pos >= c.size()) {
      throw std::out_of_range("index out of range");
    }
    return (c[pos]);
  }
  template<typename C>
  decltype(auto) bad_index(C &c, int index) {
    const auto pos = static_cast<typename C::size_type>(index);
    if (pos > c.size()) {
      throw std::out_of_range("index out of range");
    }
    return (c[pos]);
  }
  template<typename C>
  decltype(auto) bad_index_signed(C &c, int index) {
    if (index >= static_cast<int>(c.size())) {
      throw std::out_of_range("index out of range");
    }
    return (c[static_cast<typename C::size_type>(index)]);
  }
  inline int use() {
    std::map<std::string, int> m;
    std::vector<int> v;
    return good_lower(m, "a") + bad_lower(m, "a") + good_find(m, "a") + bad_find(m, "a") + good_index(v, 0) + bad_index(v, 0) + bad_index_signed(v, 0);
  }
}
