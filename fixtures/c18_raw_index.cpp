// Positive fixture for C18 R18.1: a parser that touches its input through unchecked accessors.
// The rule must flag every access below on every run; if it does not, the check is analysis-broken.
#include <cstddef>
#include <string>
namespace verif_fixture {
struct RawParser {
  static char peek(const std::string &str, std::size_t &offset) { return str[offset]; }
  static const char *raw(const std::string &str) { return str.data(); }
  static int count(const std::string &str) {
    int n = 0;
    for (char c : str) {
      n += c == '[';
    }
    return n;
  }
  static bool first(const std::string &str) { return *str.begin() == '['; }
  static char checked(const std::string &str, std::size_t &offset) { return str.at(offset); }
};
} // namespace verif_fixture
