// Analysis-only translation unit (never linked or run): instantiates the whole
// engine plus a catalogue of registration / cast shapes so that the template
// kernels C06/C07/C11 quantify over exist as instantiations in the AST.
#include <chaiscript/chaiscript.hpp>
#include <chaiscript/chaiscript_stdlib.hpp>
#include <chaiscript/dispatchkit/bootstrap_stl.hpp>
#include <chaiscript/dispatchkit/function_call.hpp>
#include <chaiscript/utility/utility.hpp>

#include <functional>
#include <list>
#include <map>
#include <memory>
#include <string>
#include <vector>

namespace verif_catalogue {

struct Base {
  virtual ~Base() = default;
  int base_field = 0;
  virtual int vfun() { return 1; }
  int cfun() const { return 2; }
};
struct Derived : Base {
  int vfun() override { return 3; }
  std::string name;
  const int cfield = 4;
};
struct Plain {
  int x = 0;
  Plain() = default;
  explicit Plain(int t) : x(t) {}
  Plain(int a, const std::string &) : x(a) {}
  int get_x() { return x; }
};
enum Color { Red, Green };

int by_value(int a) { return a; }
int by_cref(const int &a) { return a; }
void by_ref(int &a) { ++a; }
void by_ptr(int *a) { ++*a; }
int by_cptr(const int *a) { return *a; }
int by_sp(std::shared_ptr<int> a) { return *a; }
int by_csp(std::shared_ptr<const int> a) { return *a; }
int by_spcref(const std::shared_ptr<int> &a) { return *a; }
int by_up(std::unique_ptr<int> a) { return *a; }
int by_upref(std::unique_ptr<int> &a) { return *a; }
int by_fn(const std::function<int(int)> &f) { return f(1); }
int by_fn_val(std::function<int(const std::string &, double)> f) { return f("", 1.0); }
void by_str(const std::string &) {}
void by_strref(std::string &) {}
std::string ret_str() { return ""; }
const std::string &ret_cstrref() {
  static const std::string s;
  return s;
}
std::string &ret_strref() {
  static std::string s;
  return s;
}
const Plain *ret_cptr() { return nullptr; }
Plain *ret_ptr() { return nullptr; }
const Plain &ret_cref() {
  static const Plain p;
  return p;
}
Plain &ret_ref() {
  static Plain p;
  return p;
}
std::shared_ptr<Plain> ret_sp() { return {}; }
std::shared_ptr<const Plain> ret_csp() { return {}; }
std::unique_ptr<Plain> ret_up() { return {}; }
const std::shared_ptr<Plain> &ret_spcref() {
  static const std::shared_ptr<Plain> p;
  return p;
}
std::function<int(int)> ret_fn() { return {}; }
void by_base(Base &) {}
void by_cbase(const Base &) {}
void by_baseptr(Base *) {}
void by_basesp(std::shared_ptr<Base>) {}
void by_cbasesp(std::shared_ptr<const Base>) {}
void by_derived(Derived &) {}
void by_bv(chaiscript::Boxed_Value) {}
void by_cbv(const chaiscript::Boxed_Value &) {}
void by_bn(chaiscript::Boxed_Number) {}
void by_vec(const std::vector<int> &) {}
void by_vecbv(const std::vector<chaiscript::Boxed_Value> &) {}
void by_map(const std::map<std::string, int> &) {}
void by_bool(bool) {}
void by_char(char) {}
void by_uchar(unsigned char) {}
void by_short(short) {}
void by_ushort(unsigned short) {}
void by_uint(unsigned) {}
void by_long(long) {}
void by_ulong(unsigned long) {}
void by_ll(long long) {}
void by_ull(unsigned long long) {}
void by_float(float) {}
void by_double(double) {}
void by_ld(long double) {}
void by_cdouble(const double &) {}
void by_enum(Color) {}
void by_rref(Plain &&) {}
double mixed(int, const std::string &, double &, const Plain *, std::shared_ptr<Plain>) { return 0; }
void nothrow_fn() noexcept {}

template<typename T>
void cast_forms(const chaiscript::Boxed_Value &bv, chaiscript::ChaiScript &chai) {
  (void)chaiscript::boxed_cast<T>(bv);
  (void)chaiscript::boxed_cast<const T &>(bv);
  (void)chaiscript::boxed_cast<T &>(bv);
  (void)chaiscript::boxed_cast<T *>(bv);
  (void)chaiscript::boxed_cast<const T *>(bv);
  (void)chaiscript::boxed_cast<std::shared_ptr<T>>(bv);
  (void)chaiscript::boxed_cast<std::shared_ptr<const T>>(bv);
  (void)chaiscript::boxed_cast<const std::shared_ptr<T> &>(bv);
  (void)chaiscript::boxed_cast<std::shared_ptr<T> &>(bv);
  (void)chaiscript::boxed_cast<const std::shared_ptr<const T> &>(bv);
  (void)chaiscript::boxed_cast<std::reference_wrapper<T>>(bv);
  (void)chaiscript::boxed_cast<std::reference_wrapper<const T>>(bv);
  (void)chaiscript::boxed_cast<const std::reference_wrapper<T> &>(bv);
  (void)chaiscript::boxed_cast<T *const &>(bv);
  (void)chaiscript::boxed_cast<const T *const &>(bv);
  (void)chai.boxed_cast<T>(bv);
  (void)chai.eval<T>("x");
  (void)chai.eval<const T &>("x");
  (void)chai.eval<T &>("x");
  (void)chai.eval<std::shared_ptr<T>>("x");
}

void catalogue() {
  using namespace chaiscript;
  ChaiScript chai;
  ChaiScript_Basic basic(Std_Lib::library(), std::make_unique<parser::ChaiScript_Parser<eval::Noop_Tracer, optimizer::Optimizer_Default>>());

  chai.add(fun(&by_value), "f");
  chai.add(fun(&by_cref), "f");
  chai.add(fun(&by_ref), "f");
  chai.add(fun(&by_ptr), "f");
  chai.add(fun(&by_cptr), "f");
  chai.add(fun(&by_sp), "f");
  chai.add(fun(&by_csp), "f");
  chai.add(fun(&by_spcref), "f");
  chai.add(fun(&by_upref), "f");
  chai.add(fun(&by_fn), "f");
  chai.add(fun(&by_fn_val), "f");
  chai.add(fun(&by_str), "f");
  chai.add(fun(&by_strref), "f");
  chai.add(fun(&ret_str), "f");
  chai.add(fun(&ret_cstrref), "f");
  chai.add(fun(&ret_strref), "f");
  chai.add(fun(&ret_cptr), "f");
  chai.add(fun(&ret_ptr), "f");
  chai.add(fun(&ret_cref), "f");
  chai.add(fun(&ret_ref), "f");
  chai.add(fun(&ret_sp), "f");
  chai.add(fun(&ret_csp), "f");
  chai.add(fun(&ret_up), "f");
  chai.add(fun(&ret_spcref), "f");
  chai.add(fun(&ret_fn), "f");
  chai.add(fun(&by_base), "f");
  chai.add(fun(&by_cbase), "f");
  chai.add(fun(&by_baseptr), "f");
  chai.add(fun(&by_basesp), "f");
  chai.add(fun(&by_cbasesp), "f");
  chai.add(fun(&by_derived), "f");
  chai.add(fun(&by_bv), "f");
  chai.add(fun(&by_cbv), "f");
  chai.add(fun(&by_bn), "f");
  chai.add(fun(&by_vec), "f");
  chai.add(fun(&by_vecbv), "f");
  chai.add(fun(&by_map), "f");
  chai.add(fun(&by_bool), "f");
  chai.add(fun(&by_char), "f");
  chai.add(fun(&by_uchar), "f");
  chai.add(fun(&by_short), "f");
  chai.add(fun(&by_ushort), "f");
  chai.add(fun(&by_uint), "f");
  chai.add(fun(&by_long), "f");
  chai.add(fun(&by_ulong), "f");
  chai.add(fun(&by_ll), "f");
  chai.add(fun(&by_ull), "f");
  chai.add(fun(&by_float), "f");
  chai.add(fun(&by_double), "f");
  chai.add(fun(&by_ld), "f");
  chai.add(fun(&by_cdouble), "f");
  chai.add(fun(&by_enum), "f");
  chai.add(fun(&by_rref), "f");
  chai.add(fun(&mixed), "f");
  chai.add(fun(&nothrow_fn), "f");

  // members, data members, constructors, lambdas, bound functions
  chai.add(fun(&Base::vfun), "vfun");
  chai.add(fun(&Base::cfun), "cfun");
  chai.add(fun(&Derived::vfun), "vfun");
  chai.add(fun(&Base::base_field), "base_field");
  chai.add(fun(&Derived::name), "name");
  chai.add(fun(&Derived::cfield), "cfield");
  chai.add(fun(&Plain::x), "x");
  chai.add(constructor<Plain()>(), "Plain");
  chai.add(constructor<Plain(int)>(), "Plain");
  chai.add(constructor<Plain(int, const std::string &)>(), "Plain");
  chai.add(constructor<Plain(const Plain &)>(), "Plain");
  chai.add(user_type<Plain>(), "Plain");
  chai.add(user_type<Base>(), "Base");
  chai.add(user_type<Derived>(), "Derived");
  chai.add(base_class<Base, Derived>());
  chai.add(fun([](int a, const std::string &b) { return a + static_cast<int>(b.size()); }), "lam");
  chai.add(fun([](Plain &p) -> Plain & { return p; }), "lam");
  Plain obj;
  chai.add(fun(&Plain::get_x, &obj), "bound_x");
  chai.add(fun(&Base::cfun, std::make_shared<Derived>().get()), "bound_cfun");
  chai.add(fun(std::function<int(int)>(by_value)), "stdfn");

  // conversions
  chai.add(vector_conversion<std::vector<int>>());
  chai.add(vector_conversion<std::vector<std::string>>());
  chai.add(map_conversion<std::map<std::string, int>>());
  chai.add(type_conversion<int, long>());
  chai.add(type_conversion<std::string, Plain>([](const std::string &s) { return Plain(static_cast<int>(s.size())); }));
  chai.add(type_conversion<Plain, bool>([](const Plain &p) { return p.x != 0; }));

  // objects in every ownership form
  int i = 0;
  const int ci = 1;
  chai.add(var(1), "v");
  chai.add(var(&i), "v");
  chai.add(var(std::ref(i)), "v");
  chai.add(var(std::cref(i)), "v");
  chai.add(var(&ci), "v");
  chai.add(const_var(1), "v");
  chai.add(const_var(&i), "v");
  chai.add(const_var(std::make_shared<int>(2)), "v");
  chai.add(const_var(std::ref(i)), "v");
  chai.add(var(std::make_shared<int>(1)), "v");
  chai.add(var(std::make_shared<const int>(1)), "v");
  chai.add(var(std::make_unique<int>(1)), "v");
  chai.add(var(std::string("s")), "v");
  chai.add(var(Plain()), "v");
  chai.add(var(&obj), "v");
  chai.add(var(std::ref(obj)), "v");
  chai.add(var(std::make_shared<Derived>()), "v");
  chai.add_global_const(const_var(1), "g");
  chai.add_global(var(1), "g");
  chai.set_global(var(1), "g");

  Boxed_Value bv = chai.eval("x");
  cast_forms<int>(bv, chai);
  cast_forms<double>(bv, chai);
  cast_forms<bool>(bv, chai);
  cast_forms<char>(bv, chai);
  cast_forms<unsigned long>(bv, chai);
  cast_forms<long long>(bv, chai);
  cast_forms<std::string>(bv, chai);
  cast_forms<Plain>(bv, chai);
  cast_forms<Base>(bv, chai);
  cast_forms<Derived>(bv, chai);
  cast_forms<std::vector<Boxed_Value>>(bv, chai);
  cast_forms<std::map<std::string, Boxed_Value>>(bv, chai);
  (void)boxed_cast<Boxed_Value>(bv);
  (void)boxed_cast<const Boxed_Value &>(bv);
  (void)boxed_cast<Boxed_Value &>(bv);
  (void)boxed_cast<Boxed_Number>(bv);
  (void)boxed_cast<const Boxed_Number &>(bv);
  (void)boxed_cast<std::function<int(int)>>(bv);
  (void)boxed_cast<const std::function<int(int)> &>(bv);
  (void)boxed_cast<std::function<void(const std::string &)>>(bv);
  (void)boxed_cast<std::function<Boxed_Value(Boxed_Value)>>(bv);
  (void)boxed_cast<std::function<std::string(double, Plain &)>>(bv);
  (void)boxed_cast<Color>(bv);
  (void)boxed_cast<std::vector<int>>(bv);
  (void)boxed_cast<Proxy_Function>(bv);
  (void)boxed_cast<Const_Proxy_Function>(bv);
  (void)boxed_cast<const dispatch::Proxy_Function_Base &>(bv);
  (void)boxed_cast<const dispatch::Dynamic_Object &>(bv);
  (void)boxed_cast<dispatch::Dynamic_Object &>(bv);
  (void)boxed_cast<std::unique_ptr<int> &>(bv);

  // function objects built from script functions
  auto f1 = chai.eval<std::function<int(int)>>("f");
  auto f2 = chai.eval<std::function<void()>>("f");
  auto f3 = chai.eval<std::function<std::string(const std::string &, int)>>("f");
  auto f4 = chai.eval<std::function<Boxed_Value(const Boxed_Value &)>>("f");
  auto f5 = chai.eval<std::function<double(Plain &, const Plain &, Plain *)>>("f");
  auto f6 = chai.eval<std::function<Plain &(Plain &)>>("f");
  auto f7 = chai.eval<std::function<unsigned long(long double)>>("f");
  (void)f1; (void)f2; (void)f3; (void)f4; (void)f5; (void)f6; (void)f7;
  auto fc = dispatch::functor<int(int)>(bv, nullptr);
  (void)fc;

  // exception specifications
  try {
    chai.eval("x", exception_specification<int, double, const std::string &, const std::exception &, Plain>());
    chai.eval<int>("x", exception_specification<float>(), "file");
    chai.eval_file("x", exception_specification<const std::runtime_error &>());
    chai.eval_file<int>("x");
    chai.use("x");
  } catch (...) {
  }

  // engine API
  auto st = chai.get_state();
  chai.set_state(st);
  auto lo = chai.get_locals();
  chai.set_locals(lo);
  chai.register_namespace([](Namespace &n) { n["x"] = var(1); }, "ns");
  chai.import("ns");
  (void)chai.parse("x", true);
  auto p = chai.parse("1");
  chai.eval(*p);
  (void)chai.get_type_name<int>();
  chaiscript::ModulePtr m = std::make_shared<chaiscript::Module>();
  chaiscript::bootstrap::standard_library::vector_type<std::vector<int>>("VectorInt", *m);
  chaiscript::bootstrap::standard_library::list_type<std::list<int>>("ListInt", *m);
  chaiscript::bootstrap::standard_library::map_type<std::map<std::string, int>>("MapInt", *m);
  chaiscript::bootstrap::standard_library::pair_type<std::pair<int, std::string>>("PairIS", *m);
  chaiscript::bootstrap::standard_library::string_type<std::string>("String2", *m);
  chaiscript::bootstrap::array<int[5]>("IntArr", *m);
  chaiscript::utility::add_class<Plain>(*m, "Plain2", {constructor<Plain()>(), constructor<Plain(int)>()}, {{fun(&Plain::x), "x"}});
  chaiscript::utility::add_class<Color>(*m, "Color", {{Red, "Red"}, {Green, "Green"}});
  chai.add(m);

  (void)basic.eval("1");
  {
    Boxed_Number n(1);
    (void)n.get_as_checked<int>();
    (void)n.get_as_checked<unsigned char>();
    (void)n.get_as_checked<long>();
    (void)n.get_as_checked<double>();
    (void)n.get_as<int>();
    (void)n.get_as<unsigned long long>();
    (void)n.get_as<long double>();
    (void)n.get_as<char>();
    (void)n.to_string();
    (void)Boxed_Number::is_floating_point(bv);
    (void)Boxed_Number::clone(bv);
  }
  (void)chaiscript::json_wrap::library;
}

} // namespace verif_catalogue
