import sys
ID=sys.argv[1]; SFX=sys.argv[2] if len(sys.argv)>2 else 'a'
D="/tmp/seed-%s%s"%(ID,SFX)
prop=open(D+"/property.txt").read()
print(f"""You are given a scratch git worktree of the ChaiScript repository (a header-only embedded scripting language for C++: recursive-descent parser, AST optimizer, tree-walking evaluator, type-based dispatch) at {D}/wt . Work ONLY inside {D}/ . Never read or write /repo, /verif or any other directory outside {D} (standard system headers and tools excepted). There is no network.

The following property is supposed to hold for ChaiScript:

{prop}

YOUR TASK: produce one small, realistic change to ChaiScript's sources (under {D}/wt/include or {D}/wt/src) - the kind of slip, refactoring mistake or well-meant "optimisation" a contributor could plausibly make - that BREAKS this property while
  (1) the code still compiles, and
  (2) the repository's existing test suite still passes completely.
Prefer a change that needs something specific to manifest - a particular interleaving, a fault/exception at a particular point, a multi-step sequence of operations, an unusual input, or two cooperating sites that each look fine on their own - over one that ordinary use would expose at once. Keep it small (a few lines, at most ~25). Do not modify or add tests in the repository, do not touch unittests/.

Build and test (takes several minutes; use -j8):
  cmake -G Ninja -S {D}/wt -B {D}/build -DCMAKE_BUILD_TYPE=RelWithDebInfo -DCMAKE_CXX_FLAGS=-Wno-error -DBUILD_TESTING=ON -DBUILD_MODULES=ON -DBUILD_SAMPLES=OFF
  cmake --build {D}/build -j8
  ctest --test-dir {D}/build -j8 --timeout 900        (295 tests, all must pass WITH your change)
The interpreter binary is {D}/build/chai (run: {D}/build/chai script.chai). For a C++ demonstration compile against the headers: g++ -std=c++17 -O1 -I{D}/wt/include demo.cpp -o demo -pthread -ldl (about 30-60 s per compile).

DELIVER in {D}/out/ :
  patch.diff   - `git -C {D}/wt diff > {D}/out/patch.diff` (only source changes)
  demo.chai or demo.cpp (+ run.sh with the exact commands) - a demonstration that FAILS (non-zero exit or prints FAIL) with your change applied and PASSES (exit 0 / prints PASS) on the unchanged sources. Verify BOTH directions yourself and record the outputs. To get back to the unchanged sources do NOT use `git stash` (the stash is shared with other worktrees of this repository): save your change with `git -C {D}/wt diff > {D}/out/patch.diff`, run `git -C {D}/wt checkout -- .`, rebuild, test, then re-apply with `git -C {D}/wt apply {D}/out/patch.diff`.
  notes.md     - what the change does, which clause of the property it breaks and why, what it needs in order to manifest, the commands you ran and their (abridged) output, and confirmation that ctest passed 295/295 with the change.
If your first idea turns out to be caught by the test suite, try another. When done, reply with a short summary (the idea, files touched, and whether both directions of the demonstration and the full test suite were verified).""")
