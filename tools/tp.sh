#!/bin/sh
P=$1; shift
D=$(mktemp -d /tmp/verif-try-XXXXXX)
for d in include src static_libs unittests samples; do [ -d /repo/$d ] && cp -r /repo/$d $D/; done
patch -p1 -s --no-backup-if-mismatch -d $D -i $P || exit 3
for pid in "$@"; do VERIF_REPO=$D VERIF_EVID_DIR=$D/_evidence /verif/check $pid 2>&1 | sed "s|$D/||g" | grep -v "^VIOLATION" | cut -c1-330; done
rm -rf $D
