#!/bin/sh
# tools/tp_all.sh <patch> <outfile>: all 20 checks on a scratch copy of /repo with the patch applied (for behaviour-preserving variants: every line must say 0 new violations)
P=$1; OUT=$2
D=$(mktemp -d /tmp/verif-try-XXXXXX)
for d in include src static_libs unittests samples; do [ -d /repo/$d ] && cp -r /repo/$d $D/; done
if ! patch -p1 -s --no-backup-if-mismatch -d $D -i $P > $OUT.patchlog 2>&1; then echo "PATCH-FAILED $P" > $OUT; rm -rf $D; exit 3; fi
: > $OUT
for i in $(seq -w 1 20); do
  VERIF_REPO=$D VERIF_EVID_DIR=$D/_evidence /verif/check C$i 2>&1 | sed "s|$D/||g" | grep -v "^KNOWN-FINDING\|^VIOLATION" | tail -4 | cut -c1-400 >> $OUT
done
rm -rf $D
