#!/usr/bin/env python3
"""tools/mkmutant.py <name> <repo-relative file> <old> <new> [<old2> <new2> ...]
Create selftest/mutants/<name>.diff replacing the unique occurrence of old by new."""
import difflib, os, sys
VERIF = os.path.dirname(os.path.dirname(os.path.abspath(__file__)))
name, rel = sys.argv[1], sys.argv[2]
pairs = sys.argv[3:]
src = open(os.path.join("/repo", rel)).read()
new = src
for i in range(0, len(pairs), 2):
    old, rep = pairs[i], pairs[i + 1]
    if new.count(old) != 1:
        sys.exit("pattern occurs %d times: %r" % (new.count(old), old[:60]))
    new = new.replace(old, rep)
d = difflib.unified_diff(src.splitlines(True), new.splitlines(True), "a/" + rel, "b/" + rel)
out = os.path.join(VERIF, "selftest", "mutants", name + ".diff")
open(out, "w").write("".join(d))
print("wrote", out)
