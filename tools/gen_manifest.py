#!/usr/bin/env python3
"""Generate /verif/MANIFEST.json from the table below (one entry per property)."""
import json
import os

VERIF = os.path.dirname(os.path.dirname(os.path.abspath(__file__)))

NOTE = ("Trusted base: clang 14 front end (parse, Sema, template instantiation), the chaifacts extractor and the Python rule "
        "engine (tested both ways by ./selftest), the tables in verif/rules (reference operator/escape/UB tables), C++ "
        "language guarantees (destructors of automatic objects run on every exit; const members cannot write non-mutable "
        "fields). Nothing is executed: the check parses /repo's current sources on every run (content-hash cache keyed on "
        "every source file). Resource exhaustion (bad_alloc) is out of scope.")

CLAIMED = {
    "C01": dict(
        text=("Decides four clauses of 'parsing is total and safe' for every input at once: (1) every successful exit of the parse "
              "entry (every member that installs an input buffer) passes the exhausted-input test whose failing arm throws, with "
              "nothing consumed in between - unparsed text is never dropped silently; (2) "
              "every recursion cycle of the parser's call graph contains a function that constructs the Depth_Counter before "
              "any call, the counter throws eval_error beyond the limit and decrements on exit - nesting depth is an error, "
              "not a native stack overflow; (3) cursor discipline: the raw buffer pointers are private to Position and "
              "dereferenced only under the end test, and an abstract interpretation of all 75 parser functions (lower bounds on "
              "characters consumed per cursor and saved position, computed callee summaries incl. symbol lengths, tracked "
              "boolean results, inlined lambdas) discharges every retreat (--, -=, - n), every Position::str range and the "
              "inductive invariant that no function ends before where it started - the parser never reads before or past "
              "the buffer; (4) bottom-up exception flow over the 430 functions on the parse path: only eval_error can leave "
              "parse(), nothing can leave a destructor or noexcept function of the parser; (5) the optimizer, which runs inside "
              "parse(), lets nothing escape: exception flow over its 845 reachable functions with guard-aware call sites "
              "(boxed_cast after a type test, dynamic_cast after an identifier test, Boxed_Number after is_arithmetic(), and the "
              "checked invariant that Type_Info never flags bool as arithmetic); (6) termination: every input-driven loop "
              "of the lexer/parser (63 loops) consumes at least one character in each iteration that can be followed by "
              "another one - second mode of the cursor analysis with call outcomes split into returned-true/returned-false, "
              "'cursor untouched when false' summaries, memoised character predicates, retro-confirmed ++ under has_more, "
              "tracked mode flags, 2-induction for flag-flipping iterations, and 'returned true => consumed >= 1' summaries "
              "taken as the greatest fixpoint; supporting obligations: every keyword/symbol/operator string is non-empty, "
              "Symbol_/Keyword_ consume exactly their symbol's length; recursion is bounded by (2). (7) tree depth: no parser loop wraps the node built so far into a new parent per iteration without counting the iteration against the depth limit - fails for the operator-chain loop and the postfix-chain loop on the current tree (two listed known findings with a replay: 400000 links overflow the native stack in the optimizer's recursive passes inside parse()). Not decided: that the "
              "tree accounts for each byte beyond (1)."),
        technique="must-pass-through + recursion-cycle analysis + abstract interpretation (cursor lower-bound domain; loop-progress mode with greatest-fixpoint summaries and 2-induction) + interprocedural exception flow",
        ref="DESIGN.md section 4 C01"),
    "C04": dict(
        text=("Decides that a lookup result is a function of the looked-up name on every path: each return of get_object / "
              "get_function / get_function_object(_int) / QuickFlatMap::find is control- or data-dependent on a comparison "
              "with the name (following local initialisers and lambda captures); positions taken from a per-node cache index a "
              "scope stack or scope only under a size comparison; the hinted find validates size and key; and the global/"
              "function lookup must be dominated by the scan of the local scope stack; on the cached-local path a value is "
              "returned only from the exact remembered slot or from a complete re-resolution, and only after the nearer "
              "scopes were checked for the name. the function lookup is reached only with the miss of the global-object search for this name established on the path (else the global, else the function). Two obligations fail on the current tree and are listed as known findings "
              "with replays (a node cached as 'not a local' ignores a local introduced later by eval(); a remembered outer "
              "slot wins over an inner variable of the same name introduced later) - both are the same design limit of the "
              "per-node cache. While those two obligations fail, text handed to eval()/eval_file()/use() must be evaluated on nodes parsed in that very call (no stored syntax tree is re-evaluated): decided for every tree evaluation in ChaiScript_Basic. A script function's body, parameters, captures and `this` live in a frame that eval_function opens unconditionally before binding anything (R4.8): a callee never resolves a name to its caller's local. Not decided: full equivalence with caching disabled on generated programs."),
        technique="control/data-dependence rules on the structured tree, bounds-dominance, dominance of the scope scan",
        ref="DESIGN.md section 4 C04"),
    "C06": dict(
        text=("Decides that the trusted kernel through which every argument and result passes is type-checked and cannot be "
              "bypassed, over ~400 instantiations of the call kernel and ~230 of the cast kernel: argument k of every wrapped "
              "callable is boxed_cast<Param_k>(params[k], &conversions); compare_types_cast probes exactly the parameter "
              "types; do_call is reachable only through operator() whose condition is exactly 'variadic or arity equal'; each "
              "Cast_Helper_Inner form derives mutable results from verify_type(typeid(Result), get_ptr()) and const results from "
              "get_const_ptr(), smart-pointer results from Any::cast of the exact type; Any::cast and the base/derived casters "
              "test the stored/source type first; eval<T>, boxed_cast<T> and std::function callers return only a checked "
              "cast of the script value; dispatch calls the selected overload as the operand of return inside "
              "try{bad_boxed_cast, arity_error, guard_error} and raises dispatch_error when nothing matched; candidates are "
              "ranked by the number of parameters whose bare type differs from the argument's, ranks are tried in ascending "
              "order from 0 and an exact candidate is entered without a conversion filter (the 'exact match is chosen' "
              "clause); the untyped data pointer of a box is cast to a typed pointer only in the verified cast kernel, in the "
              "arithmetic kernel, or under a dominating test that the box holds exactly that type (a base-class conversion "
              "adjusts the pointer, never reinterprets it). dispatch::functor<Sig> builds the std::function only after the test that some candidate has the arity of Sig (or is variadic), whose failing arm throws bad_boxed_cast. Not decided: ranking among candidates of equal rank; a user "
              "function that itself throws bad_boxed_cast makes dispatch try the next overload (noted in DESIGN.md)."),
        technique="per-instantiation structural rules over the call/cast kernels (template arguments compared with signature types), who-may-call",
        ref="DESIGN.md section 4 C06"),
    "C05": dict(
        text=("Decides statically, for all 121 instantiated (lhs,rhs) type pairs of the arithmetic kernel plus the dependent "
              "template pattern: every integer / % /= %= is dominated by a zero-divisor guard and (signed) by an overflow "
              "guard that throw arithmetic_error, no non-dividing operator is guarded; each of the 32 opcodes applies the C++ "
              "operator it names to the correctly ordered operands (value cases) or writes through the checked pointer and "
              "returns the left operand (assignment cases); every opcode has a wrapper of the right arity that reaches a "
              "handler; operator-string tables (to_operator, registrations) agree with the C++ meaning of each token; the "
              "Common_Types width/signedness tables name the right C++ types; all four evaluation routes reach the same "
              "kernel with the same decoding and preserve/translate arithmetic_error as documented; inside the arm guarded by the "
              "operands' is_arithmetic() test the operator nodes return nothing but the kernel's result; every compound-"
              "assignment token is decoded by to_operator (so that a trap is reported as eval_error uniformly). Not decided: the numeric "
              "values themselves (they are what the C++ compiler computes once operator and operand types are right)."),
        technique="custom AST dataflow/dominance rules over a libTooling fact extractor (all template instantiations), table cross-checks",
        ref="DESIGN.md section 4 C05"),
    "C09": dict(
        text=("Decides the first sentence of the property in full for stack *shape* (scope stack, call-frame stack, call depth, "
              "saved-parameter lists): an effect analysis of every function body on Stack_Holder's shape fields, summarised "
              "through the resolved call graph, shows that only holder/engine primitives and RAII guard constructors/"
              "destructors have a non-zero net effect; each guard's destructor is the exact inverse of its constructor on the "
              "same holder with nothing throwing in between; primitives are called from nowhere else; guard objects exist "
              "only as automatic locals (no heap, member, static, temporary, copy or move). By the C++ destructor guarantee "
              "the shape is then restored on every exit path, normal or exceptional, at every throw point. Also: declarations "
              "insert into the innermost scope only; saved parameters are cleared and conversion saves toggled exactly when "
              "the call depth crosses 0. The optimizer removes a block's scope only when nothing evaluated in the block declares into it (C02 R2.2 re-decided; the eval()-declares-into-a-scopeless-block finding is listed for this property too). The shape counters move only by the paired primitives: no absolute write, and the saved-parameter list is emptied only in pop_function_call. Not decided: value-level visibility of completed top-level declarations."),
        technique="interprocedural effect summaries over resolved call graph + who-may-call/who-may-write + RAII typestate (automatic-storage-only) rules",
        ref="DESIGN.md section 4 C09"),
    "C12": dict(
        text=("Decides the memory-safety clause ('never reads or writes outside the container') for the built-in Vector, List, "
              "Map, Pair, String, C arrays and their range views, over every instantiation of the bootstrap templates: no std "
              "member with an undefined-behaviour precondition is registered for script use directly; every internal use of "
              "front/back/pop/operator[]/erase(it)/insert(it), iterator * ++ --, std::advance and built-in subscript is "
              "dominated by a test on the operated object whose failing arm throws; positions begin()+n are used by erase "
              "only under 0 <= n < distance and by insert only under 0 <= n <= distance, and a sequence container is subscripted only under 0 <= i < size() (exact bounds, no off-by-one). "
              "Key lookups: a value is handed out through an iterator from find() only under != end(), through one from lower_bound()/upper_bound() only with a key-equivalence test as well; the library has no such site today, so the matcher is exercised on a fixture (fixtures/c12_lookup.cpp) on every run and must give the expected verdicts. The script-level half of insert_at stores a copy or an un-marked temporary (R12.5 = C17 R17.10). Not decided: step-by-step agreement of results with a list/dict/str model (holds by construction where the "
              "std member itself is bound); structural modification during iteration is excluded by the property."),
        technique="who-may-bind + check-dominates-use rules (structured dominance, comparison-fact extraction) over all template instantiations",
        ref="DESIGN.md section 4 C12"),
    "C14": dict(
        text=("Decides the mechanism the property rests on: (1) a complete inventory of every variable with static or thread "
              "storage duration under include/chaiscript, in every template instantiation - each is constexpr, const of "
              "arithmetic/char-pointer type, or one of three allow-listed objects with a stated reason (the per-thread store, the "
              "id counter, the keyword set); three objects fail this and are listed known findings with a replay - the "
              "process-wide Boxed_Value singletons for true/false/void, whose attribute map is writable through the const "
              "handle; apart from them no mutable process-wide state exists through which one engine could see another's "
              "variables, functions, types, conversions or used-file records; (2) the per-thread store keys its thread_local map by a const id taken from a "
              "process-wide atomic counter in every constructor (never an address), uses only that key, is not copyable, and any "
              "further static/thread_local object inside Thread_Storage (a lookup cache) is matched against that id, never "
              "against the object's address - "
              "so an engine created after another died, even at the same address and on threads that outlive both, starts "
              "empty. Everything else an engine owns is a data member and dies with it. Not decided: value-level behaviour "
              "of sequences of create/eval/destroy (follows from (1)+(2) and C++ object lifetime)."),
        technique="static-storage inventory over the resolved program (all instantiations) + keyed-storage typestate rule",
        ref="DESIGN.md section 4 C14"),
    "C16": dict(
        text=("Decides: (1) word literals and reserved words are recognised by exact spelling - every use of utility::hash on "
              "run-time text is inventoried, the reserved-word lookup compares strings, the word-literal switch receives the "
              "text's hash only after an exact match against a table that contains every case label; (2) the escape switch of "
              "the literal decoder, extracted as a table, equals the C++ simple escapes plus `$`, unknown escapes throw, octal "
              "escapes end after 3 digits, hex after 2*sizeof(char); (3) a typestate analysis shows every Char_Parser object "
              "is finished explicitly after its last parse() on every normal path (the destructor, which swallows eval_error, "
              "is never the one to complete an escape) and no other handler on the parse path swallows eval_error; (4) the "
              "if-ladder of buildInt, extracted as boolean formulas over its flags and range tests, yields the C++ "
              "literal type on all well-formed (suffix, base, magnitude-class) cases for each of the four (base, prefixed) argument "
              "pairs with which Num() actually calls it (decimal, octal, hex, binary); float suffixes select float/long "
              "double/double; Num() maps 0x/0b/leading 0 to bases 16/2/8; (5) \\u/\\U escapes are encoded with the UTF-8 table "
              "(thresholds, lead bytes, shifts, masks and byte counts extracted per range arm). (6) the octal and hex digit classes of the escape decoder are exact: the class predicates are evaluated over all 256 character values and compared with [0-7] and [0-9a-fA-F]. (7) parse_num<T> for floating T: every per-digit accumulator is a floating type at least as wide as T, factor ten on both sides of the point, exponent applied as a power of ten. Not decided: float accuracy in "
              "ulps, the digit arithmetic of std::stoll."),
        technique="hash-use inventory + guard rule, table extraction, typestate by abstract interpretation, symbolic evaluation of the typing ladder on all abstract cases",
        ref="DESIGN.md section 4 C16"),
    "C18": dict(
        text=("Decides the robustness clause and the structural half of the round-trip clause: (1) every JSON parser function "
              "consumes the input text only through at()/substr()/size() or forwards it to another parser function - every "
              "other accessor is a violation, and a positive fixture proves on each run that the rule can fire - so no input "
              "can be read past its end; (2) the recursive descent threads a depth argument that strictly increases around "
              "every recursion cycle and is tested against a limit whose failing arm throws, so arbitrarily deep nesting is "
              "an exception, not a stack overflow; (3) the writer's escape table composed with the reader's is the identity "
              "on everything the writer escapes, the writer escapes both reader-special characters and emits all other bytes "
              "unchanged; (4) every switch over the value kind is exhaustive and the number probe cannot capture booleans. "
              "The converter keeps no state between calls: no static or thread_local object besides compile-time constants (R18.5). Nothing but resource exhaustion can leave a noexcept function or destructor of the JSON value, reader and writer (R18.6, interprocedural exception flow): a rejected input is an error, never std::terminate. Not decided: numeric round trip (six printed decimals), key order, values of parse_num."),
        technique="who-may-access rule with positive fixture, recursion-cycle depth-argument analysis on the call graph, table extraction and composition",
        ref="DESIGN.md section 4 C18"),
    "C19": dict(
        text=("Decides: (1) by abstract interpretation of load_file (skip_bom analysed in place) over file-length classes - "
              "the points 0..K-1 bytes and the ray >= K bytes, K above every literal in the loader, each with 0-3 leading "
              "BOM bytes - with integers as linear forms in the length and a model of std::istream (short read sets failbit; "
              "seek/tell/read are no-ops until clear()): in every class the function returns exactly the file's bytes minus "
              "one leading byte-order mark (files of 0, 1, 2, 3 bytes included; a BOM-only file is empty; no read overruns "
              "its buffer, no assert fails); (2) every stream use is dominated by the is_open() test whose failing arm throws "
              "file_not_found_error, and the file is opened binary; (3) in use() the not-yet-used test, the evaluation and "
              "the insertion into the used-file set lie inside one uninterrupted critical section of the use mutex, "
              "evaluation happens only under `count == 0`, the nested include's own file_not_found_error is rethrown, and "
              "paths are tried in configured order; (4) the parser entry consumes input before parsing only under the '#!' "
              "test. the use-path and module-path lists keep the configured order (the initialiser hands the given vector through unchanged; later mutations add single elements only). Not decided: equality of eval_file(path) and eval(content) beyond 'the same bytes reach the parser'."),
        technique="abstract interpretation over file-length classes (linear forms + stream typestate), dominance rules, critical-section rule",
        ref="DESIGN.md section 4 C19"),
    "C13": dict(
        text=("Decides data-race freedom of the engine's own shared state in the sense of lock discipline: a lock-set analysis "
              "over RAII lock objects (including unlock()/lock() regions) shows that every read of a guarded field of "
              "Dispatch_Engine, Type_Conversions and ChaiScript_Basic happens with its mutex held and every write with the "
              "mutex held in unique mode - either directly or, for lock-free helpers and lambdas, at every caller on the same "
              "object up to the public entry points and calls from outside the class; every field of the three classes is "
              "classified (guarded-by / atomic / per-thread / immutable after construction / own synchronisation) and a new "
              "field is a violation; every `mutable` field in the whole code base is atomic, a mutex or per-thread storage "
              "(evaluation is const and runs concurrently); no non-recursive mutex is held across a call that re-acquires it "
              "or can reach script/C++ callbacks; a lookup of a guarded table and the update that depends on it lie in one critical "
              "section, or the update cannot overwrite / re-tests (no lost registration without a data race); the single "
              "shared parser object parses with a fresh local parser; no Boxed_Value with static storage duration is shared "
              "mutable state - three objects (the true/false/void singletons) fail this and are listed known findings "
              "with a ThreadSanitizer replay. use()'s "
              "exactly-once clause is decided in C19 R19.3. Every lock object on an engine mutex is constructed in the blocking form (no try_to_lock/defer_lock/adopt_lock, no try_lock/owns_lock): a reader that could not get the lock has only stale per-thread data to fall back on, and the lock-held reasoning above presupposes it. Closures stored in compiled nodes of the shared syntax tree capture only immutable plain values (R13.10 = C08 R8.7): no evaluation state is shared between threads through the tree. Not decided: per-thread results equal single-threaded runs; "
              "registration visibility timing; races the script itself creates on shared global values."),
        technique="lock-set analysis with requirement propagation over the resolved call graph; guarded-by table; mutable/field inventory",
        ref="DESIGN.md section 4 C13"),
    "C07": dict(
        text=("Decides that every route by which script-driven code could obtain a writable pointer into a boxed object passes "
              "a const check, and that everything which must be const is created const - over all template instantiations of "
              "the cast kernel and return handlers: the mutable data pointer is null when the type is const and has exactly "
              "three enumerated writers; every consumer of get_ptr() hands the pointer to the const-checking verifier or "
              "dereferences it only under a null test (incl. through lambdas and callees); every const-removing cast in the "
              "library is inventoried against a three-entry allow-list; the non-const verify_type overloads require "
              "!is_const(); in Equation/Prefix the const test dominates every mutating continuation and every "
              "Boxed_Value::assign has a receiver proven undefined or non-const; all Constant nodes built by parser and "
              "optimizer originate from const_var/buildInt/buildFloat/the arithmetic kernel; the arithmetic kernel itself (Boxed_Number::go/oper, all instantiations) hands out a fresh result only as const_var(..), otherwise the left operand or its own visitor's result; const return forms, const_var "
              "and add_global_const box const-qualified referents; data members of const objects are returned const; the "
              "obligation that a `const Boxed_Value &` result (element of a const Vector/Map) reaches the script as a const "
              "value fails on the current tree and is a listed known finding with replay (constness of a boxed container "
              "is shallow). Not decided: the exhaustive sequence space of mutation attempts at run time."),
        technique="who-may-write / check-dominates-use rules, const-cast inventory, value-origin (def-use) analysis over all instantiations",
        ref="DESIGN.md section 4 C07"),
    "C08": dict(
        text=("Decides that evaluation has no write access to the code it evaluates: every evaluation member of every class "
              "derived from AST_Node (all instantiations) is const; node classes carry no mutable state besides atomic "
              "location caches; outside constructors, chaiscript::parser and chaiscript::optimizer no field of a node is "
              "written and no non-const member function of a node is called (hundreds of accesses classified, also through "
              "shared_ptr-held function bodies captured by lambdas); const removal is inventoried by C07 R7.2; constants are "
              "created const (C07 R7.8) and handed out by value; container literals build a fresh local container per "
              "evaluation whose element values all pass through clone_if_necessary; `var x = e` and first assignment clone; "
              "no Constant node holds a value whose type contains Boxed_Value handles (constness of a boxed container is "
              "shallow, its elements would be shared by every evaluation). "
              "The constants' origin rule (C07 R7.8, including the arithmetic kernel through which the optimizer folds literals: fresh results only as const_var, never mutable or marked as a temporary a declaration may adopt) is re-decided and reported here as R8.5. Every in-place write of the evaluator is preceded by the const test on its target (C07 R7.4 re-decided and reported here as R8.6). Closures stored in compiled nodes capture only immutable plain values by copy (R8.7). Not decided: equality of results of repeated calls on generated functions (follows from the above plus C07)."),
        technique="class-hierarchy-wide const/mutable inventory, who-may-write rule over resolved accesses, def-use checks",
        ref="DESIGN.md section 4 C08"),
    "C10": dict(
        text=("Decides the structural clauses of exception delivery: (1) all try statements of the library whose body can "
              "reach user code (script functions, registered C++ functions, conversion callbacks; reachability over the "
              "resolved call graph incl. virtual/indirect calls, with the checked fact that boxed_cast without a conversions "
              "object runs no callback) are enumerated and every handler is an engine-internal type, an unconditional "
              "rethrow or one of three documented conversions - any other handler could swallow or replace a user "
              "exception; (2) the script-level try statement is analysed path by path with an abstract interpreter "
              "(clause matcher inlined, an exceptional edge at every child evaluation): no path on which an exception "
              "is caught, no clause ran, and evaluation continues normally; on every exit - normal, handled, unmatched, "
              "catch-all, a catch body that throws, return/break through the statement - the finally block is evaluated "
              "exactly once; at most one clause runs, in source order, each in its own scope; (3) the throw builtin throws "
              "exactly its argument, exception specifications throw the unboxed value and swallow only bad_boxed_cast, the "
              "call-stack annotation catches by reference, appends once and rethrows the same object, and a script-thrown "
              "Boxed_Value leaves eval unchanged; (4) no handler anywhere re-raises by throwing a copy of the object it caught "
              "through a base-class reference (also via a closure it passes the object to) - an unmatched exception keeps its "
              "dynamic type. Not decided: end-to-end traces of generated try/catch nests across "
              "frame kinds (needs execution); user code that itself throws the engine's internal exception types."),
        technique="handler classification over call-graph reachability + typestate/path enumeration of the try statement by abstract interpretation",
        ref="DESIGN.md section 4 C10"),
    "C15": dict(
        text=("Decides completeness and snapshot immutability: every field of ChaiScript_Basic::State is filled by get_state "
              "from the corresponding live member and written back by set_state, the engine's get_state/set_state copy the "
              "whole Dispatch_Engine::State; every field of Dispatch_Engine and ChaiScript_Basic that any non-constructor "
              "path writes (resolved through accessors, references and iterators) lies inside the saved state or is one of "
              "five documented exceptions (conversions, per-thread stacks, an atomic lookup hint, the loaded-module cache, "
              "namespace generators) - so nothing registered after a snapshot can survive set_state, and a new registry kept "
              "outside the state is a violation; overload lists shared between snapshots and the live engine are replaced, "
              "never edited in place; get_state/set_state touch no per-thread storage and hold the locks in the right mode. "
              "Not decided: a step-by-step dictionary model of visible names; values of shared global objects (snapshots "
              "share Boxed_Value handles by design)."),
        technique="record-completeness rule, who-may-write rule over resolved access paths, published-container immutability, lock-mode rule",
        ref="DESIGN.md section 4 C15"),
    "C02": dict(
        text=("Decides three necessary conditions of 'the optimizer never changes what a program does' (the full equivalence - "
              "translation validation of nine passes over all programs - is not claimed): (1) code generated by the optimizer "
              "publishes no object that dies with the generated closure: every non-owning Boxed_Value and every add_object "
              "argument in chaiscript::optimizer is classified by referent (automatic / catch / handle-owned = violation); "
              "(2) contains_var_decl_in_scope agrees with the evaluator, child by child: every node kind whose eval_internal "
              "adds a variable outside a scope guard of its own is in the declaration test, and a node kind is skipped by the "
              "search only for the children it evaluates inside its own Scope_Push_Pop (facts extracted from all 42 "
              "eval_internal bodies); one obligation of this rule - calls that evaluate text in the caller's scope (eval, "
              "use) declare too - fails on the current tree and is a listed known finding with replay; (3) no exception can "
              "leave Optimizer::optimize: exception flow over the 845 functions it reaches, with guard-aware call sites "
              "(boxed_cast after a type test, dynamic_cast after an identifier test, Boxed_Number after is_arithmetic()) and "
              "the checked invariant that no Get_Type_Info instantiation flags bool as arithmetic; (4) the call node that "
              "does not keep its arguments alive replaces only calls whose value is discarded (never a block's last "
              "statement); (5) no pass reorders children; (6) Dead_Code drops only node kinds whose evaluator can neither "
              "throw nor have an effect (exception flow over those evaluators); (7) `if (constant)` keeps the arm the "
              "evaluator would run and the compiled for-loop implements exactly the comparison and step its pattern accepts, "
              "from the pattern's own constants; (8) a node is replaced by a constant only when every child the evaluator would have evaluated is proven constant by the facts that dominate the replacement (a logical operator with one deciding constant operand is not folded); (9) a pass replaces a node by one of its own children only when no other evaluated child is lost (sole child, If with a constant condition, or all other children constant)."),
        technique="referent classification (escape rule), cross-module table agreement between optimizer predicate and evaluator bodies, interprocedural exception flow with dominating-fact call-site filters",
        ref="DESIGN.md section 4 C02"),
    "C03": dict(
        text=("Decides the skeleton the documented semantics rests on, as tables and shapes extracted from parser and evaluator "
              "and compared with the C reference: the 12 operator groups and their order equal C's levels, the group "
              "selectors map level k to group k, every binary level recurses one level tighter for its operands (left "
              "associative), the else-operand of ?: and the right operand of assignment recurse at their own level (right "
              "associative), each level builds the right node kind; && and || evaluate children[1] only as the right operand "
              "of the C++ operator after children[0]; ?: / if evaluate exactly one arm; all five loop implementations (while, "
              "for, both ranged-for forms, the compiled for) catch Continue_Loop inside the iteration and Break_Loop around "
              "the loop, switch catches Break_Loop per case and lets Continue_Loop through, the file level turns stray "
              "break/continue into eval_error, function boundaries return the value carried by Return_Value; block, while, "
              "for, ranged-for, switch, case, default, try and class evaluate their children under their own scope guard and "
              "functions run in a new frame; assignment evaluates the right operand first, first assignment and `var x = e` "
              "store clone_if_necessary(e), `:=` rebinds without copying; lambda captures are evaluated at creation and owned "
              "by the callable. clone_if_necessary clears the is-a-temporary mark on the path that does not copy, so the next declaration or assignment that receives the stored value does copy it; overload ordering (function_less_than) evaluated as a decision table on 12 scenarios: guarded before unguarded script functions, typed C++ before script functions, non-const before const, specific before catch-all. a script function's body is entered only under a passed arity/type match and a guard that returned true on the same arguments (guard_error otherwise); Param_Types::match interpreted on one parameter over 12 combinations of its tests accepts exactly untyped, script object of the named class, exact C++ type, convertible C++ type (marked for conversion). script classes: method and attribute wrappers call their body only for objects of their class (type-name match interpreted as a table), `def C::C` builds the constructor wrapper, which creates the object, passes it first followed by the arguments in order and returns it. The copy registered for a built-in container of values must clone element by element (a Boxed_Value copy shares the object): fails for Vector, Map, Map_Pair and Pair on the current tree - four listed known findings with a replay (`var b = a; b[0] = 9` changes a). No optimizer pass removes the evaluation of an operand the evaluator would evaluate (C02 R2.8/R2.9 re-decided as R3.12). Vector/map literals and declarations store clones (C08 R8.3 re-decided as R3.13). Not decided: agreement with a reference interpreter on generated programs; values."),
        technique="table extraction (operator groups, precedence order, node kind per level, recursion level per operand) and shape rules over eval_internal bodies (conditional evaluation, handler placement, scope guards, evaluation order)",
        ref="DESIGN.md section 4 C03"),
    "C11": dict(
        text=("Decides the ownership discipline the property rests on: (1) every non-owning Boxed_Value construction in the "
              "library (std::ref / std::cref / address-of forms, all instantiations) is classified by what it refers to - "
              "through reference locals, range-for variables, closure parameters and helper parameters one call level up - "
              "and none refers to an automatic local, a by-value parameter, a catch parameter or an element of a container "
              "kept alive only by a local handle; (2) every new-expression flows directly into a smart pointer and there is "
              "no manual delete; (3) both conversion directions save the converted object while saves are enabled and return "
              "that same object, and every C++ entry that dispatches with a freshly built conversion state enables the saves "
              "first (or is a script built-in reached only through a call node) - the sibling obligation for references the API "
              "hands to the host (eval<T&>/boxed_cast<T&> after a conversion) fails on the current tree and is a listed known "
              "finding with replay; (4) every call node that opens a call frame "
              "saves its evaluated arguments before dispatch (two documented exemptions); (5) Object_Data::get: owning forms "
              "store a shared_ptr and are not references, non-owning forms are marked as references, the cached pointer "
              "comes from the stored object. (6) the releasing side: every scope/frame opened is closed on every exit (the C09 rules R9.1-R9.3 re-run and reported here: an unclosed scope keeps its locals alive, a double close releases the caller's); (7) top-level statements are evaluated inside a call frame so that saved arguments are not released while the statement consuming a reference result is still running - this obligation fails on the current tree and is a listed known finding with a valgrind replay (`var c = (a + b)[5]` at top level). (8) the evaluator's scope guard attaches pending conversion temporaries to the current saved-argument list before it pushes a new one, so a converted argument lives for its C++ call also when that call runs a script callback; (9) the is-a-temporary mark (which lets a declaration adopt a box without copying) is put only on boxes that own their object - fails for const-reference results of C++ functions on the current tree, listed known finding with replay. (10) pending conversion temporaries are dropped only by take_saves (result put on a saved-argument list) or by the guard that enabled the saves itself. (11) nothing with static or thread storage duration can own objects created on behalf of a script (C14 R14.1 re-decided; the three literal singletons fail here too and are listed known findings). Not decided: destruction counts/times on generated programs; references that "
              "host-registered C++ functions return into host-owned objects; the range()/front() route of ranged-for."),
        technique="referent classification of non-owning boxes (intraprocedural + one call level), ownership rules, sibling agreement, must-precede and guard rules, overload table check",
        ref="DESIGN.md section 4 C11"),
    "C20": dict(
        text=("Decides the mechanism by which a location reaches the error: eval_internal is called only by "
              "AST_Node_Impl::eval, whose handler catches eval_error by reference, unconditionally appends *this once and "
              "rethrows - so the call stack lists the active nodes innermost first; unresolved identifiers and failed "
              "dispatches are converted to eval_error inside the failing node's own evaluation - so that node is the first "
              "entry; every leaf node is located by a cursor copy taken from m_position after whitespace was skipped and never "
              "moved, inner nodes start at their first child's start (the cursor when they have none) and end at the cursor, "
              "all carry the file name installed before parsing; nodes synthesised by the optimizer take the location of the "
              "node they replace; Position::operator++ starts a new line at column 1 after a line feed and advances the "
              "column otherwise, operator-- is its inverse, the cursor starts at 1:1. every node the optimizer builds carries the location of the node it replaces (location, text and children taken from the same node; folded constants from the pass's own node; compiled loops from their original node). no handler between the failing node and the caller swallows or replaces an eval_error in flight (C10 R10.1 re-decided as R20.6). Not decided: numeric agreement of every "
              "reported position with ground truth on generated programs."),
        technique="who-may-call + handler-shape rule, origin (def-use) rules for location arguments of every node construction, effect-table check of the cursor operators",
        ref="DESIGN.md section 4 C20"),
    "C17": dict(
        text=("Decides the clauses of the statement whose truth is in the shape of the prelude's script text ('leave their inputs "
              "unmodified', 'call the callback once per element in order', and safety on empty / short inputs), not the "
              "functional result of each algorithm. The prelude is extracted from the raw string literal on every run, "
              "parsed by an independent subset parser (anything outside the subset is analysis-broken, exit 2) and each of "
              "its 69 functions is interpreted abstractly (per range view: lower bound on elements left; per loop iteration: "
              "advances, which end was read, callback applications, counter steps): every range-driven loop advances its "
              "view exactly once on every path that completes an iteration and counting loops step their counter once; "
              "front/back/pop_front/pop_back are reached only with an element left (non-empty test or the function's size "
              "guard minus elements consumed, short-circuit aware); the end that is read is the end that is dropped; a "
              "callback applied to the current element is called exactly once per iteration; no parameter or alias of one "
              "(:=, &) is assigned, stepped, mutated through a member or handed to back_inserter/bind(push_back) outside the "
              "six functions whose contract is to mutate; no numeric parameter is compared with an unsigned size() (a negative "
              "count would wrap); on the C++ side Bidir_Range::pop_front/pop_back move only the "
              "view's iterators. Callback argument roles: every application of a callback parameter, direct or through another prelude function it is handed to, passes (element of input k / accumulator / result of another callback) in the same positions, compared with a reference table (foldl f(elem, acc); reduce f(acc, elem); zip_with f(x_i, y_i)). No function returns one of its parameters, `this`, or an alias of one (min/max select an argument by contract). What is handed to a by-reference store (insert_ref_at, push_back_ref) is clone(x), or x after x.reset_var_return_value() (R17.10). The copying declarations the prelude relies on really copy (C08 R8.3 re-decided as R17.11). Not decided: results (counts, order of combination), behaviour of the C++ functions called."),
        technique="script-level lint: independent subset parser + abstract interpretation (element lower bounds, per-iteration counters) + alias-aware who-may-mutate rule; one supporting rule over the C++ view class",
        ref="DESIGN.md section 4 C17 and 8.5"),
}

NOT_YET = "check not built yet in this session (design in DESIGN.md section 4); will be claimed once its rules run clean both ways"

ALL = ["C%02d" % i for i in range(1, 21)]


def main():
    checks = []
    for pid in ALL:
        if pid not in CLAIMED:
            continue
        c = CLAIMED[pid]
        checks.append({
            "property_id": pid,
            "quick_cmd": "./check %s --tier quick" % pid,
            "thorough_cmd": "./check %s --tier thorough" % pid,
            "evidence_file": "/verif/evidence/%s.json" % pid,
            "replay_cmd_template": "./check %s --replay {path}" % pid,
            "engine": "chaifacts+rules",
            "level_claimed": {"category": "other", "text": c["text"], "design_ref": c["ref"]},
            "level_note": NOTE,
            "technique": c["technique"],
        })
    na = [{"property_id": pid, "reason": NA.get(pid, NOT_YET)} for pid in ALL if pid not in CLAIMED]
    m = {
        "version": 1,
        "setup_cmd": "./setup.sh",
        "hooks": {
            "guard": "CHAISCRIPT_VERIF",
            "enable": "none needed: static analysis reads /repo's sources, no instrumentation is compiled in",
            "baseline_off_cmd": "cmake --build /repo/_build -j16 && ctest --test-dir /repo/_build -j8 --timeout 900",
            "source_commits": [],
            "add_only": True,
        },
        "engines": [{
            "name": "chaifacts+rules",
            "path": "/verif/extractor/chaifacts.cc, /verif/verif/",
            "serves_properties": sorted(CLAIMED),
            "kind_free_text": "(C17 additionally: independent parser for the prelude's script subset, verif/chaiparse.py) libTooling fact extractor (structured statement/expression trees of every function body "
                              "incl. template instantiations, records, statics, enums) + repository-specific Python rules "
                              "(dominance, must-pass-through, who-may-call, table agreement, exception flow)",
        }],
        "checks": checks,
        "not_applicable": na,
        "notes": "Static analysis only. exit 0 held / exit 1 VIOLATION / exit 2 analysis broken (anchor vanished, tree does not "
                 "compile, rule lost its instances). VERIF_REPO=<dir> analyses another checkout (used by ./selftest).",
    }
    with open(os.path.join(VERIF, "MANIFEST.json"), "w") as fh:
        json.dump(m, fh, indent=1)
        fh.write("\n")


NA = {}

if __name__ == "__main__":
    main()
