#!/bin/sh
# tools/try_patch.sh <patch.diff> <PID...>: run checks against a scratch copy of /repo with the patch applied
set -e
P=$1; shift
D=$(mktemp -d /tmp/verif-try-XXXXXX)
for d in include src static_libs unittests samples; do [ -d /repo/$d ] && cp -r /repo/$d $D/; done
if ! patch -p1 -s --no-backup-if-mismatch -d $D -i $P; then echo "PATCH DOES NOT APPLY"; rm -rf $D; exit 3; fi
for pid in "$@"; do
  VERIF_REPO=$D VERIF_EVID_DIR=$D/_evidence /verif/check $pid 2>&1 | sed "s|$D/||g" | tail -6 | cut -c1-400
  echo "--- $pid exit=$?"
done
rm -rf $D
