import sys
ID=sys.argv[1]; SFX=sys.argv[2] if len(sys.argv)>2 else 'r'
D="/tmp/seed-%s%s"%(ID,SFX)
prop=open(D+"/property.txt").read()
print(f"""You are given a scratch git worktree of the ChaiScript repository (a header-only embedded scripting language for C++: recursive-descent parser, AST optimizer, tree-walking evaluator, type-based dispatch) at {D}/wt . Work ONLY inside {D}/ . Never read or write /repo, /verif or any other directory outside {D} (standard system headers and tools excepted). There is no network.

The following property holds for ChaiScript and must KEEP holding:

{prop}

YOUR TASK: act as a careful maintainer doing clean-up. Find the functions in {D}/wt/include that implement the behaviour this property talks about, and produce FOUR separate, small, strictly BEHAVIOUR-PRESERVING refactorings of that code - each one the kind of change that passes review as "no functional change": e.g. renaming locals/parameters, introducing a named local or a reference alias for a sub-expression, extracting a few lines into a small helper function or lambda (or inlining one), turning nested if/else into early returns (or back), swapping the order of two independent statements, replacing a hand-written loop by the equivalent std algorithm (or back), folding duplicated handler bodies into one helper, replacing `a == b ? x : y` by if/else, adding an assert or a comment. Each refactoring should touch the code that actually matters for the property (not an unrelated corner), be 5-30 lines, and must not change behaviour for ANY input - including error cases, exceptions, evaluation order, thread safety and object lifetimes. Do not modify tests, do not touch unittests/.

Deliver each refactoring as its own patch against the UNCHANGED sources: make the change, `git -C {D}/wt diff > {D}/out/refactor_N.diff`, then `git -C {D}/wt checkout -- .` before starting the next one (do NOT use git stash). At the end apply all four together (they should be independent; if two conflict, keep them in separate build runs), then build and run the test suite once:
  cmake -G Ninja -S {D}/wt -B {D}/build -DCMAKE_BUILD_TYPE=RelWithDebInfo -DCMAKE_CXX_FLAGS=-Wno-error -DBUILD_TESTING=ON -DBUILD_MODULES=ON -DBUILD_SAMPLES=OFF
  cmake --build {D}/build -j8
  ctest --test-dir {D}/build -j8 --timeout 900        (295 tests, all must pass)
If a refactoring does not compile or a test fails, fix or replace it. Write {D}/out/notes.md: for each refactor_N.diff one paragraph saying what it does and why it cannot change behaviour, plus the ctest result line. When done, reply with a short summary.""")
