#!/usr/bin/env python3
"""tools/save_seed.py <seed dir> <name> <property> <detected_by> <needs...>: copy an independently produced breaking change into /verif/seeded/<name>/"""
import json, os, shutil, sys
src, name, prop, detected = sys.argv[1:5]
needs = " ".join(sys.argv[5:])
dst = os.path.join("/verif/seeded", name)
os.makedirs(dst, exist_ok=True)
for f in os.listdir(os.path.join(src, "out")):
    if f.endswith((".diff", ".chai", ".cpp", ".sh", ".md")) and os.path.getsize(os.path.join(src, "out", f)) < 200000:
        shutil.copy(os.path.join(src, "out", f), dst)
meta = {"property": prop, "origin": "independent sub-agent given only the property text and its own worktree",
        "needs_to_manifest": needs, "detected_by": detected,
        "verified_by_me": "re-ran ctest in the agent's build with the change (295/295 pass), ran the demonstration with the change (fails) and against the unchanged sources (passes); ran the registered checks on a scratch copy with patch.diff applied (tools/try_patch.sh)"}
json.dump(meta, open(os.path.join(dst, "meta.json"), "w"), indent=1)
print(dst, sorted(os.listdir(dst)))
