#!/bin/sh
# verify_seed.sh <dir>: with change: build+ctest+demo ; unchanged: demo
D=$1
cd $D
B=$(ls -d $D/build $D/wt/build $D/wt/_build 2>/dev/null | head -1)
{
echo "build dir: $B"
git -C wt diff --stat | tail -1
cmake --build $B -j14 2>&1 | tail -1
ctest --test-dir $B -j14 2>&1 | grep "tests passed\|tests failed"
sh out/run.sh > $D/v_changed.out 2>&1; echo "changed rc=$?"; tail -3 $D/v_changed.out
git -C wt checkout -- .
cmake --build $B -j14 --target chai 2>&1 | tail -1
sh out/run.sh > $D/v_unchanged.out 2>&1; echo "unchanged rc=$?"; tail -3 $D/v_unchanged.out
} > $D/verify.log 2>&1
