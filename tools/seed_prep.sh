#!/bin/sh
# tools/seed_prep.sh <ID> [suffix]: scratch worktree + property text for an independent breakage sub-agent
set -e
ID=$1; SFX=${2:-a}
D=/tmp/seed-$ID$SFX
rm -rf $D; mkdir -p $D/out
git -C /repo worktree prune
git -C /repo worktree add --detach $D/wt HEAD >/dev/null 2>&1
python3 - "$ID" > $D/property.txt <<'PY'
import json,sys
for l in open('/verif/properties.jsonl'):
    p=json.loads(l)
    if p['id']==sys.argv[1]:
        print("Title:", p['title']); print(); print("Statement:", p['statement']); print(); print("Holds for:", p['quantifier']['text'])
PY
echo $D
